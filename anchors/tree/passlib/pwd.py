import codecs
import contextlib
import logging
import os
from collections import defaultdict
from collections.abc import Hashable, MutableMapping
from importlib import resources
from math import ceil, log2

from passlib import exc
from passlib.utils import getrandstr, rng, to_unicode
from passlib.utils.decor import memoized_property

# local
__all__ = [
    "genword",
    "default_charsets",
    "genphrase",
    "default_wordsets",
]

# XXX: rename / publically document this map?
entropy_aliases = dict(
    # barest protection from throttled online attack
    unsafe=12,
    # some protection from unthrottled online attack
    weak=24,
    # some protection from offline attacks
    fair=36,
    # reasonable protection from offline attacks
    strong=48,
    # very good protection from offline attacks
    secure=60,
)


def _superclasses(obj, cls):
    """return remaining classes in object's MRO after cls"""
    mro = type(obj).__mro__
    return mro[mro.index(cls) + 1 :]


def _self_info_rate(source):
    """
    returns 'rate of self-information' --
    i.e. average (per-symbol) entropy of the sequence **source**,
    where probability of a given symbol occurring is calculated based on
    the number of occurrences within the sequence itself.

    if all elements of the source are unique, this should equal ``log(len(source), 2)``.

    :arg source:
        iterable containing 0+ symbols
        (e.g. list of strings or ints, string of characters, etc).

    :returns:
        float bits of entropy
    """
    try:
        size = len(source)
    except TypeError:
        # if len() doesn't work, calculate size by summing counts later
        size = None
    counts = defaultdict(int)
    for char in source:
        counts[char] += 1
    if size is None:
        values = counts.values()
        size = sum(values)
    else:
        values = counts.values()
    if not size:
        return 0
    # NOTE: the following performs ``- sum(value / size * logf(value / size, 2) for value in values)``,
    #       it just does so with as much pulled out of the sum() loop as possible...
    return log2(size) - sum(value * log2(value) for value in values) / size


# def _total_self_info(source):
#     """
#     return total self-entropy of a sequence
#     (the average entropy per symbol * size of sequence)
#     """
#     return _self_info_rate(source) * len(source)


def _open_asset_path(path, encoding=None):
    """
    :param asset_path:
        string containing absolute path to file,
        or package-relative path using format
        ``"python.module:relative/file/path"``.

    :returns:
        filehandle opened in 'rb' mode
        (unless encoding explicitly specified)
    """
    if encoding:
        return codecs.getreader(encoding)(_open_asset_path(path))
    if os.path.isabs(path):
        return open(path, "rb")  # noqa: SIM115
    package, sep, subpath = path.partition(":")
    if not sep:
        raise ValueError(
            "asset path must be absolute file path "
            f"or use 'pkg.name:sub/path' format: {path!r}"
        )
    return resources.files(package).joinpath(subpath).open("rb")


#: type aliases
_sequence_types = (list, tuple)
_set_types = (set, frozenset)

#: set of elements that ensure_unique() has validated already.
_ensure_unique_cache: set[Hashable] = set()


def _ensure_unique(source, param="source"):
    """
    helper for generators --
    Throws ValueError if source elements aren't unique.
    Error message will display (abbreviated) repr of the duplicates in a string/list
    """
    # check cache to speed things up for frozensets / tuples / strings
    cache = _ensure_unique_cache
    hashable = True
    try:
        if source in cache:
            return True
    except TypeError:
        hashable = False

    # check if it has dup elements
    if isinstance(source, _set_types) or len(set(source)) == len(source):
        if hashable:
            with contextlib.suppress(TypeError):
                # XXX: under pypy, "list() in set()" above doesn't throw TypeError,
                #      but trying to add unhashable it to a set *does*.
                cache.add(source)
        return True

    # build list of duplicate values
    seen = set()
    dups = set()
    for elem in source:
        (dups if elem in seen else seen).add(elem)
    dups = sorted(dups)
    trunc = 8
    if len(dups) > trunc:
        trunc = 5
    dup_repr = ", ".join(repr(str(word)) for word in dups[:trunc])
    if len(dups) > trunc:
        dup_repr += ", ... plus %d others" % (len(dups) - trunc)

    # throw error
    raise ValueError(f"`{param}` cannot contain duplicate elements: {dup_repr}")


class SequenceGenerator:
    """
    Base class used by word & phrase generators.

    These objects take a series of options, corresponding
    to those of the :func:`generate` function.
    They act as callables which can be used to generate a password
    or a list of 1+ passwords. They also expose some read-only
    informational attributes.

    Parameters
    ----------
    :param entropy:
        Optionally specify the amount of entropy the resulting passwords
        should contain (as measured with respect to the generator itself).
        This will be used to auto-calculate the required password size.

    :param length:
        Optionally specify the length of password to generate,
        measured as count of whatever symbols the subclass uses (characters or words).
        Note if ``entropy`` requires a larger minimum length,
        that will be used instead.

    :param rng:
        Optionally provide a custom RNG source to use.
        Should be an instance of :class:`random.Random`,
        defaults to :class:`random.SystemRandom`.

    Attributes
    ----------
    .. autoattribute:: length
    .. autoattribute:: symbol_count
    .. autoattribute:: entropy_per_symbol
    .. autoattribute:: entropy

    Subclassing
    -----------
    Subclasses must implement the ``.__next__()`` method,
    and set ``.symbol_count`` before calling base ``__init__`` method.
    """

    #: requested size of final password
    length = None

    #: requested entropy of final password
    requested_entropy = "strong"

    #: random number source to use
    rng = rng

    #: number of potential symbols (must be filled in by subclass)
    symbol_count = None

    def __init__(self, entropy=None, length=None, rng=None, **kwds):
        # make sure subclass set things up correctly
        assert self.symbol_count is not None, "subclass must set .symbol_count"

        # init length & requested entropy
        if entropy is not None or length is None:
            if entropy is None:
                entropy = self.requested_entropy
            entropy = entropy_aliases.get(entropy, entropy)
            if entropy <= 0:
                raise ValueError("`entropy` must be positive number")
            min_length = int(ceil(entropy / self.entropy_per_symbol))
            if length is None or length < min_length:
                length = min_length

        self.requested_entropy = entropy

        if length < 1:
            raise ValueError("`length` must be positive integer")
        self.length = length

        # init other common options
        if rng is not None:
            self.rng = rng

        # hand off to parent
        if kwds and _superclasses(self, SequenceGenerator) == (object,):
            raise TypeError("Unexpected keyword(s): {}".format(", ".join(kwds.keys())))
        super().__init__(**kwds)

    @memoized_property
    def entropy_per_symbol(self):
        """
        Average entropy per symbol (assuming all symbols have equal probability)
        """
        return log2(self.symbol_count)

    @memoized_property
    def entropy(self):
        """
        Effective entropy of generated passwords.

        This value will always be a multiple of :attr:`entropy_per_symbol`.
        If entropy is specified in constructor, :attr:`length` will be chosen so
        so that this value is the smallest multiple >= :attr:`requested_entropy`.
        """
        return self.length * self.entropy_per_symbol

    def __next__(self):
        """main generation function, should create one password/phrase"""
        raise NotImplementedError("implement in subclass")

    def __call__(self, returns=None):
        """
        frontend used by genword() / genphrase() to create passwords
        """
        if returns is None:
            return next(self)
        if isinstance(returns, int):
            return [next(self) for _ in range(returns)]
        if returns is iter:
            return self
        raise exc.ExpectedTypeError(returns, "<None>, int, or <iter>", "returns")

    def __iter__(self):
        return self


#: global dict of predefined characters sets
default_charsets = dict(
    # ascii letters, digits, and some punctuation
    ascii_72="0123456789abcdefghijklmnopqrstuvwxyzABCDEFGHIJKLMNOPQRSTUVWXYZ!@#$%^&*?/",
    # ascii letters and digits
    ascii_62="0123456789abcdefghijklmnopqrstuvwxyzABCDEFGHIJKLMNOPQRSTUVWXYZ",
    # ascii_50, without visually similar '1IiLl', '0Oo', '5S', '8B'
    ascii_50="234679abcdefghjkmnpqrstuvwxyzACDEFGHJKMNPQRTUVWXYZ",
    # lower case hexadecimal
    hex="0123456789abcdef",
)


class WordGenerator(SequenceGenerator):
    """
    Class which generates passwords by randomly choosing from a string of unique characters.

    Parameters
    ----------
    :param chars:
        custom character string to draw from.

    :param charset:
        predefined charset to draw from.

    :param \\*\\*kwds:
        all other keywords passed to the :class:`SequenceGenerator` parent class.

    Attributes
    ----------
    .. autoattribute:: chars
    .. autoattribute:: charset
    .. autoattribute:: default_charsets
    """

    #: Predefined character set in use (set to None for instances using custom 'chars')
    charset = "ascii_62"

    #: string of chars to draw from -- usually filled in from charset
    chars = None

    def __init__(self, chars=None, charset=None, **kwds):
        # init chars and charset
        if chars:
            if charset:
                raise TypeError("`chars` and `charset` are mutually exclusive")
        else:
            if not charset:
                charset = self.charset
                assert charset
            chars = default_charsets[charset]
        self.charset = charset
        chars = to_unicode(chars, param="chars")
        _ensure_unique(chars, param="chars")
        self.chars = chars

        # hand off to parent
        super().__init__(**kwds)
        # log.debug("WordGenerator(): entropy/char=%r", self.entropy_per_symbol)

    @memoized_property
    def symbol_count(self):
        return len(self.chars)

    def __next__(self):
        # XXX: could do things like optionally ensure certain character groups
        #      (e.g. letters & punctuation) are included
        return getrandstr(self.rng, self.chars, self.length)


def genword(entropy=None, length=None, returns=None, **kwds):
    """Generate one or more random passwords.

    This function uses :mod:`random.SystemRandom` to generate
    one or more passwords using various character sets.
    The complexity of the password can be specified
    by size, or by the desired amount of entropy.

    Usage Example::

        >>> # generate a random alphanumeric string with 48 bits of entropy (the default)
        >>> from passlib import pwd
        >>> pwd.genword()
        'DnBHvDjMK6'

        >>> # generate a random hexadecimal string with 52 bits of entropy
        >>> pwd.genword(entropy=52, charset="hex")
        '310f1a7ac793f'

    :param entropy:
        Strength of resulting password, measured in 'guessing entropy' bits.
        An appropriate **length** value will be calculated
        based on the requested entropy amount, and the size of the character set.

        This can be a positive integer, or one of the following preset
        strings: ``"weak"`` (24), ``"fair"`` (36),
        ``"strong"`` (48), and ``"secure"`` (56).

        If neither this or **length** is specified, **entropy** will default
        to ``"strong"`` (48).

    :param length:
        Size of resulting password, measured in characters.
        If omitted, the size is auto-calculated based on the **entropy** parameter.

        If both **entropy** and **length** are specified,
        the stronger value will be used.

    :param returns:
        Controls what this function returns:

        * If ``None`` (the default), this function will generate a single password.
        * If an integer, this function will return a list containing that many passwords.
        * If the ``iter`` constant, will return an iterator that yields passwords.

    :param chars:

        Optionally specify custom string of characters to use when randomly
        generating a password. This option cannot be combined with **charset**.

    :param charset:

        The predefined character set to draw from (if not specified by **chars**).
        There are currently four presets available:

        * ``"ascii_62"`` (the default) -- all digits and ascii upper & lowercase letters.
          Provides ~5.95 entropy per character.

        * ``"ascii_50"`` -- subset which excludes visually similar characters
          (``1IiLl0Oo5S8B``). Provides ~5.64 entropy per character.

        * ``"ascii_72"`` -- all digits and ascii upper & lowercase letters,
          as well as some punctuation. Provides ~6.17 entropy per character.

        * ``"hex"`` -- Lower case hexadecimal.  Providers 4 bits of entropy per character.

    :returns:
        :class:`!str` string containing randomly generated password;
        or list of 1+ passwords if :samp:`returns={int}` is specified.
    """
    gen = WordGenerator(length=length, entropy=entropy, **kwds)
    return gen(returns)


def _load_wordset(asset_path):
    """
    load wordset from compressed datafile within package data.
    file should be utf-8 encoded

    :param asset_path:
        string containing  absolute path to wordset file,
        or "python.module:relative/file/path".

    :returns:
        tuple of words, as loaded from specified words file.
    """
    # open resource file, convert to tuple of words (strip blank lines & ws)
    with _open_asset_path(asset_path, "utf-8") as fh:
        gen = (word.strip() for word in fh)
        words = tuple(word for word in gen if word)

    # NOTE: works but not used
    # # detect if file uses "<int> <word>" format, and strip numeric prefix
    # def extract(row):
    #     idx, word = row.replace("\t", " ").split(" ", 1)
    #     if not idx.isdigit():
    #         raise ValueError("row is not dice index + word")
    #     return word
    # try:
    #     extract(words[-1])
    # except ValueError:
    #     pass
    # else:
    #     words = tuple(extract(word) for word in words)

    logging.debug("loaded %d-element wordset from %r", len(words), asset_path)
    return words


class WordsetDict(MutableMapping):
    """
    Special mapping used to store dictionary of wordsets.
    Different from a regular dict in that some wordsets
    may be lazy-loaded from an asset path.
    """

    #: dict of key -> asset path
    paths = None

    #: dict of key -> value
    _loaded = None

    def __init__(self, *args, **kwds):
        self.paths = {}
        self._loaded = {}
        super().__init__(*args, **kwds)

    def __getitem__(self, key):
        try:
            return self._loaded[key]
        except KeyError:
            pass
        path = self.paths[key]
        value = self._loaded[key] = _load_wordset(path)
        return value

    def set_path(self, key, path):
        """
        set asset path to lazy-load wordset from.
        """
        self.paths[key] = path

    def __setitem__(self, key, value):
        self._loaded[key] = value

    def __delitem__(self, key):
        if key in self:
            del self._loaded[key]
            self.paths.pop(key, None)
        else:
            del self.paths[key]

    @property
    def _keyset(self):
        keys = set(self._loaded)
        keys.update(self.paths)
        return keys

    def __iter__(self):
        return iter(self._keyset)

    def __len__(self):
        return len(self._keyset)

    # NOTE: speeds things up, and prevents contains from lazy-loading
    def __contains__(self, key):
        return key in self._loaded or key in self.paths


#: dict of predefined word sets.
#: key is name of wordset, value should be sequence of words.
default_wordsets = WordsetDict()

# register the wordsets built into passlib
for name in "eff_long eff_short eff_prefixed bip39".split():
    default_wordsets.set_path(name, f"passlib:_data/wordsets/{name}.txt")


class PhraseGenerator(SequenceGenerator):
    """class which generates passphrases by randomly choosing
    from a list of unique words.

    :param wordset:
        wordset to draw from.
    :param preset:
        name of preset wordlist to use instead of ``wordset``.
    :param spaces:
        whether to insert spaces between words in output (defaults to ``True``).
    :param \\*\\*kwds:
        all other keywords passed to the :class:`SequenceGenerator` parent class.

    .. autoattribute:: wordset
    """

    #: predefined wordset to use
    wordset = "eff_long"

    #: list of words to draw from
    words = None

    #: separator to use when joining words
    sep = " "

    def __init__(self, wordset=None, words=None, sep=None, **kwds):
        # load wordset
        if words is not None:
            if wordset is not None:
                raise TypeError("`words` and `wordset` are mutually exclusive")
        else:
            if wordset is None:
                wordset = self.wordset
                assert wordset
            words = default_wordsets[wordset]
        self.wordset = wordset

        # init words
        if not isinstance(words, _sequence_types):
            words = tuple(words)
        _ensure_unique(words, param="words")
        self.words = words

        # init separator
        if sep is None:
            sep = self.sep
        sep = to_unicode(sep, param="sep")
        self.sep = sep

        # hand off to parent
        super().__init__(**kwds)
        ##log.debug("PhraseGenerator(): entropy/word=%r entropy/char=%r min_chars=%r",
        ##          self.entropy_per_symbol, self.entropy_per_char, self.min_chars)

    @memoized_property
    def symbol_count(self):
        return len(self.words)

    def __next__(self):
        words = (self.rng.choice(self.words) for _ in range(self.length))
        return self.sep.join(words)


def genphrase(entropy=None, length=None, returns=None, **kwds):
    """Generate one or more random password / passphrases.

    This function uses :mod:`random.SystemRandom` to generate
    one or more passwords; it can be configured to generate
    alphanumeric passwords, or full english phrases.
    The complexity of the password can be specified
    by size, or by the desired amount of entropy.

    Usage Example::

        >>> # generate random phrase with 48 bits of entropy
        >>> from passlib import pwd
        >>> pwd.genphrase()
        'gangly robbing salt shove'

        >>> # generate a random phrase with 52 bits of entropy
        >>> # using a particular wordset
        >>> pwd.genword(entropy=52, wordset="bip39")
        'wheat dilemma reward rescue diary'

    :param entropy:
        Strength of resulting password, measured in 'guessing entropy' bits.
        An appropriate **length** value will be calculated
        based on the requested entropy amount, and the size of the word set.

        This can be a positive integer, or one of the following preset
        strings: ``"weak"`` (24), ``"fair"`` (36),
        ``"strong"`` (48), and ``"secure"`` (56).

        If neither this or **length** is specified, **entropy** will default
        to ``"strong"`` (48).

    :param length:
        Length of resulting password, measured in words.
        If omitted, the size is auto-calculated based on the **entropy** parameter.

        If both **entropy** and **length** are specified,
        the stronger value will be used.

    :param returns:
        Controls what this function returns:

        * If ``None`` (the default), this function will generate a single password.
        * If an integer, this function will return a list containing that many passwords.
        * If the ``iter`` builtin, will return an iterator that yields passwords.

    :param words:

        Optionally specifies a list/set of words to use when randomly generating a passphrase.
        This option cannot be combined with **wordset**.

    :param wordset:

        The predefined word set to draw from (if not specified by **words**).
        There are currently four presets available:

        ``"eff_long"`` (the default)

            Wordset containing 7776 english words of ~7 letters.
            Constructed by the EFF, it offers ~12.9 bits of entropy per word.

            This wordset (and the other ``"eff_"`` wordsets)
            were `created by the EFF <https://www.eff.org/deeplinks/2016/07/new-wordlists-random-passphrases>`_
            to aid in generating passwords.  See their announcement page
            for more details about the design & properties of these wordsets.

        ``"eff_short"``

            Wordset containing 1296 english words of ~4.5 letters.
            Constructed by the EFF, it offers ~10.3 bits of entropy per word.

        ``"eff_prefixed"``

            Wordset containing 1296 english words of ~8 letters,
            selected so that they each have a unique 3-character prefix.
            Constructed by the EFF, it offers ~10.3 bits of entropy per word.

        ``"bip39"``

            Wordset of 2048 english words of ~5 letters,
            selected so that they each have a unique 4-character prefix.
            Published as part of Bitcoin's `BIP 39 <https://github.com/bitcoin/bips/blob/master/bip-0039/english.txt>`_,
            this wordset has exactly 11 bits of entropy per word.

            This list offers words that are typically shorter than ``"eff_long"``
            (at the cost of slightly less entropy); and much shorter than
            ``"eff_prefixed"`` (at the cost of a longer unique prefix).

    :param sep:
        Optional separator to use when joining words.
        Defaults to ``" "`` (a space), but can be an empty string, a hyphen, etc.

    :returns:
        :class:`!str` containing randomly generated passphrase;
        or list of 1+ passphrases if :samp:`returns={int}` is specified.
    """
    gen = PhraseGenerator(entropy=entropy, length=length, **kwds)
    return gen(returns)


# =============================================================================
# strength measurement
#
# NOTE:
# for a little while, had rough draft of password strength measurement alg here.
# but not sure if there's value in yet another measurement algorithm,
# that's not just duplicating the effort of libraries like zxcbn.
# may revive it later, but for now, leaving some refs to others out there:
#    * NIST 800-63 has simple alg
#    * zxcvbn (https://tech.dropbox.com/2012/04/zxcvbn-realistic-password-strength-estimation/)
#      might also be good, and has approach similar to composite approach i was already thinking about,
#      but much more well thought out.
#    * passfault (https://github.com/c-a-m/passfault) looks thorough,
#      but may have licensing issues, plus porting to python looks like very big job :(
#    * give a look at running things through zlib - might be able to cheaply
#      catch extra redundancies.
# =============================================================================
