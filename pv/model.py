"""Program model: units, import resolution, class table with C3 MRO, attribute lookup,
constant folding.  Pure ``ast``; never imports the analysed code."""
from __future__ import annotations

import ast
import os
import hashlib

REPO = os.environ.get("PV_REPO", "/repo")
PACKAGES = ("passlib", "libpass")
EXCLUDE_FILES = {"_gen_files.py"}


class AnalysisError(Exception):
    """anchor vanished / construct not recognised -> exit 2, never a verdict"""


class _Unknown:
    def __repr__(self):
        return "UNKNOWN"

    def __bool__(self):
        raise AnalysisError("truth value of UNKNOWN used")


UNKNOWN = _Unknown()


def is_known(v):
    return v is not UNKNOWN


_EQUIV_MEMO = {}


class Unit:
    def __init__(self, name, path, rel, src):
        self.name, self.path, self.rel, self.src = name, path, rel, src
        self.tree = ast.parse(src, path)
        from . import alpha
        # items that are provably equivalent (equal normal forms) to their counterpart in the reference tree are analysed in the reference
        # shape the rules were confirmed on (pv/equiv.py); everything else is analysed as it stands
        self.equiv = (0, 0, [])
        if not os.environ.get("PV_NO_EQUIV"):
            from . import equiv
            import pickle
            key = (rel, hashlib.sha256(src.encode("utf-8", "surrogatepass")).hexdigest())
            hit = _EQUIV_MEMO.get(key)
            if hit is not None:
                # `check all` builds one model per property in one process: the substitution is a function of the two sources only
                self.tree, self.equiv = pickle.loads(hit[0]), hit[1]
            else:
                ref = equiv.anchor_tree(rel)
                if ref is not None:
                    try:
                        self.equiv = equiv.substitute(self.tree, ref)
                    except RecursionError:
                        self.equiv = (0, 0, ["<recursion>"])
                    _EQUIV_MEMO[key] = (pickle.dumps(self.tree), self.equiv)
        self.logging_stripped = alpha.strip_logging(self.tree)
        self.docstrings_stripped = alpha.strip_docstrings(self.tree)
        self.alpha_renamed = alpha.apply(self.tree, alpha.load().get(name)) if not os.environ.get("PV_NO_ALPHA") else 0
        self.is_pkg = path.endswith("__init__.py")
        self.imports = {}  # local name -> (module, attr|None)
        self.classes = {}
        self.funcs = {}
        self.assigns = {}  # name -> [value expr, ...] in order (top level incl. if/try bodies)
        self.parents = {}
        for node in ast.walk(self.tree):
            for ch in ast.iter_child_nodes(node):
                self.parents[ch] = node
        for st in self.tree.body:
            self._top(st)

    def _abs(self, module, level):
        if not level:
            return module
        base = self.name.split(".")
        if not self.is_pkg:
            base = base[:-1]
        if level > 1:
            base = base[: -(level - 1)]
        return ".".join(base + ([module] if module else []))

    def _top(self, st):
        if isinstance(st, ast.Import):
            for a in st.names:
                if a.asname:
                    self.imports[a.asname] = (a.name, None)
                else:
                    self.imports[a.name.split(".")[0]] = (a.name.split(".")[0], None)
        elif isinstance(st, ast.ImportFrom):
            mod = self._abs(st.module, st.level)
            for a in st.names:
                self.imports[a.asname or a.name] = (mod, a.name)
        elif isinstance(st, ast.ClassDef):
            self.classes[st.name] = st
        elif isinstance(st, (ast.FunctionDef, ast.AsyncFunctionDef)):
            self.funcs[st.name] = st
        elif isinstance(st, ast.Assign):
            for t in st.targets:
                self._bind(t, st.value)
        elif isinstance(st, ast.AnnAssign) and st.value is not None:
            self._bind(st.target, st.value)
        elif isinstance(st, (ast.If, ast.Try, ast.With)):
            for fld in ("body", "orelse", "finalbody"):
                for sub in getattr(st, fld, []):
                    self._top(sub)
            for h in getattr(st, "handlers", []):
                for sub in h.body:
                    self._top(sub)

    def _bind(self, target, value):
        if isinstance(target, ast.Name):
            self.assigns.setdefault(target.id, []).append(value)
        elif isinstance(target, (ast.Tuple, ast.List)) and isinstance(value, (ast.Tuple, ast.List)) \
                and len(target.elts) == len(value.elts):
            for t, v in zip(target.elts, value.elts):
                self._bind(t, v)

    # ---- helpers
    def parent(self, node):
        return self.parents.get(node)

    def enclosing(self, node, types):
        p = self.parents.get(node)
        while p is not None and not isinstance(p, types):
            p = self.parents.get(p)
        return p

    def enclosing_func(self, node):
        return self.enclosing(node, (ast.FunctionDef, ast.AsyncFunctionDef, ast.Lambda))

    def enclosing_class(self, node):
        return self.enclosing(node, ast.ClassDef)

    def qualname(self, node):
        parts = []
        n = node
        while n is not None:
            if isinstance(n, (ast.FunctionDef, ast.AsyncFunctionDef, ast.ClassDef)):
                parts.append(n.name)
            n = self.parents.get(n)
        return ".".join(reversed(parts))

    def functions(self):
        """yield (qualname, FunctionDef) for every function in the unit"""
        for node in ast.walk(self.tree):
            if isinstance(node, (ast.FunctionDef, ast.AsyncFunctionDef)):
                yield self.qualname(node), node


class Model:
    def __init__(self, root=None):
        self.root = root or REPO
        self.units = {}
        for pkg in PACKAGES:
            base = os.path.join(self.root, pkg)
            if not os.path.isdir(base):
                raise AnalysisError(f"package directory missing: {base}")
            for dp, dn, fn in os.walk(base):
                dn.sort()
                for f in sorted(fn):
                    if not f.endswith(".py") or f in EXCLUDE_FILES:
                        continue
                    p = os.path.join(dp, f)
                    rel = os.path.relpath(p, self.root)
                    name = rel[:-3].replace(os.sep, ".")
                    if name.endswith(".__init__"):
                        name = name[: -len(".__init__")]
                    try:
                        with open(p, encoding="utf-8") as fh:
                            src = fh.read()
                        self.units[name] = Unit(name, p, rel, src)
                    except SyntaxError as e:
                        raise AnalysisError(f"syntax error in {rel}: {e}")
        self._mro_cache = {}

    def digest(self):
        h = hashlib.sha256()
        for n in sorted(self.units):
            h.update(n.encode())
            h.update(self.units[n].src.encode())
        return h.hexdigest()[:16]

    # ------------------------------------------------------------------ anchors
    def unit(self, name) -> Unit:
        u = self.units.get(name)
        if u is None:
            raise AnalysisError(f"unit vanished: {name}")
        return u

    def cls(self, unitname, clsname) -> ast.ClassDef:
        u = self.unit(unitname)
        c = u.classes.get(clsname)
        if c is None:
            raise AnalysisError(f"class vanished: {unitname}:{clsname}")
        return c

    def func(self, unitname, qual, required=True):
        """qual: 'f' | 'Class.method' | 'f.inner'"""
        u = self.unit(unitname)
        parts = qual.split(".")
        body = u.tree.body
        node = None
        scopes = [u.tree]
        cur = u.tree
        for i, p in enumerate(parts):
            found = None
            for st in _walk_defs(cur):
                if isinstance(st, (ast.FunctionDef, ast.AsyncFunctionDef, ast.ClassDef)) and st.name == p:
                    found = st  # last definition wins
            if found is None:
                if required:
                    raise AnalysisError(f"function vanished: {unitname}:{qual}")
                return None
            cur = found
        return cur

    # ------------------------------------------------------------------ name resolution
    def resolve_import(self, module, attr, depth=0):
        """-> ('module', unitname) | ('class', unit, name) | ('func', unit, name) |
        ('value', unit, name) | ('ext', dotted)"""
        if depth > 12:
            return None
        if attr is None:
            if module in self.units:
                return ("module", module)
            return ("ext", module)
        sub = module + "." + attr
        u = self.units.get(module)
        if u is None:
            if sub in self.units:
                return ("module", sub)
            return ("ext", sub)
        if attr in u.classes:
            return ("class", module, attr)
        if attr in u.funcs:
            return ("func", module, attr)
        if attr in u.assigns:
            # simple alias  X = Y ?
            vals = u.assigns[attr]
            if len(vals) == 1 and isinstance(vals[0], (ast.Name, ast.Attribute)):
                r = self.resolve(u, vals[0], depth + 1)
                if r is not None and r[0] in ("class", "func", "module"):
                    return r
            return ("value", module, attr)
        if attr in u.imports:
            m, a = u.imports[attr]
            return self.resolve_import(m, a, depth + 1)
        if sub in self.units:
            return ("module", sub)
        return None

    def resolve(self, unit: Unit, expr, depth=0):
        """resolve a Name / dotted Attribute at module scope of ``unit``"""
        if depth > 12:
            return None
        if isinstance(expr, ast.Name):
            n = expr.id
            if n in unit.classes:
                return ("class", unit.name, n)
            if n in unit.funcs:
                return ("func", unit.name, n)
            if n in unit.assigns:
                vals = unit.assigns[n]
                if len(vals) == 1 and isinstance(vals[0], (ast.Name, ast.Attribute)):
                    r = self.resolve(unit, vals[0], depth + 1)
                    if r is not None and r[0] in ("class", "func", "module"):
                        return r
                return ("value", unit.name, n)
            if n in unit.imports:
                m, a = unit.imports[n]
                return self.resolve_import(m, a, depth + 1)
            return None
        if isinstance(expr, ast.Attribute):
            base = self.resolve(unit, expr.value, depth + 1)
            if base is None:
                return None
            if base[0] == "module":
                return self.resolve_import(base[1], expr.attr, depth + 1)
            if base[0] == "ext":
                return ("ext", base[1] + "." + expr.attr)
            if base[0] == "class":
                return ("classattr", base[1], base[2], expr.attr)
            return None
        return None

    def dotted(self, unit, expr):
        """fully qualified dotted name of a Name/Attribute chain, or None"""
        r = self.resolve(unit, expr)
        if r is None:
            return None
        if r[0] in ("module", "ext"):
            return r[1]
        if r[0] in ("class", "func", "value"):
            return r[1] + "." + r[2]
        if r[0] == "classattr":
            return f"{r[1]}.{r[2]}.{r[3]}"
        return None

    # ------------------------------------------------------------------ classes
    def bases(self, cref):
        u = self.unit(cref[0])
        c = u.classes.get(cref[1])
        if c is None:
            return []
        out = []
        for b in c.bases:
            r = self.resolve(u, b)
            if r is not None and r[0] == "class":
                out.append((r[1], r[2]))
            else:
                out.append(("?", ast.unparse(b)))
        return out

    def mro(self, cref):
        cref = tuple(cref)
        if cref in self._mro_cache:
            return self._mro_cache[cref]
        if cref[0] == "?" or cref[0] not in self.units or cref[1] not in self.units[cref[0]].classes:
            res = [cref]
        else:
            bs = self.bases(cref)
            seqs = [list(self.mro(b)) for b in bs] + [list(bs)]
            res = [cref]
            while True:
                seqs = [s for s in seqs if s]
                if not seqs:
                    break
                for s in seqs:
                    cand = s[0]
                    if not any(cand in t[1:] for t in seqs):
                        break
                else:
                    raise AnalysisError(f"inconsistent MRO for {cref}")
                res.append(cand)
                for s in seqs:
                    if s[0] == cand:
                        del s[0]
        self._mro_cache[cref] = res
        return res

    def subclasses(self, cref):
        cref = tuple(cref)
        out = []
        for un, u in self.units.items():
            for cn in u.classes:
                c = (un, cn)
                if c != cref and cref in self.mro(c):
                    out.append(c)
        return out

    def class_members(self, cref):
        """own members: name -> node (FunctionDef, or value expr); later definitions win"""
        c = self.units[cref[0]].classes[cref[1]]
        out = {}
        for st in _walk_defs(c):
            if isinstance(st, (ast.FunctionDef, ast.AsyncFunctionDef)):
                out[st.name] = st
            elif isinstance(st, ast.Assign):
                for t in st.targets:
                    if isinstance(t, ast.Name):
                        out[t.id] = st.value
                    elif isinstance(t, (ast.Tuple, ast.List)) and isinstance(st.value, (ast.Tuple, ast.List)):
                        for tt, vv in zip(t.elts, st.value.elts):
                            if isinstance(tt, ast.Name):
                                out[tt.id] = vv
            elif isinstance(st, ast.AnnAssign) and isinstance(st.target, ast.Name):
                if st.value is not None:
                    out[st.target.id] = st.value
        return out

    def lookup(self, cref, attr):
        """MRO attribute lookup -> (owner cref, node) or (None, None)"""
        for k in self.mro(cref):
            if k[0] in self.units and k[1] in self.units[k[0]].classes:
                mem = self.class_members(k)
                name = attr
                if attr.startswith("__") and not attr.endswith("__"):
                    name = attr  # unmangled source form
                if name in mem:
                    return k, mem[name]
        return None, None

    def method(self, cref, name, required=True):
        owner, node = self.lookup(cref, name)
        if node is None or not isinstance(node, (ast.FunctionDef, ast.AsyncFunctionDef)):
            if required:
                raise AnalysisError(f"method vanished: {cref[0]}:{cref[1]}.{name}")
            return None, None
        return owner, node

    def class_const(self, cref, attr, default=UNKNOWN):
        owner, node = self.lookup(cref, attr)
        if node is None:
            return default
        if isinstance(node, (ast.FunctionDef, ast.AsyncFunctionDef)):
            # classproperty returning cls.X -> follow
            if any(_dec_name(d) in ("classproperty", "property", "memoized_property") for d in node.decorator_list):
                rets = [n for n in ast.walk(node) if isinstance(n, ast.Return) and n.value is not None]
                if len(rets) == 1:
                    return self.fold(self.units[owner[0]], rets[0].value, cls=cref)
            return UNKNOWN
        return self.fold(self.units[owner[0]], node, cls=cref, owner=owner)

    # ------------------------------------------------------------------ constant folding
    def fold(self, unit: Unit, expr, env=None, cls=None, owner=None, depth=0):
        from . import fold as _f
        return _f.fold(self, unit, expr, env or {}, cls, owner, depth)


def _dec_name(d):
    if isinstance(d, ast.Call):
        d = d.func
    if isinstance(d, ast.Attribute):
        return d.attr
    if isinstance(d, ast.Name):
        return d.id
    return None


def _walk_defs(node):
    """statements directly in a scope body, descending into if/try/with but not into defs"""
    for st in getattr(node, "body", []):
        yield st
        if isinstance(st, (ast.If, ast.Try, ast.With, ast.For, ast.While)):
            yield from _walk_block(st)


def _walk_block(st):
    for fld in ("body", "orelse", "finalbody"):
        for sub in getattr(st, fld, []):
            yield sub
            if isinstance(sub, (ast.If, ast.Try, ast.With, ast.For, ast.While)):
                yield from _walk_block(sub)
    for h in getattr(st, "handlers", []):
        for sub in h.body:
            yield sub
            if isinstance(sub, (ast.If, ast.Try, ast.With, ast.For, ast.While)):
                yield from _walk_block(sub)


def peel(func):
    """decorator names of a function"""
    return [_dec_name(d) for d in func.decorator_list]


def params(func):
    a = func.args
    return [x.arg for x in a.posonlyargs + a.args + a.kwonlyargs]


def walk_no_nested(node):
    """walk a function body in source (pre-)order without entering nested function/class definitions
    (lambdas and comprehensions are entered)"""
    for ch in ast.iter_child_nodes(node):
        yield ch
        if isinstance(ch, (ast.FunctionDef, ast.AsyncFunctionDef, ast.ClassDef)):
            continue
        yield from walk_no_nested(ch)


def calls_in(node, nested=False):
    it = ast.walk(node) if nested else walk_no_nested(node)
    return [n for n in it if isinstance(n, ast.Call)]


def call_name(call):
    """short textual callee: 'f', 'obj.m', 'a.b.c'"""
    try:
        return ast.unparse(call.func)
    except Exception:
        return None


def src(node):
    return ast.unparse(node)
