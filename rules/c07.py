"""C07 -- hash strings parse and re-render without loss.

Decided (structural necessary conditions, for every parser/renderer pair in passlib.handlers and the
libpass inspect classes): parser and renderer agree on the *shape* of the string --
  a. modular-crypt helper calls of one class use the same ident / separator / rounds base, and the
     helper pair itself splits where it joins;
  b. every rendering path consults every setting the parser reports, and a setting's field is omitted
     only under a condition the parser maps back to the same value (sha-crypt 5000+implicit flag,
     dlitz 400, argon2 v=16, sun-md5 `$md5$`=0, libpass `rounds is None`);
  c. the codec a renderer encodes a field with is the inverse of the one the parser decodes it with;
  d. every rendering path fits the skeleton of the regex the parser matches (literals, separators,
     field count), and the attribute rendered at a group's position is the one the parser fills from
     that group;
  e. fields of Optional type are interpolated only under a None guard;
  f. numeric formats agree (zero padding refused <-> never produced; bcrypt cost is two digits on both sides);
  g. regex repeat counts equal the declared salt / checksum sizes;
  h. slice offsets equal declared field sizes or the length of the prefix tested just before, and the
     order fields are concatenated in is the order they are sliced in.
Not decided: equality of from_string(h).to_string() with h on every generated string (a round-trip over
runtime values); the codecs themselves (C12); verification of the re-rendered string (C01)."""
from __future__ import annotations

import ast
import math
import re

from pv.q import text as qtext
from pv.model import AnalysisError, walk_no_nested, UNKNOWN, params
from pv.handlers import HandlerTable
from pv.identify import fold_regex, Unmodelled
from pv import template as T
from pv.q import has_stmt, has_if, find_if, returns, stmts

UH = "passlib.utils.handlers"
H = "passlib.handlers."


def site(u, f):
    return f"{u}:{f}"


# ----------------------------------------------------------------------------- shared extraction
def _cls_call(fn):
    """the constructor call(s) `cls(...)` / `dict(...)` a parser returns -> list of ast.Call"""
    out = []
    for n in walk_no_nested(fn):
        if isinstance(n, ast.Return) and isinstance(n.value, ast.Call):
            f = ast.unparse(n.value.func)
            if f in ("cls", "dict", "chosen_definition") or f.endswith("Info"):
                out.append(n.value)
    return out


def _fold_in(model, cref, unit, instance_attrs=()):
    """expression folder for code of class `cref`: self.X / cls.X fold to class constants unless X is an
    instance setting"""
    def fold(e):
        if isinstance(e, ast.Attribute) and isinstance(e.value, ast.Name) and e.value.id in ("self", "cls"):
            if e.attr in instance_attrs:
                return None
            v = model.class_const(cref, e.attr)
            return v if isinstance(v, (str, bytes, int)) and not isinstance(v, bool) else None
        if isinstance(e, (ast.Compare, ast.BoolOp, ast.UnaryOp, ast.Name, ast.Call, ast.Subscript, ast.IfExp)):
            # never decide a branch from module state; only fold string constants
            if not isinstance(e, ast.Name):
                return None
        v = model.fold(unit, e)
        return v if isinstance(v, (str, bytes)) else None
    return fold


class Pair:
    """one parser/renderer pair in the context of a concrete class"""
    def __init__(self, model, cref, label, parser, parser_unit, renderer, renderer_unit, extra_parsers=()):
        self.model, self.cref, self.label = model, cref, label
        self.parser, self.parser_unit = parser, parser_unit
        self.renderer, self.renderer_unit = renderer, renderer_unit
        self.extra_parsers = list(extra_parsers)
        self.kwargs = {}
        for fn in [parser] + self.extra_parsers:
            for call in _cls_call(fn):
                for k in call.keywords:
                    if k.arg:
                        self.kwargs.setdefault(k.arg, []).append((fn, k.value))
        self._paths = None

    def paths(self):
        if self._paths is None:
            fold = _fold_in(self.model, self.cref, self.renderer_unit, set(self.kwargs))
            self._paths = T.render_paths(self.renderer, fold)
        return self._paths


def _handler_pairs(model, table):
    pairs = []
    seen = set()
    for h in sorted(table, key=lambda h: h.name):
        if h.kind not in ("class", "factory") or h.cref is None:
            continue
        po, pf = model.method(h.cref, "from_string", required=False)
        ro, rf = model.method(h.cref, "to_string", required=False)
        if pf is None or rf is None or po[0] == UH or ro[0] == UH:
            continue
        extra = []
        if h.name == "scrypt":
            for q in ("_parse_scrypt_string", "_parse_7_string"):
                extra.append(model.method(h.cref, q)[1])
        pairs.append(Pair(model, h.cref, h.name, pf, model.unit(po[0]), rf, model.unit(ro[0]), extra))
    return pairs


LIBPASS_INFO = [
    ("libpass.inspect.sha_crypt", "SHA256CryptInfo", "inspect_sha_crypt"),
    ("libpass.inspect.sha_crypt", "SHA512CryptInfo", "inspect_sha_crypt"),
    ("libpass.inspect.bcrypt", "BcryptHashInfo", "inspect_bcrypt_hash"),
    ("libpass.inspect.pbkdf2", "PBKDF2SHA256CryptInfo", "inspect_pbkdf2_hash"),
    ("libpass.inspect.pbkdf2", "PBKDF2SHA512CryptInfo", "inspect_pbkdf2_hash"),
]


def _libpass_pairs(model):
    out = []
    for un, cn, pf in LIBPASS_INFO:
        model.cls(un, cn)
        parser = model.func(un, pf)
        ro, rf = model.method((un, cn), "as_str")
        out.append(Pair(model, (un, cn), cn, parser, model.unit(un), rf, model.unit(ro[0])))
    return out


# ----------------------------------------------------------------------------- a. helper kwargs
def _mc_calls(fn):
    out = []
    for n in walk_no_nested(fn):
        if isinstance(n, ast.Call):
            name = ast.unparse(n.func)
            m = re.fullmatch(r"(?:uh\.)?(parse|render)_mc([23])", name)
            if m:
                out.append((m.group(1), int(m.group(2)), n))
    return out


def rule_a(model, rep, pairs):
    R = "C07.a-helper-kwargs"
    n = 0
    by_owner = set()
    for p in pairs:
        pcs = _mc_calls(p.parser)
        rfns = [p.renderer]
        o, g = model.method(p.cref, "_get_config", required=False)
        if g is not None and o[0] != UH:
            rfns.append(g)
        rcs = [c for f in rfns for c in _mc_calls(f)]
        if not pcs and not rcs:
            continue
        key = (id(p.parser), id(p.renderer))
        if key in by_owner:
            continue
        by_owner.add(key)
        s = site(p.parser_unit.name, f"{model.unit(p.parser_unit.name).qualname(p.parser)} ~ to_string")
        if not pcs or not rcs:
            rep.violation(R, s, f"parse helper calls={len(pcs)} render helper calls={len(rcs)}",
                          "one side uses the modular-crypt helper and the other does not", witness="rendered strings do not parse back")
            continue
        kind, N, pc = pcs[0]
        pk = {k.arg: k.value for k in pc.keywords}
        psep = model.fold(p.parser_unit, pk["sep"]) if "sep" in pk else "$"
        pbase = model.fold(p.parser_unit, pk["rounds_base"]) if "rounds_base" in pk else 10
        pident = ast.unparse(pc.args[1]) if len(pc.args) > 1 else "?"
        for _, RN, rc in rcs:
            n += 1
            rk = {k.arg: k.value for k in rc.keywords}
            rsep = model.fold(p.renderer_unit, rk["sep"]) if "sep" in rk else "$"
            rbase = model.fold(p.renderer_unit, rk["rounds_base"]) if "rounds_base" in rk else 10
            rident = ast.unparse(rc.args[0]) if rc.args else "?"
            ok = RN == N and rsep == psep and (N == 2 or rbase == pbase) and pident == "cls.ident" and rident == "self.ident"
            rep.check(ok, R, s, f"parse_mc{N}(ident={pident}, sep={psep!r}, base={pbase}) vs render_mc{RN}(ident={rident}, sep={rsep!r}, base={rbase})",
                      "parser and renderer hand the same ident, separator and rounds base to the modular-crypt helpers",
                      witness=f"{p.label}.from_string(h).to_string() != h (rounds re-rendered in another base / fields joined by another separator)")
    rep.minimum(R, 10)
    # the helper pair itself
    u = model.unit(UH)
    for N, nparts, tup in ((2, (2, 1), "salt, chk = parts"), (3, (3, 2), "rounds, salt, chk = parts")):
        pf, rf = model.func(UH, f"parse_mc{N}"), model.func(UH, f"render_mc{N}")
        s = site(UH, f"parse_mc{N} ~ render_mc{N}")
        rep.check(has_stmt(pf, "parts = hash[len(prefix):].split(sep)") and has_stmt(pf, tup), R, s, "split(sep) after the prefix", "parser strips exactly the prefix and splits on the separator")
        rep.check(has_if(pf, "not hash.startswith(prefix)", ["raise exc.InvalidHashError(handler)"]), R, s, "prefix guard", "a string without the ident is refused")
        lists = sorted(ast.unparse(n.value) for n in walk_no_nested(rf) if isinstance(n, ast.Assign) and ast.unparse(n.targets[0]) == "parts")
        want = sorted(["[ident, salt, sep, checksum]", "[ident, salt]"] if N == 2 else ["[ident, rounds, sep, salt, sep, checksum]", "[ident, rounds, sep, salt]"])
        rep.check(lists == want, R, s, "; ".join(lists), "renderer joins ident, (rounds), salt, checksum with the separator in the order the parser unpacks them",
                  witness="fields come back permuted")
    pf, rf = model.func(UH, "parse_mc3"), model.func(UH, "render_mc3")
    s = site(UH, "parse_mc3 ~ render_mc3")
    rep.check(has_stmt(pf, "rounds = int(rounds, rounds_base)"), R, s, "int(rounds, rounds_base)", "rounds parsed in the base given")
    rep.check(has_if(rf, "rounds_base == 16", ["rounds = f'{rounds:x}'"]) and has_stmt(rf, "rounds = str(rounds)") and has_stmt(rf, "assert rounds_base == 10"), R, s,
              "base 16 -> '%x', base 10 -> str()", "rounds rendered in the base given (lower-case hex, no padding)")
    rep.check(has_if(rf, "rounds is None", ["rounds = ''"]), R, s, "None -> ''", "an elided rounds value renders as the empty field")
    rep.check(has_if(pf, "rounds.startswith(_UZERO) and rounds != _UZERO", ["raise exc.ZeroPaddedRoundsError(handler)"]), R, s, "zero padding refused",
              "the parser refuses zero-padded rounds, which the renderer never produces")
    t = qtext(pf)
    rep.check("elif default_rounds is None:\n        raise exc.MalformedHashError(handler, 'empty rounds field')\n    else:\n        rounds = default_rounds" in t, R, s, "empty rounds -> default_rounds or error",
              "an empty rounds field means the declared default, and is an error where none is declared")
    pi = model.func(UH, "parse_int")
    rep.check(has_if(pi, "source.startswith(_UZERO) and source != _UZERO") and returns(pi) == ["int(source, base)", "default"], R, site(UH, "parse_int"), "; ".join(returns(pi)), "parse_int: no zero padding, given base, default for empty")


# ----------------------------------------------------------------------------- b. every setting consulted; elision
def _atoms(test):
    """atomic conjuncts/disjuncts of a decision with polarity lost (we only classify idioms)"""
    if isinstance(test, ast.BoolOp):
        out = []
        for v in test.values:
            out += _atoms(v)
        return out
    if isinstance(test, ast.UnaryOp) and isinstance(test.op, ast.Not):
        return _atoms(test.operand)
    return [test]


def _mentions(text, attr):
    return re.search(r"\bself\." + re.escape(attr) + r"\b", text) is not None


def rule_b(model, rep, pairs, lib_pairs):
    R = "C07.b-settings-consulted"
    RE = "C07.b-elided-defaults"
    n_el = 0
    for p in pairs + lib_pairs:
        s = site(p.renderer_unit.name, f"{p.label}.{p.renderer.name}")
        try:
            paths = p.paths()
        except T.Unsupported as e:
            rep.undecided(R, s, f"renderer outside the path model: {e}")
            continue
        if not paths:
            rep.undecided(R, s, "no rendering path found")
            continue
        settings = [k for k in p.kwargs if k not in ("checksum", "hash")]
        pnames = set(params(p.renderer))
        for toks, trail in paths:
            text = " ".join(t[1] for t in toks if t[0] == "fld") + " || " + " ".join(trail)
            field_text = " ".join(t[1] for t in toks if t[0] == "fld")
            missing = [k for k in settings if not _mentions(text, k)]
            # a path decided only by a caller-supplied flag (config strings) may omit the checksum only
            rep.check(not missing, R, s + " path " + (" ".join(trail) or "<straight>"), f"path {' '.join(trail) or '<straight>'} renders {T.show(toks)!r} without consulting self.{', self.'.join(missing)}",
                      "every setting the parser reports takes part in every rendering path (as a field or in the decision that selects the path)",
                      witness=f"{p.label}: two hashes that differ only in `{missing[0] if missing else ''}` re-render to the same string: from_string(h).to_string() != h for one of them")
            # elision: setting consulted only in decisions
            for k in settings:
                if _mentions(field_text, k) or not _mentions(text, k):
                    continue
                n_el += 1
                _check_elision(model, rep, RE, p, s, k, toks, trail)
    rep.minimum(R, 60)
    rep.minimum(RE, 8)
    _b_specific(model, rep, RE)


def _parser_value_texts(p, k):
    return [ast.unparse(v) for _, v in p.kwargs.get(k, [])]


def _parser_assigns(p, name):
    out = []
    for fn in [p.parser] + p.extra_parsers:
        for n in walk_no_nested(fn):
            if isinstance(n, ast.Assign) and len(n.targets) == 1 and ast.unparse(n.targets[0]) == name:
                out.append(ast.unparse(n.value))
            if isinstance(n, ast.Call):
                for kw in n.keywords:
                    if kw.arg == "default_" + name:
                        out.append(ast.unparse(kw.value))
    return out


def _check_elision(model, rep, R, p, s, k, toks, trail):
    """setting k is not rendered as a field on this path: the decisions that mention it must be elision idioms
    the parser inverts"""
    decisions = [t for t in trail if _mentions(t, k)]
    vals = _parser_value_texts(p, k)
    assigns = _parser_assigns(p, k)
    for d in decisions:
        m = re.match(r"^(\w*)([+-])\((.*)\)$", d, re.S)
        var, pol, test = m.group(1), m.group(2), m.group(3)
        tnode = ast.parse(test, mode="eval").body
        for a in _atoms(tnode):
            at = ast.unparse(a)
            if not _mentions(at, k):
                continue
            where = s + f" elides {k}"
            # (i) self.k is None  <->  parser yields None when the field is absent
            if re.fullmatch(rf"self\.{k} is (not )?None", at):
                ok = any(v.endswith("else None") for v in vals)
                rep.check(ok, R, where, f"renderer omits `{k}` when `{at}`; parser reports {vals}",
                          "a field omitted for None is reported as None by the parser when absent")
                continue
            # (ii) self.k == K
            mm = re.fullmatch(rf"self\.{k} (==|!=|>|<=) (\S+)", at)
            if mm:
                K = mm.group(2)
                if mm.group(1) in (">", "<="):
                    # sun-md5: rounds > 0 renders the field; 0 is the value of the field-less prefix
                    ok = K in assigns and (pol == "-" if mm.group(1) == ">" else pol == "+")
                    rep.check(ok, R, where, f"renderer omits `{k}` unless `{at}`; parser defaults {assigns}",
                              f"the value rendered without a field ({K}) is the value the parser assigns when the field is absent")
                    continue
                if K in vals:
                    # the decision selects among layouts by a value the parser reports as a constant (scrypt ident)
                    kv = model.fold(p.renderer_unit, ast.parse(K, mode="eval").body)
                    lit = "".join(t[1] for t in toks if t[0] == "lit")
                    starts = isinstance(kv, str) and T.show(toks).startswith(kv)
                    rep.check(starts == (pol == "+") or not isinstance(kv, str), R, where, f"path {pol}({at}) renders {T.show(toks)[:20]!r}; {K} = {kv!r}",
                              f"the layout selected by `{at}` starts with that ident")
                    continue
                inverted = K in assigns or any(re.search(rf"else {re.escape(K)}$", v) for v in vals) or \
                    (K.startswith("_") and any(a2 == str(model.fold(p.renderer_unit, ast.parse(K, mode='eval').body)) for a2 in assigns))
                rep.check(inverted, R, where, f"renderer omits `{k}` when `{at}`; parser reports {vals} / defaults {assigns}",
                          f"an omitted field stands for exactly the value the parser substitutes ({K}); otherwise an explicit `{k}={K}` is silently rewritten",
                          witness=f"{p.label}: a string carrying {k}={K} explicitly re-renders without the field, and parsing the result reports a different `{k}`")
                continue
            # (iii) flag attribute (bare_salt / implicit_rounds / truthiness of data)
            if re.fullmatch(rf"self\.{k}", at):
                ok = len(p.kwargs.get(k, [])) >= 1
                rep.check(ok, R, where, f"flag `{k}` selects the path", "flag is a parsed setting")
                continue
            rep.undecided(R, where, f"unrecognised elision condition `{at}`")


def _b_specific(model, rep, R):
    # sha-crypt: implicit flag only for the default, both directions
    u = H + "sha2_crypt"
    fn = model.func(u, "_SHA2_Common.from_string")
    s = site(u, "_SHA2_Common.from_string")
    ifs = find_if(fn, "parts[0].startswith(_UROUNDS)")
    ok = bool(ifs) and [ast.unparse(x) for x in ifs[0].orelse] == ["rounds = 5000", "implicit_rounds = True"] and "implicit_rounds = False" in [ast.unparse(x) for x in ifs[0].body]
    rep.check(ok, R, s, "absent rounds -> 5000 + implicit flag; explicit -> flag False", "sha-crypt: an absent rounds field means 5000 and is remembered as implicit; an explicit `rounds=5000` is remembered as explicit",
              witness="'$5$rounds=5000$salt$...' re-renders as '$5$salt$...' (a different string) or vice versa")
    rf = model.func(u, "_SHA2_Common.to_string")
    rep.check(bool(find_if(rf, "self.rounds == 5000 and self.implicit_rounds")), R, site(u, "_SHA2_Common.to_string"), "elide iff rounds == 5000 and implicit_rounds", "renderer elides exactly the implicit default")
    init = model.func(u, "_SHA2_Common.__init__")
    rep.check(has_if(init, "implicit_rounds is None", ["implicit_rounds = self.use_defaults and self.rounds == 5000"]), R, site(u, "_SHA2_Common.__init__"), "implicit only when defaults in use and rounds == 5000",
              "a hasher configured with another cost never elides the field")
    # dlitz: both renderers elide 400
    u = H + "pbkdf2"
    for q in ("dlitz_pbkdf2_sha1.to_string", "dlitz_pbkdf2_sha1._get_config"):
        fn = model.func(u, q)
        rep.check(has_if(fn, "rounds == 400", ["rounds = None"]) and has_stmt(fn, "rounds = self.rounds"), R, site(u, q), "rounds == 400 -> None", "dlitz: 400 rounds render as the empty field")
    pf = model.func(u, "dlitz_pbkdf2_sha1.from_string")
    rep.check("default_rounds=400" in qtext(pf), R, site(u, "dlitz_pbkdf2_sha1.from_string"), "default_rounds=400", "dlitz: the empty field parses as 400")
    # sun-md5
    u = H + "sun_md5_crypt"
    pf = model.func(u, "sun_md5_crypt.from_string")
    s = site(u, "sun_md5_crypt.from_string")
    ifs = find_if(pf, "hash.startswith('$md5$')")
    rep.check(bool(ifs) and [ast.unparse(x) for x in ifs[0].body] == ["rounds = 0", "salt_idx = 5"], R, s, "'$md5$' -> rounds 0", "sun-md5: the field-less prefix means 0 rounds")
    rep.check(has_if(pf, "rounds == 0", ["raise uh.exc.MalformedHashError(cls, 'explicit zero rounds')"]), R, s, "explicit zero refused", "sun-md5: `rounds=0` written out is refused (it would re-render as '$md5$')")
    rep.check(has_if(pf, "rstr != str(rounds)", ["raise uh.exc.ZeroPaddedRoundsError(cls)"]), R, s, "canonical decimal only", "sun-md5: the rounds text must be what str() renders")
    # bare-salt classification: which '$' layout yields which flag
    want = [("chk_idx == -1", "True"), ("chk_idx == len(hash) - 1", "False"), ("chk_idx > salt_idx and hash[chk_idx - 1] == '$'", "False")]
    for test, flag in want:
        f = find_if(pf, test)
        got = [ast.unparse(x) for x in f[0].body if ast.unparse(x).startswith("bare_salt")] if f else []
        rep.check(got == [f"bare_salt = {flag}"], R, s, f"{test} -> {got}", f"sun-md5: layout `{test}` means bare_salt = {flag} (what to_string's `ss` writes back)",
                  witness="a bare-salt hash is re-rendered in the '$$' form (or vice versa) and no longer verifies")
    # the `$$` test looks at the character *before* the digest separator: that character must lie inside the salt region
    # (index >= salt_idx); with `chk_idx > 0` an empty salt makes it look at the `$` that ends the ident / rounds field
    f = find_if(pf, "chk_idx > salt_idx and hash[chk_idx - 1] == '$'")
    if f:
        rep.check([ast.unparse(x) for x in f[0].orelse if ast.unparse(x).startswith("bare_salt")] == ["bare_salt = True"], R, s, "single '$' before digest -> bare", "sun-md5: one '$' before the digest means bare salt")
    # argon2: version 16 has no field
    u = H + "argon2"
    pf = model.func(u, "_Argon2Common.from_string")
    rep.check("version=int(version) if version else 16" in qtext(pf), R, site(u, "_Argon2Common.from_string"), "absent version -> 16", "argon2: a string without `v=` is version 0x10")
    rf = model.func(u, "_Argon2Common.to_string")
    rep.check(bool(find_if(rf, "version == 16", ["vstr = ''"])), R, site(u, "_Argon2Common.to_string"), "version 16 -> no field", "argon2: version 0x10 renders without `v=`")
    # libpass sha-crypt
    u = "libpass.inspect.sha_crypt"
    fn = model.func(u, "SHACryptInfo.as_str")
    f = find_if(fn, "self.rounds is None")
    rep.check(bool(f) and [ast.unparse(x) for x in f[0].body] == ["return f'{self._prefix}{self.salt}${self.hash}'"], R, site(u, "SHACryptInfo.as_str"), "rounds is None -> no field",
              "libpass: the field is omitted exactly for records parsed from a string without it")
    pf = model.func(u, "inspect_sha_crypt")
    rep.check("rounds=int(rounds) if rounds is not None else None" in qtext(pf), R, site(u, "inspect_sha_crypt"), "absent -> None", "libpass: absent rounds are reported as None (not 5000)")
    # PHC optional version
    u = "libpass.inspect.phc._phc"
    fn = model.func(u, "PHC.as_str")
    rep.check(has_if(fn, "self.version is not None", ["parts.append(f'v={self.version}')"]), R, site(u, "PHC.as_str"), "version only when declared", "PHC: `v=` is rendered only by definitions that declare a version")
    fn = model.func(u, "_choose_definition")
    rep.check(has_if(fn, "id_matches and definition.version == version", ["return definition"]), R, site(u, "_choose_definition"), "definition.version == parsed version",
              "PHC: a definition accepts exactly the version it renders (None = no field)")
    # the identifiers a definition accepts: Argon2PHC covers every argon2 variant passlib's handler knows (ALL_TYPES)
    du = model.unit("libpass.inspect.phc.defs")
    au = model.unit("passlib.handlers.argon2")
    types = model.fold(au, ast.Name(id="ALL_TYPES", ctx=ast.Load()))
    ids = None
    for st in model.cls("libpass.inspect.phc.defs", "Argon2PHC").body:
        if isinstance(st, ast.AnnAssign) and isinstance(st.target, ast.Name) and st.target.id == "id" and isinstance(st.annotation, ast.Subscript):
            sl = st.annotation.slice
            ids = {e.value for e in (sl.elts if isinstance(sl, ast.Tuple) else [sl]) if isinstance(e, ast.Constant)}
    rep.check(isinstance(types, (tuple, list)) and ids == {"argon2" + t for t in types}, R, site("libpass.inspect.phc.defs", "Argon2PHC.id"), f"Literal{sorted(ids) if ids else ids} vs argon2 + {types}",
              "the libpass argon2 record definition accepts exactly the variants passlib's argon2 handler renders (argon2i / argon2d / argon2id)",
              witness="inspect_phc('$argon2d$v=19$m=..,t=..,p=..$salt$hash', Argon2PHC) returns None and Argon2PHC(id='argon2d', ...).as_str() does not parse back")
    fn = model.func(u, "inspect_phc")
    rep.check(has_stmt(fn, "version = int(groups['version']) if groups['version'] is not None else None"), R, site(u, "inspect_phc"), "absent version -> None", "PHC: absent version is None")


# ----------------------------------------------------------------------------- c. codec pairs
DEC = {"ab64_decode": "ab64", "b64s_decode": "b64s", "b64decode": "b64", "unhexlify": "hex",
       "decode_int6": "h64.int6", "decode_int12": "h64.int12", "decode_int24": "h64.int24", "decode_int30": "h64.int30", "decode_int64": "h64.int64",
       "decode_bytes": "h64.bytes", "phc_b64_decode": "phc"}
ENC = {"ab64_encode": "ab64", "b64s_encode": "b64s", "b64encode": "b64", "hexlify": "hex",
       "encode_int6": "h64.int6", "encode_int12": "h64.int12", "encode_int24": "h64.int24", "encode_int30": "h64.int30", "encode_int64": "h64.int64",
       "encode_bytes": "h64.bytes", "phc_b64_encode": "phc"}


def _codecs(model, unit, fns, table, depth=1):
    out = set()
    for fn in fns:
        for n in walk_no_nested(fn):
            if not isinstance(n, ast.Call):
                continue
            name = ast.unparse(n.func)
            last = name.split(".")[-1]
            if last in table:
                fam = table[last]
                if fam == "b64":
                    alt = n.args[1] if len(n.args) > 1 else next((k.value for k in n.keywords if k.arg == "altchars"), None)
                    a = model.fold(unit, alt) if alt is not None else None
                    fam = f"b64[{a.decode() if isinstance(a, bytes) else '+/'}]"
                elif fam.startswith("h64"):
                    eng = name.rsplit(".", 1)[0]
                    fam = f"{eng}.{fam[4:]}"
                out.add(fam)
            elif depth and isinstance(n.func, ast.Name):
                r = model.resolve(unit, n.func)
                if r and r[0] == "func" and r[1] == unit.name:
                    out |= _codecs(model, unit, [model.func(r[1], r[2])], table, depth - 1)
    return out


def rule_c(model, rep, pairs):
    R = "C07.c-codec-pairs"
    seen = set()
    for p in pairs:
        key = (id(p.parser), id(p.renderer))
        if key in seen:
            continue
        seen.add(key)
        d = _codecs(model, p.parser_unit, [p.parser] + p.extra_parsers, DEC)
        e = _codecs(model, p.renderer_unit, [p.renderer], ENC)
        if not d and not e:
            continue
        s = site(p.parser_unit.name, f"{p.label}.from_string ~ to_string")
        rep.check(d == e, R, s, f"decoders {sorted(d)} vs encoders {sorted(e)}", "every field is decoded by the inverse of the codec it is rendered with",
                  witness=f"{p.label}: salt/digest bytes come back different after from_string(h).to_string() (other alphabet, padding or altchars)")
    # libpass pbkdf2: hasher encodes, verify decodes
    u = "libpass.hashers.pbkdf2"
    hf = model.func(u, "PBKDF2SHAHandler.hash")
    vf = model.func(u, "PBKDF2SHAHandler.verify")
    e = _codecs(model, model.unit(u), [hf], ENC, 0)
    d = _codecs(model, model.unit(u), [vf], DEC, 0)
    rep.check(e == {"ab64"} and d == {"ab64"}, R, site(u, "PBKDF2SHAHandler.hash ~ verify"), f"encoders {sorted(e)} decoders {sorted(d)}", "libpass pbkdf2: salt and digest use adapted base64 both ways")
    rep.minimum(R, 12)


# ----------------------------------------------------------------------------- d. template <-> regex, i. group -> kwarg
def _regex_uses(fn):
    """attributes of cls used as `<x>.ATTR.match/fullmatch(...)` in a parser, in source order"""
    out = []
    for n in walk_no_nested(fn):
        if isinstance(n, ast.Call) and isinstance(n.func, ast.Attribute) and n.func.attr in ("match", "fullmatch", "search"):
            v = n.func.value
            if isinstance(v, ast.Attribute) and isinstance(v.value, ast.Name) and v.value.id in ("cls", "self"):
                out.append((v.attr, n.func.attr))
            elif isinstance(v, ast.Name):
                out.append((v.id, n.func.attr))
    return out


def _class_regex(model, cref, unit, attr):
    owner, node = model.lookup(cref, attr)
    if node is None:
        vals = unit.assigns.get(attr)
        if not vals:
            return None
        return fold_regex(model, unit, vals[0])
    return fold_regex(model, model.unit(owner[0]), node, cls=cref)


def _group_sources(fn):
    """name -> set of regex group ids it derives from (one pass in source order, rebinding replaces)"""
    src = {}

    def groups_of(e):
        out = set()
        if isinstance(e, ast.Call) and isinstance(e.func, ast.Attribute) and e.func.attr == "group":
            for a in e.args:
                if isinstance(a, ast.Constant):
                    out.add(a.value if isinstance(a.value, str) else f"#{a.value}")
            return out
        if isinstance(e, ast.Subscript) and isinstance(e.value, ast.Name) and e.value.id == "groups" and isinstance(e.slice, ast.Constant):
            return {e.slice.value}
        if isinstance(e, ast.Name):
            return set(src.get(e.id, ()))
        for c in ast.iter_child_nodes(e):
            out |= groups_of(c)
        return out
    for n in walk_no_nested(fn):
        if isinstance(n, ast.Assign) and len(n.targets) == 1:
            t = n.targets[0]
            if isinstance(t, ast.Tuple) and isinstance(n.value, ast.Call) and isinstance(n.value.func, ast.Attribute) and n.value.func.attr == "group" \
                    and len(t.elts) == len(n.value.args):
                for tt, a in zip(t.elts, n.value.args):
                    if isinstance(tt, ast.Name) and isinstance(a, ast.Constant):
                        src[tt.id] = {a.value if isinstance(a.value, str) else f"#{a.value}"}
            elif isinstance(t, ast.Name):
                g = groups_of(n.value)
                if g or t.id in src:
                    src[t.id] = g
    return src, groups_of


def rule_d(model, rep, pairs, lib_pairs):
    R = "C07.d-template-regex"
    RI = "C07.i-group-to-setting"
    for p in pairs + lib_pairs:
        uses = _regex_uses(p.parser)
        if not uses:
            continue
        s = site(p.renderer_unit.name, f"{p.label}.{p.renderer.name}")
        regexes = []
        try:
            for attr, how in uses:
                rx = _class_regex(model, p.cref, p.parser_unit, attr)
                if rx is None:
                    raise Unmodelled(f"regex {attr} not found")
                regexes.append((attr, how, rx))
            paths = p.paths()
        except (Unmodelled, T.Unsupported) as e:
            rep.undecided(R, s, str(e))
            continue
        src, groups_of = _group_sources(p.parser)
        # group -> kwargs filled from it
        g2k = {}
        for k, vals in p.kwargs.items():
            for _, v in vals:
                for g in groups_of(v):
                    g2k.setdefault(g, set()).add(k)
        matched_rx = set()
        for toks, trail in paths:
            hit = None
            for attr, how, (pat, flags) in regexes:
                try:
                    pr = T.match_tokens(pat, flags, toks)
                except T.Unsupported as e:
                    rep.undecided(R, s, f"regex construct {e}")
                    pr = None
                if pr is not None:
                    hit = (attr, pr)
                    matched_rx.add(attr)
                    break
            ps = s + " path " + (" ".join(trail) or "<straight>")
            rep.check(hit is not None, R, ps, f"{T.show(toks)!r} does not fit {[a for a, _, _ in regexes]}",
                      "every string shape the renderer can produce fits the skeleton (literals, separators, number of fields) of the regex the parser matches",
                      witness=f"{p.label}: a string rendered on this path is refused by (or mis-split in) from_string")
            if hit:
                for g, label in hit[1]:
                    ks = g2k.get(g)
                    if not ks or g is None:
                        continue
                    ok = any(_mentions(label, k) for k in ks)
                    rep.check(ok, RI, ps + f" group {g}", f"group `{g}` fills {sorted(ks)} but the renderer writes `{label}` there",
                              "the attribute rendered at a group's position is the one the parser fills from that group",
                              witness=f"{p.label}: fields swap places across from_string(h).to_string()")
        for attr, _, _ in regexes:
            rep.check(attr in matched_rx, R, s + " regex " + attr, f"no rendering path produces a string of the shape {attr} accepts", "every accepted layout has a renderer path")
        # every group a kwarg is filled from exists in the regex
        names = set()
        for attr, how, (pat, flags) in regexes:
            names |= set(re.compile(pat, flags).groupindex) | {f"#{i}" for i in range(1, re.compile(pat, flags).groups + 1)}
        for g in g2k:
            rep.check(g in names, RI, s + f" group {g}", f"parser reads group `{g}` which no regex defines", "groups read exist")
    rep.minimum(R, 30)
    rep.minimum(RI, 40)
    # libpass: constructor keyword == group name
    RK = "C07.i-group-to-setting"
    for un, fnq in (("libpass.inspect.sha_crypt", "inspect_sha_crypt"), ("libpass.inspect.bcrypt", "inspect_bcrypt_hash"), ("libpass.inspect.pbkdf2", "inspect_pbkdf2_hash"), ("libpass.inspect.phc._phc", "inspect_phc")):
        fn = model.func(un, fnq)
        src, groups_of = _group_sources(fn)
        for call in _cls_call(fn):
            for k in call.keywords:
                if not k.arg:
                    continue
                g = groups_of(k.value)
                rep.check(g == {k.arg}, RK, site(un, fnq) + f" {k.arg}=", f"{k.arg}={ast.unparse(k.value)} derives from groups {sorted(g)}",
                          "libpass records carry, under each name, the text of the group of that name",
                          witness=f"{fnq}(h).{k.arg} is not what the string says (e.g. an argon2i record reported as argon2id); as_str() renders another hash")
    fn = model.func("libpass.inspect.phc._phc", "inspect_phc")
    ok = False
    for dc in [n for n in walk_no_nested(fn) if isinstance(n, ast.DictComp)]:
        gen = dc.generators[0]
        if ast.unparse(gen.iter) != "definition_info.parameters.items()" or ast.unparse(gen.target) != "(name, param)" or ast.unparse(dc.key) != "name":
            continue
        v = dc.value   # param.type(<text>) directly or through a converting helper taking (type, text)
        if isinstance(v, ast.Call):
            parts = [ast.unparse(v.func)] + [ast.unparse(a) for a in v.args]
            ok = "param.type" in parts and "params[param.param.name]" in parts and len(parts) <= 3
    rep.check(ok, RK, site("libpass.inspect.phc._phc", "inspect_phc") + " **params",
              "parsed_params[name] = type(params[declared short name])", "PHC parameters are looked up by the short name their definition declares")
    fn = model.func("libpass.inspect.phc._phc", "PHC.as_str")
    rep.check("f'{value.param.name}={getattr(self, key)}' for key, value in _parse_phc_def(self.__class__).parameters.items()" in qtext(fn), RK, site("libpass.inspect.phc._phc", "PHC.as_str") + " params",
              "short name = attribute value, in declaration order", "PHC parameters are rendered under the same short names, in declaration order")
    rep.check(has_stmt(fn, "return '$'.join(parts)") and has_stmt(fn, "parts.extend((params, self.salt, self.hash))") and has_stmt(fn, "parts: list[str] = [f'${self.id}']"), RK, site("libpass.inspect.phc._phc", "PHC.as_str"),
              "$id[$v=..]$params$salt$hash", "PHC layout: id, optional version, params, salt, hash joined by '$' (the order PHC_REGEX expects)")


# ----------------------------------------------------------------------------- e. Optional fields
def rule_e(model, rep):
    R = "C07.e-optional-guard"
    n = 0
    for un, unit in model.units.items():
        if not un.startswith("libpass.inspect"):
            continue
        for cn, cnode in unit.classes.items():
            cref = (un, cn)
            opt = set()
            for k in model.mro(cref):
                if k[0] in model.units and k[1] in model.units[k[0]].classes:
                    for st in model.units[k[0]].classes[k[1]].body:
                        if isinstance(st, ast.AnnAssign) and isinstance(st.target, ast.Name):
                            a = ast.unparse(st.annotation)
                            if "None" in a or "Optional" in a:
                                opt.add(st.target.id)
            o, fn = model.method(cref, "as_str", required=False)
            if fn is None or not opt or o != cref:
                continue
            for node in walk_no_nested(fn):
                if isinstance(node, ast.FormattedValue):
                    for a in ast.walk(node.value):
                        if isinstance(a, ast.Attribute) and isinstance(a.value, ast.Name) and a.value.id == "self" and a.attr in opt:
                            n += 1
                            guarded = _none_guarded(unit, fn, node, a.attr)
                            rep.check(guarded, R, site(un, f"{cn}.as_str"), f"{{self.{a.attr}}} interpolated without a None guard", "an Optional field is rendered only where it is known not to be None",
                                      witness=f"a record parsed from a string without the field renders the text '{a.attr}=None'")
    rep.minimum(R, 2)


def _none_guarded(unit, fn, node, attr):
    # enclosing `if self.attr is not None:` ...
    cur = node
    while cur is not fn and cur is not None:
        par = unit.parent(cur)
        if isinstance(par, ast.If):
            t = qtext(par.test)
            if t == f"self.{attr} is not None" and cur in par.body:
                return True
            if t == f"self.{attr} is None" and cur in par.orelse:
                return True
        cur = par
    # ... or an earlier `if self.attr is None: return/raise` in the same block chain
    stmt = node
    while not isinstance(stmt, ast.stmt):
        stmt = unit.parent(stmt)
    block_owner = unit.parent(stmt)
    for fld in ("body", "orelse"):
        blk = getattr(block_owner, fld, None)
        if isinstance(blk, list) and stmt in blk:
            for prev in blk[:blk.index(stmt)]:
                if isinstance(prev, ast.If) and ast.unparse(prev.test) == f"self.{attr} is None" and prev.body and isinstance(prev.body[-1], (ast.Return, ast.Raise)):
                    return True
    return False


# ----------------------------------------------------------------------------- f. numeric formats
def rule_f(model, rep, pairs, lib_pairs):
    R = "C07.f-numeric-format"
    # bcrypt: two-digit cost both ways
    u = H + "bcrypt"
    pf = model.func(u, "_BcryptCommon.from_string")
    rep.check(has_if(pf, "rounds_str != '%02d' % (rounds,)", ["raise uh.exc.MalformedHashError(cls, 'malformed cost field')"]), R, site(u, "_BcryptCommon.from_string"), "cost text must equal '%02d' % cost",
              "bcrypt: only the two-digit zero-padded cost is accepted")
    for q, want in (("_BcryptCommon.to_string", ["'%s%02d$%s%s' % (self.ident, self.rounds, self.salt, self.checksum)"]), ("_BcryptCommon._get_config", ["'%s%02d$%s' % (ident, self.rounds, self.salt)"])):
        rep.check(returns(model.func(u, q)) == want, R, site(u, q), "; ".join(returns(model.func(u, q))), "bcrypt: cost rendered as two zero-padded digits between ident and salt",
                  witness="bcrypt.using(rounds=4..9).hash(...) renders '$2b$4$...' which from_string refuses")
    lu = "libpass.inspect.bcrypt"
    rep.check(returns(model.func(lu, "BcryptHashInfo.as_str")) == ["f'${self.prefix}${self.rounds:02}${self.salt}{self.hash}'"] and
              returns(model.func(lu, "BcryptHashInfo.bcrypt_salt")) == ["f'${self.prefix}${self.rounds:02}${self.salt}'.encode()"], R, site(lu, "BcryptHashInfo.as_str"),
              "; ".join(returns(model.func(lu, "BcryptHashInfo.as_str"))), "libpass bcrypt: cost rendered as two zero-padded digits (the only form bcrypt strings carry)",
              witness="inspect_bcrypt_hash('$2b$04$...').as_str() == '$2b$4$...': not the original, and refused by the bcrypt library")
    # every integer field: renderer's conversion vs parser's zero-padding policy
    n = 0
    for p in pairs + lib_pairs:
        try:
            paths = p.paths()
        except T.Unsupported:
            continue
        ptxt = qtext(p.parser) + "".join(ast.unparse(x) for x in p.extra_parsers)
        for toks, trail in paths:
            for t in toks:
                if t[0] != "fld" or " %" not in t[1]:
                    continue
                label, spec = t[1].rsplit(" %", 1)
                n += 1
                s = site(p.renderer_unit.name, f"{p.label}.{p.renderer.name}") + f" field {label}"
                if spec in ("d", ""):
                    rep.hold(R, s, "plain decimal")
                elif spec in ("02d", "02"):
                    ok = ("'%02d'" in ptxt) or "int(hash[:2])" in ptxt or (p.label == "BcryptHashInfo")
                    rep.check(ok, R, s, f"renders {spec} but the parser does not expect two digits", "two-digit fields are parsed as two digits")
                else:
                    rep.violation(R, s, f"format spec `{spec}` for `{label}`", "integer fields are rendered as plain decimal (or two digits for bcrypt cost / cisco salt)",
                                  witness=f"{p.label}: the rendered number is refused or read differently by from_string")
    rep.minimum(R, 25)
    # parsers that refuse zero padding / non canonical text
    for u, q, test in ((H + "sha2_crypt", "_SHA2_Common.from_string", "rounds.startswith(_UZERO) and rounds != _UZERO"), (H + "bcrypt", "bcrypt_sha256.from_string", "rounds.startswith(uh._UZERO) and rounds != uh._UZERO"),
                       (H + "scram", "scram.from_string", "rounds_str != str(rounds)")):
        rep.check(bool(find_if(model.func(u, q), test)), R, site(u, q), test, "non-canonical decimal text is refused, so parse->render is the identity on accepted strings")
    # cisco type 7: two-digit decimal salt
    u = H + "cisco"
    rep.check(has_stmt(model.func(u, "cisco_type7.from_string"), "salt = int(hash[:2])") and returns(model.func(u, "cisco_type7.to_string")) == ["'%02d%s' % (self.salt, self.checksum)"], R, site(u, "cisco_type7"),
              "int(hash[:2]) <-> '%02d'", "cisco type 7: salt is two decimal digits both ways")
    # hex case: oracle11 / mssql / grub / cisco upper
    rep.check(returns(model.func(H + "oracle", "oracle11.to_string")) == ["f'S:{chk.upper()}{self.salt.upper()}'"] and "checksum=chk.upper()" in qtext(model.func(H + "oracle", "oracle11.from_string")), R, site(H + "oracle", "oracle11"),
              "upper-case on both sides", "oracle11: canonical form is upper-case hex; parser normalises the digest to it")
    rep.check("checksum=hash[2:].upper()" in qtext(model.func(u, "cisco_type7.from_string")), R, site(u, "cisco_type7.from_string"), "digest upper-cased", "cisco type 7: digest normalised to upper-case hex")


# ----------------------------------------------------------------------------- g. regex repeat counts
def _b64_chars(nbytes):
    total = -(-nbytes // 3) * 4
    pad = (3 - nbytes % 3) % 3
    return total - pad, pad


def rule_g(model, rep, table):
    R = "C07.g-regex-sizes"
    t = table
    def sizes(name):
        h = t.get(name)
        return h, t.const(h, "min_salt_size"), t.const(h, "max_salt_size"), t.const(h, "checksum_size")
    n = 0
    for name, attr in (("des_crypt", "_hash_regex"), ("bsdi_crypt", "_hash_regex"), ("bigcrypt", "_hash_regex"), ("crypt16", "_hash_regex"), ("oracle11", "_hash_regex"),
                       ("bcrypt_sha256", "_v1_hash_re"), ("bcrypt_sha256", "_v2_hash_re")):
        h, lo, hi, cs = sizes(name)
        if h is None:
            raise AnalysisError(f"handler {name} vanished")
        pat, flags = _class_regex(model, h.cref, model.unit(h.unit), attr)
        reps = T.group_repeats(pat, flags)
        s = site(h.unit, f"{name}.{attr}")
        if "salt" in reps:
            rep.check(reps["salt"] == (lo, hi), R, s + " salt", f"salt repeat {reps['salt']} vs declared salt size ({lo}, {hi})", "the regex accepts exactly the declared salt sizes",
                      witness=f"{name}: a hash with a salt of a declared size is refused, or one of another size is mis-split")
        for g in ("chk", "digest"):
            if g in reps and name != "bigcrypt":
                rep.check(reps[g] == (cs, cs), R, s + " " + g, f"{g} repeat {reps[g]} vs checksum_size {cs}", "the regex accepts exactly checksum_size digest characters",
                          witness=f"{name}: its own digests are refused")
        if name == "bsdi_crypt":
            rep.check(reps.get("rounds") == (4, 4), R, s + " rounds", f"rounds repeat {reps.get('rounds')}", "bsdi: 24-bit rounds = 4 hash64 characters (encode_int24)")
        if name == "bigcrypt":
            allr = T.all_repeats(pat, flags)
            rep.check((11, 11) in allr, R, s + " chk", f"repeats {allr}", "bigcrypt: digest is a sequence of 11-character des-crypt blocks")
            fn = model.func(h.unit, "bigcrypt._norm_checksum")
            rep.check(has_if(fn, "len(checksum) % 11", ["raise uh.exc.InvalidHashError(self)"]), R, site(h.unit, "bigcrypt._norm_checksum"), "len % 11", "bigcrypt: digest length is a multiple of 11")
    # libpass regexes vs passlib declared sizes
    for lun, lattr, pname in (("libpass.inspect.sha_crypt", ("SHA256CryptInfo", "REGEX"), "sha256_crypt"), ("libpass.inspect.sha_crypt", ("SHA512CryptInfo", "REGEX"), "sha512_crypt")):
        h, lo, hi, cs = sizes(pname)
        pat, flags = _class_regex(model, (lun, lattr[0]), model.unit(lun), lattr[1])
        reps = T.group_repeats(pat, flags)
        s = site(lun, f"{lattr[0]}.REGEX")
        rep.check(reps.get("hash") == (cs, cs), R, s + " hash", f"hash repeat {reps.get('hash')} vs passlib {pname}.checksum_size {cs}", "libpass accepts exactly the digest length passlib produces")
        rep.check(reps.get("salt") == (1, hi), R, s + " salt", f"salt repeat {reps.get('salt')} vs passlib max_salt_size {hi}", "libpass accepts non-empty salts up to the size passlib produces")
    u = model.unit("libpass.inspect.bcrypt")
    pat, flags = fold_regex(model, u, u.assigns["BCRYPT_HASH_REGEX"][0])
    reps = T.group_repeats(pat, flags)
    h, lo, hi, cs = sizes("bcrypt")
    rep.check(reps.get("salt") == (hi, hi) and reps.get("hash") == (cs, cs), R, site(u.name, "BCRYPT_HASH_REGEX"), f"salt {reps.get('salt')} hash {reps.get('hash')} vs passlib bcrypt ({hi}, {cs})",
              "libpass bcrypt regex splits salt and digest where passlib does (22 + 31)")
    # PHC string format: id 1..32, salt 8..48 bytes, hash 12..64 bytes, unpadded base64
    pu = model.unit("libpass.inspect.phc._phc")
    pat, flags = fold_regex(model, pu, pu.assigns["PHC_REGEX"][0])
    reps = T.group_repeats(pat, flags)
    b64len = lambda nbytes: -(-nbytes * 4 // 3)
    want = {"id": (1, 32), "salt": (b64len(8), b64len(48)), "hash": (b64len(12), b64len(64))}
    for g, w in want.items():
        rep.check(reps.get(g) == w, R, site(pu.name, "PHC_REGEX") + f" {g}", f"{g} repeat {reps.get(g)} vs {w}", f"PHC field `{g}` accepts exactly the lengths the format allows (unpadded base64 of the byte range)",
                  witness="a well-formed record at the boundary (e.g. a 64-byte argon2 tag = 86 characters) is refused by inspect_phc(): it can neither be parsed nor re-rendered")
    B64 = "ABCDEFGHIJKLMNOPQRSTUVWXYZabcdefghijklmnopqrstuvwxyz0123456789+/"
    for g in ("salt", "hash"):
        rej = T.group_rejects(pat, flags, g, B64)
        rep.check(rej == "", R, site(pu.name, "PHC_REGEX") + f" {g} alphabet", f"{g} class rejects {rej!r}", f"PHC field `{g}` accepts every base64 character")
    # the PHC helper that encodes salts must emit only characters the record regex accepts (PHC B64 = standard alphabet, no padding)
    pe = model.func(pu.name, "phc_b64_encode")
    enc = [ast.unparse(c.func) for c in walk_no_nested(pe) if isinstance(c, ast.Call) and ast.unparse(c.func).endswith("b64encode")]
    extra = {"base64.b64encode": "+/", "base64.standard_b64encode": "+/", "base64.urlsafe_b64encode": "-_"}.get(enc[0] if enc else "", None)
    if extra is None:
        rep.undecided(R, site(pu.name, "phc_b64_encode"), f"encoder call not recognised: {enc}")
    else:
        rej = T.group_rejects(fold_regex(model, pu, pu.assigns["PHC_REGEX"][0])[0], 0, "salt", extra)
        rep.check(rej == "", R, site(pu.name, "phc_b64_encode"), f"{enc[0]} emits {extra!r}; PHC_REGEX salt class rejects {rej!r}", "phc_b64_encode() stays inside the alphabet PHC_REGEX accepts",
                  witness="a record built with salt=phc_b64_encode('salt with ???') renders '..._Pw' and inspect_phc() returns None for the library's own output")
    # libpass pbkdf2: adapted base64 (./0-9A-Za-z) in salt and digest
    lu = model.unit("libpass.inspect.pbkdf2")
    pat, flags = _class_regex(model, ("libpass.inspect.pbkdf2", "BasePBKDF2CryptInfo"), lu, "REGEX")
    AB64 = "ABCDEFGHIJKLMNOPQRSTUVWXYZabcdefghijklmnopqrstuvwxyz0123456789./"
    for g in ("salt", "hash"):
        rej = T.group_rejects(pat, flags, g, AB64)
        rep.check(rej == "", R, site(lu.name, "BasePBKDF2CryptInfo.REGEX") + f" {g} alphabet", f"{g} class rejects {rej!r}", f"pbkdf2 field `{g}` accepts every adapted-base64 character ('.' and '/' included)",
                  witness="a pbkdf2 hash whose salt or digest encodes a 6-bit group of 62 ('.') is not recognised by the libpass hasher: identify/verify False for the right password")
    # libpass sha-crypt / bcrypt: hash64 / bcrypt64 characters
    H64 = "./0123456789ABCDEFGHIJKLMNOPQRSTUVWXYZabcdefghijklmnopqrstuvwxyz"
    for lun, cn in (("libpass.inspect.sha_crypt", "SHA256CryptInfo"), ("libpass.inspect.sha_crypt", "SHA512CryptInfo")):
        pat, flags = _class_regex(model, (lun, cn), model.unit(lun), "REGEX")
        for g in ("salt", "hash"):
            rej = T.group_rejects(pat, flags, g, H64)
            rep.check(rej == "", R, site(lun, f"{cn}.REGEX") + f" {g} alphabet", f"{g} class rejects {rej!r}", f"sha-crypt field `{g}` accepts every hash64 character")
    bu = model.unit("libpass.inspect.bcrypt")
    pat, flags = fold_regex(model, bu, bu.assigns["BCRYPT_HASH_REGEX"][0])
    for g in ("salt", "hash"):
        rej = T.group_rejects(pat, flags, g, H64)
        rep.check(rej == "", R, site(bu.name, "BCRYPT_HASH_REGEX") + f" {g} alphabet", f"{g} class rejects {rej!r}", f"bcrypt field `{g}` accepts every bcrypt64 character")
    # a field that is followed by a literal separator must not be able to contain that separator: otherwise the regex engine can move the
    # split point (with an optional group in front, '$5$rounds=1000$$digest' is read as implicit rounds + salt 'rounds=1000$')
    for lun, cn, attr in (("libpass.inspect.sha_crypt", "SHA256CryptInfo", "REGEX"), ("libpass.inspect.sha_crypt", "SHA512CryptInfo", "REGEX"), ("libpass.inspect.pbkdf2", "BasePBKDF2CryptInfo", "REGEX")):
        pat, flags = _class_regex(model, (lun, cn), model.unit(lun), attr)
        for g in ("salt", "hash"):
            rej = T.group_rejects(pat, flags, g, "$")
            rep.check(rej == "$", R, site(lun, f"{cn}.{attr}") + f" {g} excludes '$'", f"`{g}` class accepts the separator '$'", f"field `{g}` cannot contain the '$' that separates the fields",
                      witness="inspect_sha_crypt('$5$rounds=1000$$<digest>') (what passlib renders for salt_size=0) reports rounds=None, salt='rounds=1000$': the libpass hasher then rejects the correct password")
    # ldap digests: base64 lengths from digest sizes
    from pv.handlers import DIGEST_SIZES
    L = H + "ldap_digests"
    for name, digest in (("ldap_md5", "md5"), ("ldap_sha1", "sha1")):
        h = t.get(name)
        pat, flags = _class_regex(model, h.cref, model.unit(L), "_hash_regex")
        data, pad = _b64_chars(DIGEST_SIZES[digest])
        shape = T.group_shape(pat, flags, "chk")
        rep.check(shape == ([(data, data)], "=" * pad), R, site(L, f"{name}._hash_regex"), f"chk group {shape} vs {data} chars + {pad} pad",
                  f"{name}: base64 of a {DIGEST_SIZES[digest]}-byte digest is {data} characters and {pad} '='")
    for name, digest in (("ldap_salted_md5", "md5"), ("ldap_salted_sha1", "sha1"), ("ldap_salted_sha256", "sha256"), ("ldap_salted_sha512", "sha512")):
        h = t.get(name)
        pat, flags = _class_regex(model, h.cref, model.unit(L), "_hash_regex")
        ms = t.const(h, "min_salt_size")
        cs = t.const(h, "checksum_size")
        rep.check(cs == DIGEST_SIZES[digest], R, site(L, f"{name}.checksum_size"), f"{cs} vs {DIGEST_SIZES[digest]}", "declared digest size is the hash function's")
        data, pad = _b64_chars(cs + ms)
        allr = T.all_repeats(pat, flags)
        lo = allr[0][0] if allr else None
        rep.check(lo == data, R, site(L, f"{name}._hash_regex"), f"minimum {lo} vs {data} = base64 chars of {cs}+{ms} bytes", "the regex's minimum length is the base64 length of digest + minimum salt",
                  witness=f"{name}: a hash with the minimum salt size is refused (or shorter garbage is accepted and then mis-split)")
    # mssql
    u = H + "mssql"
    for name, call, salt, chk in (("mssql2000", "_parse_mssql(hash, 94, 46, cls)", 4, 40), ("mssql2005", "_parse_mssql(hash, 54, 26, cls)", 4, 20)):
        fn = model.func(u, f"{name}.from_string")
        h = t.get(name)
        cs, ss = t.const(h, "checksum_size"), t.const(h, "min_salt_size")
        want = f"_parse_mssql(hash, {6 + 2 * (ss + cs)}, {2 + ss + cs}, cls)"
        rep.check(has_stmt(fn, f"data = {want}"), R, site(u, f"{name}.from_string"), f"expected {want}", f"{name}: text length = 6 + 2*(salt+digest), binary length = 2 + salt + digest, from the declared sizes")
    fn = model.func(u, "_parse_mssql")
    rep.check("len(hash) == csize and hash.startswith(BIDENT)" in qtext(fn) and "len(hash) != hsize" not in "" and has_stmt(fn, "return unhexlify(hash[6:].encode('utf-8'))"), R, site(u, "_parse_mssql"), "6-character ident then hex",
              "mssql: '0x0100' (6 characters) precedes the hex payload")
    rep.minimum(R, 25)


# ----------------------------------------------------------------------------- h. slices
def _int_slices(fn, var):
    """(lower, upper) integer-constant slices/indices taken from `var` in source order"""
    out = []
    for n in walk_no_nested(fn):
        if isinstance(n, ast.Subscript) and isinstance(n.value, ast.Name) and n.value.id == var:
            sl = n.slice
            if isinstance(sl, ast.Slice):
                lo = sl.lower.value if isinstance(sl.lower, ast.Constant) else (None if sl.lower is None else ast.unparse(sl.lower))
                hi = sl.upper.value if isinstance(sl.upper, ast.Constant) else (None if sl.upper is None else ast.unparse(sl.upper))
                out.append((lo, hi))
            elif isinstance(sl, ast.Constant):
                out.append((sl.value, sl.value + 1 if isinstance(sl.value, int) and sl.value >= 0 else None))
    return out


def rule_h(model, rep, table, pairs):
    R = "C07.h-slice-offsets"
    t = table

    def c(name, attr):
        return t.const(t.get(name), attr)
    # fixed-offset parsers
    cases = [
        ("bcrypt", H + "bcrypt", "_BcryptCommon.from_string", "data", lambda: [(None, c("bcrypt", "max_salt_size")), (c("bcrypt", "max_salt_size"), None)], "salt = first max_salt_size (22) characters"),
        ("des_crypt", H + "des_crypt", "des_crypt.from_string", "hash", lambda: [(None, c("des_crypt", "max_salt_size")), (c("des_crypt", "max_salt_size"), None)], "salt = first 2 characters"),
        ("cisco_type7", H + "cisco", "cisco_type7.from_string", "hash", lambda: [(None, 2), (2, None)], "salt = first 2 characters (the '%02d' the renderer writes)"),
        ("phpass", H + "phpass", "phpass.from_string", "data", lambda: [(0, 1), (1, 1 + c("phpass", "max_salt_size")), (1 + c("phpass", "max_salt_size"), None)], "rounds = 1 character, salt = next max_salt_size (8)"),
        ("atlassian_pbkdf2_sha1", H + "pbkdf2", "atlassian_pbkdf2_sha1.from_string", "data", lambda: [(None, c("atlassian_pbkdf2_sha1", "max_salt_size")), (c("atlassian_pbkdf2_sha1", "max_salt_size"), None)], "salt = first 16 bytes"),
        ("mssql2000", H + "mssql", "mssql2000.from_string", "data", lambda: [(None, c("mssql2000", "max_salt_size")), (c("mssql2000", "max_salt_size"), None)], "salt = first 4 bytes"),
        ("mssql2005", H + "mssql", "mssql2005.from_string", "data", lambda: [(None, c("mssql2005", "max_salt_size")), (c("mssql2005", "max_salt_size"), None)], "salt = first 4 bytes"),
    ]
    for name, u, q, var, want, why in cases:
        fn = model.func(u, q)
        got = list(dict.fromkeys(_int_slices(fn, var)))  # a validity test may read the same slice again before it is converted
        w = want()
        rep.check(got == w, R, site(u, q), f"{var} slices {got} vs {w} from declared sizes", f"{name}: {why}",
                  witness=f"{name}: salt and digest are split at the wrong character: from_string(h).to_string() == h but the reported salt is not the one used (or vice versa)")
    # django_des_crypt: first two characters of des salt duplicated
    fn = model.func(H + "django", "django_des_crypt.from_string")
    ss = c("des_crypt", "max_salt_size")
    got = sorted(set(_int_slices(fn, "salt") + _int_slices(fn, "chk")), key=lambda x: (x[0] or 0, x[1] or 10**6))
    rep.check(got == [(None, ss), (ss, None)] and bool(find_if(fn, "salt[:2] != chk[:2]")), R, site(H + "django", "django_des_crypt.from_string"), f"slices {got} vs des_crypt salt size {ss}",
              "django_des_crypt: the des-crypt salt (2 characters) prefixes the digest and must equal the first 2 characters of the django salt",
              witness="django_des_crypt accepts 'crypt$ab$aXyyyy...' whose embedded des salt differs from the declared salt in the second character; it re-renders as another string")
    rf = model.func(H + "django", "django_des_crypt.to_string")
    rep.check(has_stmt(rf, "chk = salt[:2] + self.checksum"), R, site(H + "django", "django_des_crypt.to_string"), "chk = salt[:2] + checksum", "django_des_crypt: renderer re-attaches the 2-character des salt")
    # prefix tests followed by slicing at the prefix length
    n = 0
    for u, q in ((H + "sha2_crypt", "_SHA2_Common.from_string"), (H + "scram", "scram.from_string"), (H + "sun_md5_crypt", "sun_md5_crypt.from_string"), (H + "scrypt", "scrypt._parse_scrypt_string"),
                 (H + "django", "django_bcrypt_sha256.from_string"), (H + "pbkdf2", "atlassian_pbkdf2_sha1.from_string"), (UH, "parse_mc2"), (UH, "parse_mc3")):
        fn = model.func(u, q)
        n += _prefix_slices(model, rep, R, u, q, fn)
    if n < 14:
        rep.undecided(R, "<instance-count>", f"only {n} prefix/offset sites found, expected at least 14")
    # scrypt $7$: contiguous fixed-width fields
    u = H + "scrypt"
    fn = model.func(u, "scrypt._parse_7_string")
    call = _cls_call(fn)
    kw = {k.arg: ast.unparse(k.value) for k in call[0].keywords} if call else {}
    widths = {"decode_int6": 1, "decode_int12": 2, "decode_int24": 4, "decode_int30": 5}
    seq = []
    for k in ("rounds", "block_size", "parallelism"):
        m = re.fullmatch(r"h64\.(decode_int\d+)\(params\[(\d*):(\d+)\]\)", kw.get(k, ""))
        seq.append((k, m.group(1), int(m.group(2) or 0), int(m.group(3))) if m else (k, None, None, None))
    ok = all(x[1] for x in seq)
    pos = 0
    for k, dec, a, b in seq:
        ok = ok and a == pos and b - a == widths.get(dec)
        pos = b if b is not None else pos
    rep.check(ok and kw.get("salt") == f"params[{pos}:]", R, site(u, "scrypt._parse_7_string"), f"{seq}, salt={kw.get('salt')}", "$7$: N (6 bits, 1 char), r and p (30 bits, 5 chars each) are contiguous and the salt starts right after",
              witness="$7$ hashes parse with r/p read from shifted characters: settings reported are not the ones used")
    rep.check(has_if(fn, f"len(params) < {pos}"), R, site(u, "scrypt._parse_7_string"), f"len(params) < {pos}", "$7$: the length guard equals the end of the fixed fields")
    rf = model.func(u, "scrypt.to_string")
    want = "[b'$7$', h64.encode_int6(self.rounds), h64.encode_int30(self.block_size), h64.encode_int30(self.parallelism), self.salt, b'$', h64.encode_bytes(self.checksum)]"
    rep.check(want in qtext(rf), R, site(u, "scrypt.to_string"), "int6, int30, int30, salt, '$', digest", "$7$: renderer writes the same widths in the same order")
    kw2 = {}
    f2 = model.func(u, "scrypt._parse_scrypt_string")
    def _num_src(v):
        """text converted by int(...) / the strict uh.parse_int(...)"""
        if isinstance(v, ast.Call) and ast.unparse(v.func) in ("int", "uh.parse_int", "parse_int") and v.args:
            return ast.unparse(v.args[0])
        return None
    for call in _cls_call(f2):
        kw2 = {k.arg: (_num_src(k.value) or ast.unparse(k.value)) for k in call.keywords}
    rep.check(kw2.get("rounds") == "nstr[3:]" and kw2.get("block_size") == "bstr[2:]" and kw2.get("parallelism") == "pstr[2:]" and has_stmt(f2, "nstr, bstr, pstr = parts"), R, site(u, "scrypt._parse_scrypt_string"),
              str(kw2), "$scrypt$: ln, r, p in the order the renderer writes them")
    # concatenation order == slice order
    RO = "C07.h-concat-order"
    for p in pairs:
        order = _slice_order(p)
        if len(order) < 2:
            continue
        try:
            paths = p.paths()
        except T.Unsupported:
            continue
        s = site(p.renderer_unit.name, f"{p.label}.{p.renderer.name}")
        for toks, trail in paths:
            text = " ".join(t[1] for t in toks if t[0] == "fld")
            pos = [(re.search(r"\bself\." + k + r"\b", text).start() if _mentions(text, k) else None) for k in order]
            if any(x is None for x in pos):
                continue
            rep.check(pos == sorted(pos), RO, s, f"parser slices {order} in that order; renderer writes {text!r}", "fields are concatenated in the order the parser slices them apart",
                      witness=f"{p.label}: salt and digest swap places in the packed field")
    rep.minimum(RO, 12)
    rep.minimum(R, 27)


def _slice_order(p):
    """kwargs of the constructor call that are slices of one variable, ordered by start offset"""
    out = []
    for k, vals in p.kwargs.items():
        for fn, v in vals:
            e = v
            # peel `x or None`, codecs
            while True:
                if isinstance(e, ast.BoolOp):
                    e = e.values[0]
                elif isinstance(e, ast.Call) and e.args:
                    e = e.args[0]
                elif isinstance(e, ast.Attribute):
                    e = e.value
                else:
                    break
            if isinstance(e, ast.Name):
                # alias: find single tuple assignment  salt, chk = (data[:n], data[n:])
                for n in walk_no_nested(fn):
                    if isinstance(n, ast.Assign) and isinstance(n.targets[0], ast.Tuple) and isinstance(n.value, ast.Tuple):
                        for tt, vv in zip(n.targets[0].elts, n.value.elts):
                            if isinstance(tt, ast.Name) and isinstance(e, ast.Name) and tt.id == e.id:
                                e = vv
                    elif isinstance(n, ast.Assign) and isinstance(n.targets[0], ast.Name) and isinstance(e, ast.Name) and n.targets[0].id == e.id and isinstance(n.value, ast.Subscript):
                        e = n.value
            if isinstance(e, ast.Subscript) and isinstance(e.value, ast.Name):
                sl = e.slice
                if isinstance(sl, ast.Slice):
                    if sl.lower is None:
                        out.append(((0, ""), e.value.id, k))
                    elif isinstance(sl.lower, ast.Constant) and isinstance(sl.lower.value, int):
                        out.append(((sl.lower.value, ""), e.value.id, k))
                    elif isinstance(sl.upper, type(None)) and any(isinstance(o[0], tuple) and o[1] == e.value.id for o in out):
                        # symbolic start, open end: the tail field (cs: / salt_size:)
                        out.append(((10**6, ast.unparse(sl.lower)), e.value.id, k))
                elif isinstance(sl, ast.Constant) and isinstance(sl.value, int):
                    out.append(((sl.value, ""), e.value.id, k))
    if not out:
        return []
    var = max(set(v for _, v, _ in out), key=lambda v: sum(1 for _, vv, _ in out if vv == v))
    sel = sorted((k0, k) for k0, v, k in out if v == var)
    names = []
    for _, k in sel:
        if k not in names:
            names.append(k)
    return names


def _prefix_slices(model, rep, R, u, q, fn):
    """`x.startswith(P)` tests and the integer offsets used with x in the region they dominate: offset == len(P)"""
    unit = model.unit(u)
    n = 0

    def prefix_len(call):
        a = call.args[0]
        v = model.fold(unit, a)
        if isinstance(v, (str, bytes)):
            return len(v), repr(v)
        if ast.unparse(a) in ("ident", "cls.ident", "prefix", "cls.django_prefix"):
            return ("len", ast.unparse(a)), ast.unparse(a)
        return None, ast.unparse(a)

    def starts(test):
        out = []
        for x in ast.walk(test):
            if isinstance(x, ast.Call) and isinstance(x.func, ast.Attribute) and x.func.attr == "startswith" and isinstance(x.func.value, ast.Name) and x.args:
                out.append((x.func.value.id, x))
        return out

    def offsets(region, var):
        """integer constants / len() expressions used as slice start, find() start or *_idx assignment"""
        out = []
        for st in region:
            for x in ([st] if not isinstance(st, list) else st):
                for y in [x] + list(walk_no_nested(x)):
                    if isinstance(y, ast.Subscript) and isinstance(y.value, ast.Name) and y.value.id == var and isinstance(y.slice, ast.Slice) and y.slice.lower is not None:
                        lo = y.slice.lower
                        if isinstance(lo, ast.Constant) and isinstance(lo.value, int):
                            out.append((lo.value, ast.unparse(y)))
                        elif isinstance(lo, ast.Call) and ast.unparse(lo.func) == "len":
                            out.append((("len", ast.unparse(lo.args[0])), ast.unparse(y)))
                    elif isinstance(y, ast.Call) and isinstance(y.func, ast.Attribute) and y.func.attr in ("find", "rfind") and isinstance(y.func.value, ast.Name) and y.func.value.id == var \
                            and len(y.args) > 1 and isinstance(y.args[1], ast.Constant):
                        out.append((y.args[1].value, ast.unparse(y)))
                    elif isinstance(y, ast.Assign) and isinstance(y.targets[0], ast.Name) and y.targets[0].id.endswith("_idx") and isinstance(y.value, ast.Constant) and isinstance(y.value.value, int):
                        out.append((y.value.value, ast.unparse(y)))
        return out

    all_stmts = stmts(fn)
    handled = set()
    for st in all_stmts:
        if not isinstance(st, ast.If) or id(st) in handled:
            continue
        sts = starts(st.test)
        if not sts:
            continue
        guard = isinstance(st.test, ast.UnaryOp) and isinstance(st.test.op, ast.Not) and st.body and isinstance(st.body[-1], ast.Raise)
        chain = []
        if guard:
            after = [x for x in all_stmts if x.lineno > st.end_lineno]
            for var, call in sts:
                chain.append((var, call, after, True))
        else:
            cur = st
            while isinstance(cur, ast.If):
                handled.add(id(cur))
                for var, call in starts(cur.test):
                    chain.append((var, call, cur.body, False))
                cur = cur.orelse[0] if len(cur.orelse) == 1 and isinstance(cur.orelse[0], ast.If) else None
        for var, call, region, is_guard in chain:
            plen, ptxt = prefix_len(call)
            offs = offsets(region, var)
            if is_guard:
                # only the first use after the guard strips the prefix
                offs = offs[:1]
            for off, where in offs:
                n += 1
                if plen is None:
                    rep.undecided(R, site(u, q), f"prefix {ptxt} does not fold")
                    continue
                if isinstance(plen, tuple) != isinstance(off, tuple):
                    n -= 1
                    continue
                rep.check(off == plen, R, site(u, q) + f" after startswith({ptxt})", f"`{where}` uses offset {off} after testing the prefix {ptxt} (length {plen})",
                          "text is cut exactly at the end of the prefix that was just tested",
                          witness=f"{q}: the first character of the next field is dropped (or the last prefix character kept): settings reported are not those in the string")
    # sha2: `[7:]` after `parts[0].startswith(_UROUNDS)`
    if q == "_SHA2_Common.from_string":
        f = find_if(fn, "parts[0].startswith(_UROUNDS)")
        L = len(model.fold(unit, ast.parse("_UROUNDS", mode="eval").body))
        ok = bool(f) and has_stmt(fn, f"rounds = parts.pop(0)[{L}:]")
        n += 1
        rep.check(ok, R, site(u, q) + " after startswith(_UROUNDS)", f"rounds = parts.pop(0)[{L}:]", "sha-crypt: the rounds value starts right after 'rounds='")
        for idn in ("sha256_crypt", "sha512_crypt"):
            v = model.class_const((u, idn), "ident")
            n += 1
            rep.check(isinstance(v, str) and len(v) == 3 and has_stmt(fn, "parts = hash[3:].split(_UDOLLAR)"), R, site(u, q) + f" ident {idn}", f"ident {v!r}; parts = hash[3:]", "sha-crypt: text is cut after the 3-character ident")
    return n


# ----------------------------------------------------------------------------- driver
from . import c12 as _c12  # noqa: E402
from .shared import Renamed as _Renamed  # noqa: E402


def run(model, rep):
    rep.explanation = __doc__
    table = HandlerTable(model)
    pairs = _handler_pairs(model, table)
    lib = _libpass_pairs(model)
    rep.extra["pairs"] = [p.label for p in pairs + lib]
    if len(pairs) < 30:
        rep.undecided("C07", "<instance-count>", f"only {len(pairs)} parser/renderer pairs found")
    rule_a(model, rep, pairs)
    rule_b(model, rep, pairs, lib)
    rule_c(model, rep, pairs)
    rule_d(model, rep, pairs, lib)
    rule_e(model, rep)
    rule_f(model, rep, pairs, lib)
    rule_g(model, rep, table)
    rule_h(model, rep, table, pairs)
    # the codecs a hash string is rendered / parsed with are part of the round trip
    _c12.rule_alphabets(model, _Renamed(rep, {"C12.e": "C07.j-codec-alphabets", "C12.f": "C07.j-codec-helpers"}, "C07.x-"))
    # scram writes and reads its digests under IANA hash names taken from the digest-name table
    from . import prim as _prim
    _prim.rule_hash_names(model, rep, "C07.k-digest-names")
    rule_fresh_records(model, rep)
    rule_hex_case(model, rep, table)
    rule_empty_checksum(model, rep)
    rule_scrypt7_separator(model, rep)


CACHERS = {"lru_cache", "cache", "memoize_single_value", "cached_property", "memoized_property"}


def _is_cacher(expr):
    """`functools.lru_cache`, `lru_cache(maxsize=...)`, `functools.cache` ... as a decorator or as the callee of a rebinding"""
    e = expr.func if isinstance(expr, ast.Call) else expr
    return ast.unparse(e).split(".")[-1] in CACHERS


def rule_fresh_records(model, rep):
    """the inspection functions hand each caller a record of its own: the records are ordinary (mutable) dataclasses, so a process-wide
    cache in front of a public inspect function would serve one caller's edited record to the next"""
    R = "C07.l-inspect-fresh-records"
    n = 0
    for un, unit in model.units.items():
        if not un.startswith("libpass.inspect"):
            continue
        frozen = {c.name for c in ast.walk(unit.tree) if isinstance(c, ast.ClassDef) and any(
            isinstance(d, ast.Call) and ast.unparse(d.func).split(".")[-1] == "dataclass" and any(k.arg == "frozen" and ast.unparse(k.value) == "True" for k in d.keywords)
            for d in c.decorator_list)}
        rebound = {}
        for st in ast.walk(unit.tree):
            if isinstance(st, ast.Assign) and isinstance(st.value, ast.Call) and len(st.value.args) == 1 and isinstance(st.value.args[0], ast.Name) and _is_cacher(st.value.func):
                for t in st.targets:
                    if isinstance(t, ast.Name) and t.id == st.value.args[0].id:
                        rebound[t.id] = ast.unparse(st)
        for q, fn in unit.functions():
            short = q.split(".")[-1]
            if short.startswith("_"):
                continue
            rets = [r.value for r in walk_no_nested(fn) if isinstance(r, ast.Return) and r.value is not None and not (isinstance(r.value, ast.Constant))]
            builds = [r for r in rets if isinstance(r, ast.Call) and not (isinstance(r.func, ast.Name) and r.func.id in frozen)]
            if not builds:
                continue        # returns no freshly built record
            n += 1
            how = [ast.unparse(d) for d in fn.decorator_list if _is_cacher(d)] + ([rebound[short]] if short in rebound and "." not in q else [])
            rep.check(not how, R, f"{un}:{q}", "; ".join(how) or f"returns {ast.unparse(builds[0].func)}(...) uncached",
                      "a public inspect function that builds a mutable record is not memoised",
                      witness="info = inspect_sha_crypt(h, cls); info.rounds = 9999 (deriving another record); inspect_sha_crypt(h, cls).as_str() != h on the next call")
    if n < 2:
        rep.undecided(R, "<instance-count>", f"only {n} record-building public inspect functions found, expected at least 2")


#: hashers that admit both hex cases but fold none, confirmed by reading: name -> reason
HEX_CASE_EXEMPT = {"postgres_md5": "PostgreSQL writes the digest in lower case only; the documentation promises no case-insensitive reading (an upper-case string parses, "
                                   "re-renders unchanged and verifies nothing)"}


def rule_hex_case(model, rep, table):
    """a hasher whose digest alphabet admits both hex cases (checksum_chars = HEX_CHARS) computes one case: stored strings in the other case
    are its documented equivalents only if `_norm_hash` folds them to the computed case"""
    R = "C07.m-hex-case-folded"
    n = 0
    for h in table:
        if h.cref is None or h.kind not in ("class", "factory"):
            continue
        try:
            _, node = model.lookup(h.cref, "checksum_chars")
        except Exception:
            continue
        if node is None or ast.unparse(node).split(".")[-1] != "HEX_CHARS":
            continue
        n += 1
        s = f"{h.cref[0]}:{h.cref[1]} ({h.name})"
        if h.name in HEX_CASE_EXEMPT:
            rep.hold(R, s, "exempt: " + HEX_CASE_EXEMPT[h.name])
            continue
        _, nh = model.method(h.cref, "_norm_hash", required=False)
        rets = [ast.unparse(r.value) for r in walk_no_nested(nh) if isinstance(r, ast.Return) and r.value is not None] if nh is not None else []
        rep.check(rets in (["hash.lower()"], ["hash.upper()"]), R, s, f"_norm_hash returns {rets}" if nh is not None else "no _norm_hash",
                  "digests over the mixed-case hex alphabet are folded to the case the hasher computes",
                  witness="msdcc2.verify(pw, h.upper(), user=u) is False for the right password and from_string(h.upper()).to_string() keeps the upper-case digest")
    if n < 10:
        rep.undecided(R, "<instance-count>", f"only {n} hashers with a mixed-case hex alphabet found, expected at least 10")


def rule_empty_checksum(model, rep):
    """the modular-crypt parsers hand an absent *or empty* digest field on as None -- a configuration string may end in the separator
    (`$sha1$10$salt$`), and every handler tests `checksum is None`, never `== ''`"""
    R = "C07.n-empty-digest-is-none"
    for q, want in (("parse_mc2", "(salt, chk or None)"), ("parse_mc3", "(rounds, salt, chk or None)")):
        fn = model.func(UH, q)
        rets = [ast.unparse(r.value) for r in walk_no_nested(fn) if isinstance(r, ast.Return) and r.value is not None and any(isinstance(x, ast.Name) and x.id == "chk" for x in ast.walk(r.value))]
        rep.check(rets == [want], R, f"{UH}:{q}", "; ".join(rets), "the digest field is returned as `chk or None`",
                  witness="sha1_crypt.genhash(pw, '$sha1$10$salt$') / pbkdf2_sha256.from_string('$pbkdf2-sha256$10$c2FsdA$') raise: the empty digest reaches the size check instead of meaning 'no digest'")


def rule_scrypt7_separator(model, rep):
    """`$7$` writes the salt as it is, directly in front of the `$` that separates it from the digest, and the parser splits there: a salt
    containing `$` cannot be written (the renderer refuses it, as it refuses non-ASCII salts)"""
    R = "C07.g-regex-sizes"
    SC = "passlib.handlers.scrypt"
    fn = model.func(SC, "scrypt.to_string")
    guards = [g for g in walk_no_nested(fn) if isinstance(g, ast.If) and g.body and isinstance(g.body[-1], ast.Raise) and isinstance(g.test, ast.Compare)
              and any(isinstance(o, ast.In) for o in g.test.ops) and ast.unparse(g.test.left) in ("b'$'", "_BDOLLAR", "b\"$\"") and "salt" in ast.unparse(g.test.comparators[0])]
    rep.check(bool(guards), R, f"{SC}:scrypt.to_string $7$ salt separator", ast.unparse(guards[0].test) if guards else "salt written without a test for b'$'",
              "a `$7$` salt containing the field separator is refused when the string is rendered",
              witness="scrypt.using(ident='$7$', rounds=1, salt=b'ab$cd').hash('password') returns '$7$/6..../....ab$cd$<digest>', which scrypt.verify() / from_string() refuse as malformed")
