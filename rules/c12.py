"""C12 -- binary-to-text encodings are exact inverses and match their alphabets.

Decided (per-group clauses at proof level): for each of the six group encoders/decoders (four in
passlib.utils.binary, two copies in libpass) the bit routing extracted by the bit-provenance domain
is a permutation of the 24 (16, 8) input bits onto 6-bit symbols with zero padding bits, decode o encode
is the identity routing, and the routing equals the layout generated from the definition of big-endian
base64 / crypt's little-endian 24-bit groups -- hence for *every* input of the group.  Also: the bits the
decoders ignore are exactly the bits the padding-repair masks clear; integer codecs (6/12/24/30/64) have
range guards 2**bits-1 and shift/mask ladders of 6; alphabets are the documented 64 distinct characters;
unpadded/dot-variant base64 helpers (padding table, '+'<->'.' translation on every input type), base32
typo correction; error mapping.  Not decided: chunk/tail loop bookkeeping beyond its shape."""
from __future__ import annotations

import ast

from pv.q import text as qtext
from pv.model import AnalysisError, walk_no_nested, params, UNKNOWN
from pv import bits as B
from pv.q import has_stmt, has_if, find_if, returns, body_texts

BIN = "passlib.utils.binary"
LBIN = "libpass._utils.binary"
LDEP = "libpass._utils.deprecated"


def site(f, u=BIN):
    return f"{u}:{f}"


# ----------------------------------------------------------------------------- group coders
def _run(body, env, width, out, fresh):
    for st in body:
        if isinstance(st, ast.Assign) and isinstance(st.value, ast.Call) and ast.unparse(st.value.func) == "next_value":
            name = st.targets[0].id
            env[name] = B.sym(str(fresh[0]), width)
            fresh[0] += 1
        elif isinstance(st, ast.Assign) and isinstance(st.targets[0], ast.Name):
            env[st.targets[0].id] = B.Evaluator(env).ev(st.value)
        elif isinstance(st, ast.Expr) and isinstance(st.value, ast.Yield):
            out.append(B.Evaluator(env).ev(st.value.value))
        elif isinstance(st, (ast.AugAssign, ast.Assert)) or (isinstance(st, ast.Expr) and isinstance(st.value, ast.Constant)):
            pass
        else:
            raise B.Unsupported(ast.unparse(st)[:60])


def analyse_coder(fn, width_in):
    """-> {'chunk': [...], ('tail', n): [...]}  routing = list of emitted abstract values"""
    res = {}
    loops = [s for s in fn.body if isinstance(s, ast.While)]
    if len(loops) != 1:
        raise B.Unsupported("expected exactly one chunk loop")
    out = []
    _run(loops[0].body, {}, width_in, out, [0])
    res["chunk"] = out
    res["loop_test"] = ast.unparse(loops[0].test)
    tailifs = [s for s in fn.body if isinstance(s, ast.If) and ast.unparse(s.test) == "tail"]
    if len(tailifs) != 1:
        raise B.Unsupported("tail block not found")
    tb = tailifs[0]
    pre = [s for s in tb.body if not isinstance(s, ast.If)]
    inner = [s for s in tb.body if isinstance(s, ast.If)]
    if len(inner) != 1:
        raise B.Unsupported("tail dispatch not found")
    inner = inner[0]
    t = inner.test
    if not (isinstance(t, ast.Compare) and ast.unparse(t.left) == "tail" and isinstance(t.ops[0], ast.Eq) and isinstance(t.comparators[0], ast.Constant)):
        raise B.Unsupported("tail test shape")
    k = t.comparators[0].value
    # statements of `pre` before / after the inner if keep their order
    idx = tb.body.index(inner)
    before = [s for s in tb.body[:idx]]
    after = [s for s in tb.body[idx + 1:]]
    for label, branch in ((k, inner.body), ("else", inner.orelse)):
        out = []
        env = {}
        fresh = [0]
        _run(before, env, width_in, out, fresh)
        _run(branch, env, width_in, out, fresh)
        _run(after, env, width_in, out, fresh)
        res[("tail", label)] = out
    return res


def ref_layout(big, nbytes):
    """symbols (6-bit, LSB first lists) for a group of nbytes bytes according to the definition"""
    total = nbytes * 8
    nsym = -(-total // 6)
    if big:
        # standard base64: bytes concatenated MSB first, cut into 6-bit groups from the top, zero padded at the bottom
        stream = []  # MSB first
        for i in range(nbytes):
            stream += [(str(i), k) for k in range(7, -1, -1)]
        stream += [0] * (nsym * 6 - total)
        syms = []
        for j in range(nsym):
            grp = stream[j * 6:(j + 1) * 6]  # MSB first
            syms.append(list(reversed(grp)))
        return syms
    # crypt's hash64: little-endian integer of the bytes, 6 bits at a time from the bottom
    stream = []  # LSB first
    for i in range(nbytes):
        stream += [(str(i), k) for k in range(8)]
    stream += [0] * (nsym * 6 - total)
    return [stream[j * 6:(j + 1) * 6] for j in range(nsym)]


def rule_groups(model, rep):
    R = "C12.a-group-routing"
    coders = {}
    for un, prefix in ((BIN, "Base64Engine."), (LBIN, "")):
        for name in ("_encode_bytes_little", "_encode_bytes_big", "_decode_bytes_little", "_decode_bytes_big"):
            fn = model.func(un, prefix + name, required=False)
            if fn is None:
                if un == BIN:
                    raise AnalysisError(f"{un}:{prefix}{name} vanished")
                continue
            enc = name.startswith("_encode")
            big = name.endswith("big")
            s = site(prefix + name, un)
            try:
                r = analyse_coder(fn, 8 if enc else 6)
            except B.Unsupported as e:
                rep.undecided(R, s, f"bit-provenance evaluation failed: {e}")
                continue
            coders[(un, name)] = r
            rep.check(r["loop_test"] == "idx < chunks", R, s, r["loop_test"], "chunk loop runs `chunks` times")
            if enc:
                for nbytes, key in ((3, "chunk"), (1, ("tail", 1)), (2, ("tail", "else"))):
                    try:
                        got = [B.pad(y, 6) for y in r[key]]
                    except B.Unsupported as e:
                        rep.violation(R, s, str(e)[:120], "an emitted symbol is wider than 6 bits", witness="encode_bytes raises IndexError (symbol >= 64) for some byte values")
                        continue
                    want = ref_layout(big, nbytes)
                    rep.check(got == want, R, s, f"{nbytes}-byte group -> {len(got)} symbols: {_fmt(got)}",
                              f"{'big' if big else 'little'}-endian encoder routes the {nbytes * 8} input bits of a {nbytes}-byte group exactly as the definition "
                              f"({'standard base64' if big else 'hash64 / crypt'}) prescribes, padding bits zero",
                              witness=f"some {nbytes}-byte inputs encode to text that the decoder / standard base64 maps to other bytes")
            else:
                for nsym, key in ((4, "chunk"), (2, ("tail", "else")), (3, ("tail", 3))):
                    # decoder: nsym symbols -> nbytes bytes; reference = inverse of the encoder layout
                    nbytes = nsym * 6 // 8
                    enc_ref = ref_layout(big, nbytes)
                    want = []
                    for i in range(nbytes):
                        byte = [None] * 8
                        for sj, symb in enumerate(enc_ref):
                            for k, b in enumerate(symb):
                                if b != 0 and b[0] == str(i):
                                    byte[b[1]] = (str(sj), k)
                        want.append(byte)
                    try:
                        got = [B.pad(y, 8) for y in r[key]]
                    except B.Unsupported as e:
                        rep.violation(R, s, str(e), "a decoded value is wider than a byte", witness="decode yields values > 255 (ValueError from bytes())")
                        continue
                    rep.check(got == want, R, s, f"{nsym} symbols -> {len(got)} bytes: {_fmt(got)}",
                              f"{'big' if big else 'little'}-endian decoder is the inverse routing of the encoder for {nsym}-symbol groups",
                              witness="decode(encode(x)) != x for some byte values in this group size")
                    # ignored bits = padding bits
                    used = {b for y in got for b in y if b not in (0, 1)}
                    allbits = {(str(sj), k) for sj in range(nsym) for k in range(6)}
                    ignored = sorted(allbits - used)
                    mask = sum(1 << k for (sj, k) in ignored)
                    coders[(un, name, "ignored", nsym)] = (ignored, mask)
    rep.minimum(R, 24)
    # padding masks = ignored bits of the last symbol
    R2 = "C12.b-padding-masks"
    for attr, nsym in (("_padinfo2", 2), ("_padinfo3", 3)):
        fn = model.func(BIN, "Base64Engine." + attr)
        asg = [n for n in walk_no_nested(fn) if isinstance(n, ast.Assign) and ast.unparse(n.targets[0]) == "bits"]
        if len(asg) != 1 or not isinstance(asg[0].value, ast.IfExp) or ast.unparse(asg[0].value.test) != "self.big":
            rep.undecided(R2, site("Base64Engine." + attr), "`bits = X if self.big else Y` not found")
            continue
        vb = model.fold(model.unit(BIN), asg[0].value.body)
        vl = model.fold(model.unit(BIN), asg[0].value.orelse)
        for big, v in ((True, vb), (False, vl)):
            key = (BIN, "_decode_bytes_big" if big else "_decode_bytes_little", "ignored", nsym)
            if key not in coders:
                continue
            ignored, mask = coders[key]
            rep.check(v == mask and all(sj == str(nsym - 1) for sj, k in ignored), R2, site("Base64Engine." + attr), f"{'big' if big else 'little'}: bits={v!r}; decoder ignores {ignored}",
                      f"the repair mask for a {nsym}-symbol tail clears exactly the bits of the last symbol that the decoder ignores ({mask:#x})",
                      witness="padding-bit repair changes data bits, or leaves padding bits set (bcrypt salts/digests with non-canonical last characters)")
        rets = returns(fn)
        rep.check(rets == ["(~bits, self.__make_padset(bits))"], R2, site("Base64Engine." + attr), "; ".join(rets), "mask is the complement; padset built from the same bits")
    fn = model.func(BIN, "Base64Engine.check_repair_unused")
    t = qtext(fn)
    rep.check("tail = len(source) & 3" in t and has_if(fn, "tail == 2") and "mask, padset = self._padinfo2" in t and "mask, padset = self._padinfo3" in t, R2,
              site("Base64Engine.check_repair_unused"), "tail 2 -> padinfo2, tail 3 -> padinfo3", "repair picks the mask by length mod 4")
    rep.check("last = self._encode64(self._decode64(last) & mask)" in t and "last = cm[cm.index(last) & mask]" in t, R2, site("Base64Engine.check_repair_unused"),
              "value & mask", "repair clears the padding bits of the last character (bytes and text paths)")
    rep.check("raise ValueError('source length must != 1 mod 4')" in t, R2, site("Base64Engine.check_repair_unused"), "len 1 mod 4 -> ValueError", "impossible lengths are refused")
    return coders


def _fmt(rows):
    def b(x):
        return "0" if x == 0 else ("1" if x == 1 else (x if x == B.TOP else f"{x[0]}.{x[1]}"))
    return " | ".join(",".join(b(x) for x in r) for r in rows)[:300]


# ----------------------------------------------------------------------------- engine plumbing and int codecs
def rule_engine(model, rep):
    R = "C12.c-engine"
    fn = model.func(BIN, "Base64Engine.encode_bytes")
    t = qtext(fn)
    rep.check("chunks, tail = divmod(len(source), 3)" in t and "gen = self._encode_bytes(next_value, chunks, tail)" in t and returns(fn) == ["bytes(map(self._encode64, gen))"], R,
              site("Base64Engine.encode_bytes"), "divmod(len, 3); map(_encode64)", "encode: 3-byte groups, symbols mapped through the alphabet")
    fn = model.func(BIN, "Base64Engine.decode_bytes")
    t = qtext(fn)
    rep.check("chunks, tail = divmod(len(source), 4)" in t and has_if(fn, "tail == 1") and "next_value = map(self._decode64, source).__next__" in t, R,
              site("Base64Engine.decode_bytes"), "divmod(len, 4); tail 1 refused", "decode: 4-symbol groups; a length of 1 mod 4 raises ValueError",
              witness="truncated text decodes instead of raising")
    fn = model.func(BIN, "Base64Engine.__init__")
    t = qtext(fn)
    rep.check("if len(charmap) != 64:" in t and "if len(set(charmap)) != 64:" in t, R, site("Base64Engine.__init__"), "64 distinct", "alphabet must have 64 distinct characters")
    rep.check("lookup = dict(((value, idx) for idx, value in enumerate(charmap)))" in t and "self._encode64 = charmap.__getitem__" in t, R, site("Base64Engine.__init__"),
              "decode map is the inverse of the alphabet", "decode map inverts the encode map")
    big = find_if(fn, "big")
    ok = bool(big) and "self._encode_bytes = self._encode_bytes_big" in qtext(big[0].body[0]) and "self._decode_bytes = self._decode_bytes_big" in qtext(big[0].body[1]) \
        and "self._encode_bytes = self._encode_bytes_little" in qtext(big[0].orelse[0]) and "self._decode_bytes = self._decode_bytes_little" in qtext(big[0].orelse[1])
    rep.check(ok, R, site("Base64Engine.__init__"), "big -> *_big, else *_little", "endianness flag selects the matching encoder *and* decoder",
              witness="a big-endian engine decodes with the little-endian routine")
    for q, want in (("Base64Engine.encode_transposed_bytes", "tmp = bytes((source[off] for off in offsets))"),):
        rep.check(has_stmt(model.func(BIN, q), want), R, site(q), want, "transposed encode gathers source[off] in offset order")
    fn = model.func(BIN, "Base64Engine.decode_transposed_bytes")
    t = qtext(fn)
    rep.check("for off, char in zip(offsets, tmp):" in t and "buf[off] = char" in t, R, site("Base64Engine.decode_transposed_bytes"), "buf[off] = char", "transposed decode scatters back to buf[off] (inverse of the gather)")
    # ---- integer codecs
    R2 = "C12.d-int-codecs"
    for bits_, meth in ((6, "encode_int6"), (12, "encode_int12"), (24, "encode_int24"), (30, "encode_int30"), (64, "encode_int64")):
        fn = model.func(BIN, "Base64Engine." + meth)
        guards = [n for n in walk_no_nested(fn) if isinstance(n, ast.If) and any(isinstance(x, ast.Raise) for x in n.body)]
        ok = False
        got = None
        if guards and isinstance(guards[0].test, ast.BoolOp) and isinstance(guards[0].test.op, ast.Or):
            lo, hi = guards[0].test.values[:2]
            if ast.unparse(lo) == "value < 0" and isinstance(hi, ast.Compare) and ast.unparse(hi.left) == "value" and isinstance(hi.ops[0], ast.Gt):
                got = model.fold(model.unit(BIN), hi.comparators[0])
                ok = got == (1 << bits_) - 1
        rep.check(ok, R2, site("Base64Engine." + meth), f"value < 0 or value > {got!r}", f"range guard is 0 <= value <= 2**{bits_}-1",
                  witness=f"values from 2**{bits_} up are silently truncated to their low bits instead of raising ValueError (or top in-range values refused)")
    for bits_, meth in ((12, "encode_int12"), (24, "encode_int24")):
        fn = model.func(BIN, "Base64Engine." + meth)
        raw = [n for n in walk_no_nested(fn) if isinstance(n, ast.Assign) and ast.unparse(n.targets[0]) == "raw"]
        ok = False
        if raw and isinstance(raw[0].value, ast.List):
            ev = B.Evaluator({"value": B.sym("v", bits_)})
            try:
                rows = [B.pad(ev.ev(e), 6) for e in raw[0].value.elts]
                want = [[("v", 6 * i + k) for k in range(6)] for i in range(bits_ // 6)]
                ok = rows == want
            except B.Unsupported:
                ok = False
        rep.check(ok, R2, site("Base64Engine." + meth), ast.unparse(raw[0].value) if raw else "<none>", f"digits are bits 6i..6i+5 of the value, least significant first",
                  witness="some 6-bit digit is taken from the wrong position")
        rep.check(has_if(fn, "self.big", ["raw.reverse()"]), R2, site("Base64Engine." + meth), "if self.big: raw.reverse()", "big-endian engines emit the most significant digit first")
    for bits_, meth in ((12, "decode_int12"), (24, "decode_int24")):
        fn = model.func(BIN, "Base64Engine." + meth)
        n = bits_ // 6
        bigif = find_if(fn, "self.big")
        rets = []
        if len(bigif) == 1 and len(bigif[0].body) == 1 and isinstance(bigif[0].body[0], ast.Return):
            blk = model.unit(BIN).parent(bigif[0])
            sibs = getattr(blk, "body", [])
            nxt = sibs[sibs.index(bigif[0]) + 1] if bigif[0] in sibs and sibs.index(bigif[0]) + 1 < len(sibs) else None
            if isinstance(nxt, ast.Return):
                rets = [bigif[0].body[0], nxt]
        ok = len(rets) == 2

        def shape(expr, order):
            # decode(source[i]) << 6*j summed
            ev = B.Evaluator({}, call=lambda c, e: B.sym(ast.unparse(c.args[0]), 6) if ast.unparse(c.func) == "decode" else None)
            try:
                v = B.pad(ev.ev(expr), bits_)
            except B.Unsupported:
                return False
            want = []
            for j in range(n):
                want += [(f"source[{order[j]}]", k) for k in range(6)]
            return v == want
        if ok:
            big_ret, little_ret = rets[0].value, rets[1].value
            ok = shape(big_ret, list(range(n - 1, -1, -1))) and shape(little_ret, list(range(n)))
        rep.check(ok, R2, site("Base64Engine." + meth), "; ".join(ast.unparse(r.value)[:80] for r in rets), f"decode places digit i at bit 6i (little) / mirrored (big): inverse of {meth.replace('decode', 'encode')}",
                  witness="decode_intN(encode_intN(v)) != v")
        rep.check(has_if(fn, f"len(source) != {n}"), R2, site("Base64Engine." + meth), f"len(source) != {n} -> ValueError", "wrong length raises ValueError")
    fn = model.func(BIN, "Base64Engine._encode_int")
    t = qtext(fn)
    rep.check("pad = -bits % 6" in t and "bits += pad" in t and "itr = range(bits - 6, -6, -6)" in t and "value <<= pad" in t and "itr = range(0, bits, 6)" in t and
              "(value >> off & 63 for off in itr)" in t, R2, site("Base64Engine._encode_int"), "pad, offsets, mask 0x3F", "generic encoder: pad to a multiple of 6, big = high digits first with value shifted by pad")
    fn = model.func(BIN, "Base64Engine._decode_int")
    t = qtext(fn)
    rep.check("pad = -bits % 6" in t and "for c in source if big else reversed(source):" in t and "out = (out << 6) + decode(c)" in t and "out >>= pad" in t and "out &= (1 << bits) - 1" in t, R2,
              site("Base64Engine._decode_int"), "accumulate 6 bits per char; strip pad", "generic decoder: inverse accumulation; padding bits dropped (big: low, little: high)")
    rep.check("if len(source) != chars:" in t, R2, site("Base64Engine._decode_int"), "length check", "wrong length raises ValueError")
    for meth, b_ in (("encode_int30", 30), ("encode_int64", 64), ("decode_int30", 30), ("decode_int64", 64)):
        fn = model.func(BIN, "Base64Engine." + meth)
        want = f"self._{'encode' if meth.startswith('encode') else 'decode'}_int({'value' if meth.startswith('encode') else 'source'}, {b_})"
        rep.check(returns(fn)[-1] == want, R2, site("Base64Engine." + meth), returns(fn)[-1], f"{meth} delegates with width {b_}")
    fn = model.func(BIN, "Base64Engine.encode_int6")
    rep.check(returns(fn) == ["self.bytemap[value:value + 1]"], R2, site("Base64Engine.encode_int6"), "; ".join(returns(fn)), "int6 = one alphabet character")


# ----------------------------------------------------------------------------- alphabets and helpers
REF_ALPHABETS = {
    "BASE64_CHARS": "ABCDEFGHIJKLMNOPQRSTUVWXYZabcdefghijklmnopqrstuvwxyz0123456789+/",
    "AB64_CHARS": "ABCDEFGHIJKLMNOPQRSTUVWXYZabcdefghijklmnopqrstuvwxyz0123456789./",
    "HASH64_CHARS": "./0123456789ABCDEFGHIJKLMNOPQRSTUVWXYZabcdefghijklmnopqrstuvwxyz",
    "BCRYPT_CHARS": "./ABCDEFGHIJKLMNOPQRSTUVWXYZabcdefghijklmnopqrstuvwxyz0123456789",
    "HEX_CHARS": "0123456789abcdefABCDEF",
    "UPPER_HEX_CHARS": "0123456789ABCDEF",
    "LOWER_HEX_CHARS": "0123456789abcdef",
}


def rule_alphabets(model, rep):
    R = "C12.e-alphabets"
    unit = model.unit(BIN)
    for name, want in REF_ALPHABETS.items():
        v = model.fold(unit, ast.Name(id=name, ctx=ast.Load()))
        rep.check(v == want, R, site(name), repr(v), f"{name} is the documented alphabet in value order",
                  witness=f"every text produced with {name} differs from the standard encoding at the changed positions")
    v = model.fold(unit, ast.Name(id="PADDED_BASE64_CHARS", ctx=ast.Load()))
    rep.check(v == REF_ALPHABETS["BASE64_CHARS"] + "=", R, site("PADDED_BASE64_CHARS"), repr(v), "padded alphabet = base64 + '='")
    for name, chars, big in (("h64", "HASH64_CHARS", False), ("h64big", "HASH64_CHARS", True), ("bcrypt64", "BCRYPT_CHARS", True)):
        a = unit.assigns.get(name)
        ok = bool(a) and isinstance(a[0], ast.Call) and ast.unparse(a[0].func) == "LazyBase64Engine" and ast.unparse(a[0].args[0]) == chars and \
            (any(k.arg == "big" and ast.unparse(k.value) == "True" for k in a[0].keywords) == big)
        rep.check(ok, R, site(name), ast.unparse(a[0]) if a else "<none>", f"{name} = engine over {chars}, {'big' if big else 'little'}-endian",
                  witness=f"{name} encodes with the wrong alphabet or bit order: every hash using it changes")
    lu = model.unit(LBIN)
    v = model.fold(lu, ast.Name(id="B64_CHARS", ctx=ast.Load()))
    rep.check(v == REF_ALPHABETS["HASH64_CHARS"], R, site("B64_CHARS", LBIN), repr(v), "libpass hash64 alphabet equals passlib's")
    a = lu.assigns.get("h64_engine")
    rep.check(bool(a) and ast.unparse(a[0]) == "Base64Engine(B64_CHARS, big=False)", R, site("h64_engine", LBIN), ast.unparse(a[0]) if a else "<none>", "libpass h64 engine is little-endian over B64_CHARS")
    # helpers (both copies)
    R2 = "C12.f-b64-helpers"
    for un in (BIN, LDEP):
        u = model.unit(un)
        for name, want in (("_BASE64_STRIP", b"=\n"), ("_BASE64_PAD1", b"="), ("_BASE64_PAD2", b"==")):
            v = model.fold(u, ast.Name(id=name, ctx=ast.Load()))
            rep.check(v == want, R2, site(name, un), repr(v), f"{name} == {want!r}")
        fn = model.func(un, "b64s_encode")
        rep.check(returns(fn)[0].endswith("b2a_base64(data).rstrip(_BASE64_STRIP)"), R2, site("b64s_encode", un), returns(fn)[0], "encode: standard base64, padding and newline stripped")
        fn = model.func(un, "b64s_decode")
        offvar = "off" if un == BIN else "offset"
        t = qtext(fn)
        i2 = find_if(fn, f"{offvar} == 2")
        i3 = find_if(fn, f"{offvar} == 3")
        ok = bool(i2) and [ast.unparse(x) for x in i2[0].body] == ["data += _BASE64_PAD2"] and bool(i3) and [ast.unparse(x) for x in i3[0].body] == ["data += _BASE64_PAD1"] \
            and "raise ValueError('invalid base64 input')" in t
        rep.check(ok, R2, site("b64s_decode", un), "2 -> '==', 3 -> '=', 1 -> ValueError", "missing padding is restored by length mod 4; length 1 mod 4 raises ValueError",
                  witness="unpadded base64 of some lengths fails to decode or decodes with the wrong padding")
        rep.check((f"{offvar} = len(data) & 3" in t) or (f"{offvar} = len(data) % 4" in t), R2, site("b64s_decode", un), "len mod 4", "offset = len mod 4")
        # binascii.a2b_base64() in its default mode *skips* bytes outside the alphabet and stops at the first complete '=' group, so the
        # helper must reject such input itself (or ask for strict_mode) before handing it over
        a2b = [c for c in walk_no_nested(fn) if isinstance(c, ast.Call) and ast.unparse(c.func).split(".")[-1] == "a2b_base64"]
        strict = any(k.arg == "strict_mode" and ast.unparse(k.value) == "True" for c in a2b for k in c.keywords)
        guard = [n for n in walk_no_nested(fn) if isinstance(n, ast.If) and n.body and isinstance(n.body[-1], ast.Raise) and ("translate(None" in ast.unparse(n.test) or "not in" in ast.unparse(n.test) or "fullmatch" in ast.unparse(n.test))
                 and a2b and n.lineno < a2b[0].lineno]
        rep.check(len(a2b) == 1 and (strict or bool(guard)), R2, site("b64s_decode", un) + " alphabet", "a2b_base64(data)  # non-strict: skips foreign bytes, ignores data after '='",
                  "bytes outside the base64 alphabet (and data after a padding group) are refused, not skipped",
                  witness="b64s_decode(b'YW@@@@Jj') == b64s_decode(b'YWJj') == b'abc': pbkdf2_sha256.verify() accepts a hash whose salt field was altered with junk characters")
        # ... and the alphabet the guard admits is exactly the one the decoder reads: the 64 symbols of RFC 4648 section 4
        std = b"ABCDEFGHIJKLMNOPQRSTUVWXYZabcdefghijklmnopqrstuvwxyz0123456789+/"
        for g in guard:
            for c in ast.walk(g.test):
                if isinstance(c, ast.Call) and isinstance(c.func, ast.Attribute) and c.func.attr == "translate" and len(c.args) == 2 and ast.unparse(c.args[0]) == "None":
                    v = model.fold(u, c.args[1])
                    ok = isinstance(v, bytes) and len(v) == 64 and set(v) == set(std)
                    rep.check(ok, R2, site("b64s_decode", un) + " admitted alphabet", repr(v)[:90], "the guard admits exactly the 64 symbols a2b_base64 decodes (A-Z a-z 0-9 + /)",
                              witness="with './' in place of '+/' every salt whose base64 holds '+' is refused: libpass pbkdf2 verify() raises TypeError for a hash its own hash() produced")
        fn = model.func(un, "ab64_encode")
        rep.check(returns(fn) == ["b64s_encode(data).replace(b'+', b'.')"], R2, site("ab64_encode", un), "; ".join(returns(fn)), "ab64 encode = base64 with '+' replaced by '.'",
                  witness="pbkdf2 hashes contain '+' / the wrong character is replaced")
        fn = model.func(un, "ab64_decode")
        last = fn.body[-1]
        ok = isinstance(last, ast.Return) and ast.unparse(last.value) == "b64s_decode(data.replace(b'.', b'+'))"
        rep.check(ok, R2, site("ab64_decode", un), ast.unparse(last)[:80], "ab64 decode translates '.' back to '+' on the common path (text input is encoded to bytes first)",
                  witness="salts / digests containing '.' are decoded wrongly (or only for one input type): verify() fails for ~29% of random salts")
        enc = [n for n in walk_no_nested(fn) if isinstance(n, ast.If) and ast.unparse(n.test) == "isinstance(data, str)"]
        rep.check(len(enc) == 1 and "data = data.encode('ascii')" in qtext(enc[0]), R2, site("ab64_decode", un), "str -> ascii bytes", "text input is converted, then handled like bytes")
    # base32
    fn = model.func(BIN, "b32decode")
    t = qtext(fn)
    tr = [n for n in walk_no_nested(fn) if isinstance(n, ast.Call) and isinstance(n.func, ast.Attribute) and n.func.attr == "translate"]
    ok = len(tr) == 1 and model.unit(BIN).enclosing(tr[0], ast.If) is None
    rep.check(ok, R2, site("b32decode"), ast.unparse(tr[0])[:50] if tr else "<none>", "typo correction applies to text and bytes input alike",
              witness="bytes keys with a mistyped 0/8 are refused although text keys are repaired")
    # the typo table is built by compile_byte_translation(): every entry of the mapping lands in the table
    cb = model.func(BIN, "compile_byte_translation")
    ub = model.unit(BIN)
    stores = [n for n in walk_no_nested(cb) if isinstance(n, ast.Subscript) and isinstance(n.ctx, ast.Store) and ast.unparse(n.value) == "target"]
    loops = [n for n in walk_no_nested(cb) if isinstance(n, ast.For) and ast.unparse(n.iter) == "mapping.items()"]
    ok = len(stores) == 1 and len(loops) == 1 and any(stores[0] is x for x in ast.walk(loops[0])) and not any(stores[0] is x for st in loops[0].orelse for x in ast.walk(st)) \
        and isinstance(loops[0].target, ast.Tuple) and [ast.unparse(e) for e in loops[0].target.elts] == [ast.unparse(stores[0].slice), ast.unparse(ub.parent(stores[0]).value)]
    rep.check(ok, R2, site("compile_byte_translation") + " (b32 typo table)", f"{len(stores)} store(s) to target[...], inside the mapping loop: {ok}",
              "each (key, value) of the mapping is written to the table inside the loop over mapping.items()",
              witness="only the last entry is applied: b32decode('8...') raises 'Non-base32 digit found' although 8 -> B is a documented repair")
    rep.check(returns(cb) == ["B_EMPTY.join(target)"], R2, site("compile_byte_translation") + " (b32 typo table)", "; ".join(returns(cb)), "the table is the joined target list")
    rep.check("remainder = len(source) & 7" in t and "source += _b32_decode_pad[:-remainder]" in t, R2, site("b32decode"), "pad to multiple of 8", "padding restored to a multiple of 8")
    v = model.fold(model.unit(BIN), ast.Name(id="_b32_decode_pad", ctx=ast.Load()))
    rep.check(v == b"=" * 8, R2, site("_b32_decode_pad"), repr(v), "pad source is 8 '='")
    rep.check(returns(fn) == ["_b32decode(source, True)"], R2, site("b32decode"), "; ".join(returns(fn)), "decoding is case-insensitive (casefold=True)")
    fn = model.func(BIN, "b32encode")
    rep.check(qtext(fn).loose("rstrip(B_EQUAL)"), R2, site("b32encode"), "strip '='", "encode strips padding")


# ----------------------------------------------------------------------------- copies
def rule_copies(model, rep):
    R = "C12.g-libpass-copies"
    for name in ("_encode_bytes_big", "_encode_bytes_little"):
        a = model.func(BIN, "Base64Engine." + name)
        b = model.func(LBIN, name)
        da = _norm_body(a)
        db = _norm_body(b)
        rep.check(da == db, R, site(name, LBIN), f"{len(db)} statements", f"libpass copy of {name} is statement-for-statement the passlib routine",
                  witness="libpass sha-crypt digests are encoded differently from passlib's: hashes do not interoperate")
    for name in ("b64s_encode", "ab64_encode", "ab64_decode"):
        a = model.func(BIN, name)
        b = model.func(LDEP, name)
        rep.check(_norm_body(a, drop_try=True) == _norm_body(b, drop_try=True), R, site(name, LDEP), name, f"libpass copy of {name} equals passlib's")


def _norm_body(fn, drop_try=False):
    out = []
    for st in fn.body:
        if isinstance(st, ast.Expr) and isinstance(st.value, ast.Constant):
            continue
        t = qtext(st)
        t = t.replace("binascii.", "").replace("_BinAsciiError", "Error")
        out.append(t)
    return out


def run(model, rep):
    rep.explanation = __doc__
    rep.level = "proof"
    rep.trusted_base = ["CPython ast", "pv/bits.py (bit-provenance transfer functions for & | ^ << >> +)", "reference layouts generated in rules/c12.py from the definitions of base64 / hash64"]
    rep.assumptions = ["next_value() yields one byte (8 bits) for encoders and one decoded symbol (6 bits) for decoders, as encode_bytes/decode_bytes construct it (checked by C12.c)"]
    rule_groups(model, rep)
    rule_engine(model, rep)
    rule_alphabets(model, rep)
    rule_copies(model, rep)
    # error mapping: every decode-table lookup turns KeyError into ValueError (rule shared with C08.c)
    from . import c08, shared
    c08.rule_c(model, shared.Renamed(rep, {"C08.c": "C12.h-error-mapping"}))
    # h64 / h64big / bcrypt64 are LazyBase64Engine instances: the tables exist before the engine reports itself initialised (rule shared with C19)
    from . import c19
    c19.rule_a(model, shared.Renamed(rep, {"C19.a": "C12.i-lazy-engine-init"}, "C12.x-", only=lambda s: "LazyBase64Engine" in s))
    # libpass' PHC text codec is a third copy of the unpadded-base64 helper: it must not skip foreign characters either (rule shared with C08.g)
    c08.rule_g(model, shared.Renamed(rep, {"C08.g": "C12.j-lenient-decoders"}, "C12.x-", only=lambda s: s.startswith("libpass")))
