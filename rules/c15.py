"""C15 -- a TOTP configuration survives every serialisation.

Decided: writer and reader tables agree -- every key to_dict() writes is consumed by
_adapt_dict_kwds()/the constructor under the same name, each optional field is written by its own
independent guard; URI parameters written by to_uri()/_to_uri_params() are the ones
_adapt_uri_params() reads; the encrypted-key record keys v,c,t,s,k are the ones decrypt_key() reads;
label/issuer are quoted exactly once on write and unquoted exactly once on read (parse_qsl already
unquotes query values); the path label takes part in duplicate detection; conflicting / missing /
unknown items raise ValueError; default elision agrees between writer and reader (recorded finding F12).
Not decided: quoting of arbitrary text inside urllib, AES itself."""
from __future__ import annotations

import ast

from pv.q import text as qtext
from pv.model import AnalysisError, walk_no_nested, params, UNKNOWN
from pv.q import has_stmt, has_if, find_if, returns, body_texts

T = "passlib.totp"
RFC_DEFAULTS = {"alg": "sha1", "digits": 6, "period": 30}


def site(f):
    return f"{T}:{f}"


def rule_dict(model, rep):
    R = "C15.a-dict-roundtrip"
    fn = model.func(T, "TOTP.to_dict")
    s = site("TOTP.to_dict")
    # keys written
    written = {}
    for n in walk_no_nested(fn):
        if isinstance(n, ast.Assign) and isinstance(n.targets[0], ast.Subscript) and ast.unparse(n.targets[0].value) == "state":
            k = model.fold(model.unit(T), n.targets[0].slice)
            written[k] = n
    init = [n for n in fn.body if isinstance(n, ast.Assign) and ast.unparse(n.targets[0]) == "state"]
    if init and isinstance(init[0].value, ast.Call):
        for k in init[0].value.keywords:
            written[k.arg] = init[0]
    ctor = model.func(T, "TOTP.__init__")
    cparams = set(params(ctor))
    adapt = model.func(T, "TOTP._adapt_dict_kwds")
    at = ast.unparse(adapt)
    consumed_by_adapter = {"v", "type", "enckey", "last_counter"}
    for k in sorted(written):
        ok = k in cparams or k in consumed_by_adapter
        rep.check(ok, R, s, f"state[{k!r}]", f"key `{k}` written by to_dict() is a constructor keyword or handled by _adapt_dict_kwds()",
                  witness=f"from_dict(to_dict()) raises TypeError (unexpected keyword {k!r}) or silently drops the field")
    rep.check(set(written) >= {"v", "type", "alg", "digits", "period", "label", "issuer", "key", "enckey"}, R, s, str(sorted(written)), "all nine fields have a writer")
    # each optional field has its own top-level `if` (no elif chaining)
    for fld in ("alg", "digits", "period", "label"):
        n = written.get(fld)
        if n is None:
            continue
        par = model.unit(T).parent(n)
        ok = isinstance(par, ast.If) and par in fn.body and n in par.body
        rep.check(ok, R, s, f"if {ast.unparse(par.test) if isinstance(par, ast.If) else '?'}: state[{fld!r}] = ...",
                  f"`{fld}` is written under its own independent top-level condition",
                  witness=f"`{fld}` is dropped whenever an earlier optional field was written (if/elif chain): e.g. digits=8, period=60 reloads with period 30")
        if ok:
            rep.check(ast.unparse(n.value) == f"self.{fld}", R, s, ast.unparse(n), f"state[{fld!r}] carries self.{fld}")
    # adapter facts
    # the record type is checked by a statement that survives `python -O`; record data is never validated by `assert`
    typed = [st for st in adapt.body if isinstance(st, ast.Expr) and isinstance(st.value, ast.Call) and ast.unparse(st.value) == "cls._check_otp_type(type)"]
    asserts = [ast.unparse(a.test) for a in walk_no_nested(adapt) if isinstance(a, ast.Assert)]
    rep.check(len(typed) == 1 and not asserts, R, site("TOTP._adapt_dict_kwds") + " no assert", ("assert " + "; assert ".join(asserts)) if asserts else "cls._check_otp_type(type) as a statement",
              "the record type is checked unconditionally and inconsistent records (a plain `key` next to `enckey`) are refused with ValueError -- an assert is AssertionError, or nothing under -O",
              witness="from_dict({'v':1,'type':'totp','key':K,'enckey':{...}}) raises AssertionError; under python -O from_dict({'v':1,'type':'bogus','key':K}) is accepted")
    # version window, decided over an ordering abstraction (min=2, max=4) instead of the text of the test: missing, zero, out-of-window and
    # not-a-number versions are refused, every version inside the window is accepted
    vif = [n for n in adapt.body if isinstance(n, ast.If) and "ver" in ast.unparse(n.test) and "json_version" in ast.unparse(n.test) and n.body and isinstance(n.body[-1], ast.Raise)]

    def _ev(e, env):
        import operator as op
        OPS = {ast.Lt: op.lt, ast.LtE: op.le, ast.Gt: op.gt, ast.GtE: op.ge, ast.Eq: op.eq, ast.NotEq: op.ne}
        if isinstance(e, ast.BoolOp):
            vals = [_ev(v, env) for v in e.values]
            return all(vals) if isinstance(e.op, ast.And) else any(vals)
        if isinstance(e, ast.UnaryOp) and isinstance(e.op, ast.Not):
            return not _ev(e.operand, env)
        if isinstance(e, ast.Compare):
            left = _ev(e.left, env)
            for o, c in zip(e.ops, e.comparators):
                right = _ev(c, env)
                if isinstance(o, (ast.Is, ast.IsNot)):
                    r = (left is right) if isinstance(o, ast.Is) else (left is not right)
                elif type(o) in OPS:
                    r = OPS[type(o)](left, right)
                else:
                    raise ValueError(ast.unparse(e))
                if not r:
                    return False
                left = right
            return True
        t = ast.unparse(e)
        if t in env:
            return env[t]
        if isinstance(e, ast.Constant):
            return e.value
        raise ValueError(t)
    if len(vif) != 1:
        rep.undecided(R, site("TOTP._adapt_dict_kwds") + " version window", f"{len(vif)} raising tests on the version")
    else:
        want = {0: True, 1: True, 2: False, 3: False, 4: False, 5: True, float("nan"): True}
        try:
            wrong = []
            for v, rej in want.items():
                try:
                    got = bool(_ev(vif[0].test, {"ver": v, "cls.min_json_version": 2, "cls.json_version": 4}))
                except TypeError:
                    got = True
                if got != rej:
                    wrong.append(repr(v))
            rep.check(not wrong, R, site("TOTP._adapt_dict_kwds") + " version window", f"`{ast.unparse(vif[0].test)}` decides version(s) {', '.join(wrong)} wrongly (window 2..4)" if wrong else "window decided correctly",
                      "a missing, zero, out-of-window or not-a-number version is refused; versions inside the window are accepted",
                      witness="TOTP.from_json('{\"v\":NaN,\"type\":\"totp\",\"key\":\"JBSWY3DPEHPK3PXP\"}') is accepted: NaN is neither below the minimum nor above the maximum")
        except ValueError as e:
            rep.undecided(R, site("TOTP._adapt_dict_kwds") + " version window", f"test is not a pure comparison: {e}")
    rep.check("kwds.update(key=kwds.pop('enckey'), format='encrypted')" in at, R, site("TOTP._adapt_dict_kwds"), "enckey -> key, format='encrypted'", "encrypted keys are routed to the decrypting setter")
    rep.check(has_if(adapt, "'key' not in kwds"), R, site("TOTP._adapt_dict_kwds"), "missing key -> ValueError", "a record without key material is refused")
    rep.check(returns(model.func(T, "TOTP._dict_parse_error")) == ["ValueError(f'Invalid totp data: {reason}')"], R, site("TOTP._dict_parse_error"), "ValueError", "dict errors are ValueErrors")
    fd = model.func(T, "TOTP.from_dict")
    rep.check(has_if(fd, "not isinstance(source, dict) or 'type' not in source") and returns(fd) == ["cls(**cls._adapt_dict_kwds(**source))"], R, site("TOTP.from_dict"),
              "; ".join(returns(fd)), "from_dict adapts, then constructs")
    rep.check("state['key'] = self.base32_key" in qtext(fn) and "state['enckey'] = self.encrypted_key" in qtext(fn), R, s, "key / enckey", "key is written as base32 text or as the encrypted record")
    # key format default: constructor default format is base32 (what to_dict writes)
    a = ctor.args
    dflt = {ar.arg: ast.unparse(d) for ar, d in zip(a.args[-len(a.defaults):], a.defaults)}
    rep.check(dflt.get("format") == "'base32'", R, site("TOTP.__init__"), f"format={dflt.get('format')}", "plain `key` values are read as base32, the form to_dict() writes")
    tj = model.func(T, "TOTP.to_json")
    rep.check("state = self.to_dict(encrypt=encrypt)" in qtext(tj) and "json.dumps(state" in qtext(tj), R, site("TOTP.to_json"), "json of to_dict", "JSON is the dict form")
    fj = model.func(T, "TOTP.from_json")
    rep.check(returns(fj) == ["cls.from_dict(json.loads(source))"], R, site("TOTP.from_json"), "; ".join(returns(fj)), "from_json = from_dict(json.loads)")


def rule_elision(model, rep):
    """a field omitted when equal to constant K must default to K on load (F12)"""
    R = "C15.b-default-elision"
    unit = model.unit(T)
    for q in ("TOTP.to_dict", "TOTP._to_uri_params"):
        fn = model.func(T, q)
        seen = set()
        for n in walk_no_nested(fn):
            if isinstance(n, ast.If) and isinstance(n.test, ast.Compare) and len(n.test.ops) == 1 \
                    and isinstance(n.test.left, ast.Attribute) and ast.unparse(n.test.left.value) == "self" and n.test.left.attr in RFC_DEFAULTS:
                fld = n.test.left.attr
                seen.add(fld)
                if not isinstance(n.test.ops[0], ast.NotEq):
                    rep.violation(R + "-test", site(q), ast.unparse(n.test), f"`{fld}` is written unless it *equals* the default; any other comparison drops legal values that differ from the default",
                                  witness=f"TOTP(key, {fld}=<a value on the other side of the comparison>).to_dict() omits `{fld}`; the object reloads with the default {RFC_DEFAULTS[fld]!r}")
                    continue
                rep.hold(R + "-test", site(q), f"{fld}: elided iff equal")
                k = model.fold(unit, n.test.comparators[0])
                cls_default = model.class_const((T, "TOTP"), fld)
                # the reader's default is the *class attribute* (rebindable through using()), the writer elides a literal
                literal = isinstance(n.test.comparators[0], ast.Constant)
                if literal:
                    rep.check(k == RFC_DEFAULTS[fld] and cls_default == k, R, site(q), f"if self.{fld} != {k!r}: write",
                              f"the elided value equals the stock class default and the RFC default ({RFC_DEFAULTS[fld]!r})",
                              witness=f"a stock TOTP object with {fld}={k!r} is written without the field and reloads with another value")
                    rep.violation(R, site(q), f"self.{fld} != {k!r}  # reader defaults to cls.{fld}, which using({fld}=...) rebinds",
                                  f"`{fld}` is omitted when it equals the literal {k!r}, but the loader fills a missing `{fld}` from the class attribute that TOTP.using() can rebind",
                                  witness=f"T = TOTP.using({fld}={'8' if fld=='digits' else ('60' if fld=='period' else repr('sha256'))}); T.from_source(T(key, {fld}={k!r}).to_dict()) "
                                          f"has {fld} != {k!r}: a different code generator after the round trip")
                elif q == "TOTP._to_uri_params":
                    # the otpauth:// key-URI format is read by third-party authenticator apps, which assume sha1 / 6 / 30 for an absent parameter
                    rep.violation(R, site(q), f"self.{fld} != {ast.unparse(n.test.comparators[0])}  # not the key-URI default {RFC_DEFAULTS[fld]!r}",
                                  f"`{fld}` is left out of the URI when it equals something other than the format's own default ({RFC_DEFAULTS[fld]!r})",
                                  witness=f"T = TOTP.using({fld}=<non-default>); T(key).to_uri(label) carries no `{fld}`; TOTP.from_source(uri) (or any authenticator app) rebuilds {RFC_DEFAULTS[fld]!r}: different codes")
                else:
                    rep.hold(R, site(q), f"{fld} compared with {ast.unparse(n.test.comparators[0])}")
        if seen != set(RFC_DEFAULTS):
            rep.undecided(R, site(q), f"elision guards found for {sorted(seen)}, expected {sorted(RFC_DEFAULTS)}")
    rep.minimum(R, 6)


def rule_uri(model, rep):
    R = "C15.c-uri-roundtrip"
    fn = model.func(T, "TOTP._to_uri_params")
    written = []
    for n in walk_no_nested(fn):
        if isinstance(n, ast.Call) and ast.unparse(n.func) == "args.append" and isinstance(n.args[0], ast.Tuple):
            written.append(model.fold(model.unit(T), n.args[0].elts[0]))
    init = [n for n in fn.body if isinstance(n, ast.Assign) and ast.unparse(n.targets[0]) == "args"]
    if init:
        for e in init[0].value.elts:
            written.append(model.fold(model.unit(T), e.elts[0]))
    tu = model.func(T, "TOTP.to_uri")
    if "params.append(('issuer', issuer))" in qtext(tu):
        written.append("issuer")
    ad = model.func(T, "TOTP._adapt_uri_params")
    read = set(params(ad)) - {"cls", "label"}
    rep.check(set(written) == {"secret", "algorithm", "digits", "period", "issuer"}, R, site("TOTP._to_uri_params"), str(sorted(written)), "URI writes secret, algorithm, digits, period (+issuer)")
    for k in sorted(set(written)):
        rep.check(k in read, R, site("TOTP._adapt_uri_params"), k, f"URI parameter `{k}` written by to_uri() is read by name in _adapt_uri_params()",
                  witness=f"from_uri(to_uri()) ignores `{k}` (falls into **extra with a warning)")
    at = ast.unparse(ad)
    rep.check("kwds = dict(label=label, issuer=issuer, key=secret, format='base32')" in at, R, site("TOTP._adapt_uri_params"), "secret -> key (base32)", "the secret parameter is the base32 key")
    rep.check("kwds['digits'] = cls._uri_parse_int(digits, 'digits')" in at and "kwds['period'] = cls._uri_parse_int(period, 'period')" in at and "kwds['alg'] = algorithm" in at, R,
              site("TOTP._adapt_uri_params"), "digits/period ints, algorithm -> alg", "numeric parameters are parsed as integers; algorithm maps to alg")
    rep.check(has_if(ad, "not secret"), R, site("TOTP._adapt_uri_params"), "missing secret -> ValueError", "a URI without secret is refused")
    # quoting: label and issuer quoted with safe='@' in the path; query values quoted with safe=''
    tt = ast.unparse(tu)
    rep.check("label = quote(label, '@')" in tt and "label = '{}:{}'.format(quote(issuer, '@'), label)" in tt, R, site("TOTP.to_uri"), "quote(label,'@'), quote(issuer,'@')", "label and issuer are percent-quoted in the path")
    rep.check("'{}={}'.format(key, quote(value, ''))" in tt, R, site("TOTP.to_uri"), "quote(value, '')", "every query value is percent-quoted with no safe characters",
              witness="an issuer containing '&' or '=' breaks the query string")
    rep.check("self._check_label(label)" in tt and "self._check_issuer(issuer)" in tt, R, site("TOTP.to_uri"), "':' refused", "':' in label/issuer is refused (it separates them)")
    # reader: path unquoted once; query values come already unquoted from parse_qsl
    fp = model.func(T, "TOTP._from_parsed_uri")
    ft = ast.unparse(fp)
    unq = [ast.unparse(c) for c in walk_no_nested(fp) if isinstance(c, ast.Call) and ast.unparse(c.func).split(".")[-1] in ("unquote", "unquote_plus", "unquote_to_bytes")]
    rep.check("label = unquote(label[1:])" in ft and unq == ["unquote(label[1:])"], R, site("TOTP._from_parsed_uri"), "; ".join(unq) or "<no unquote>",
              "the path label is unquoted exactly once (the writer quotes once; query values arrive decoded from parse_qsl)",
              witness="a label containing a literal '%41' comes back as 'A' after from_uri(to_uri()); a label '%20' is refused as missing")
    # the public entry point takes text or bytes: it converts before handing the string to urlparse()
    fu = model.func(T, "TOTP.from_uri")
    first = [st for st in fu.body if not (isinstance(st, ast.Expr) and isinstance(st.value, ast.Constant))][:1]
    ok = bool(first) and isinstance(first[0], ast.Assign) and ast.unparse(first[0].targets[0]) == "uri" and ast.unparse(first[0].value).startswith("to_unicode(uri")
    rep.check(ok, R, site("TOTP.from_uri") + " text or bytes", ast.unparse(first[0])[:80] if first else "<empty>", "from_uri() converts its argument to text first",
              witness="TOTP.from_uri(otp.to_uri().encode()) is refused with 'wrong uri scheme' (urlparse of bytes yields bytes components) while from_source(bytes) accepts it")
    loop = [n for n in walk_no_nested(fp) if isinstance(n, ast.For) and qtext(n.iter).loose("parse_qsl(result.query")]
    # blank values must be kept, otherwise `secret=&secret=K` or `issuer=` next to an issuer prefix slip past the duplicate / conflict checks
    pq = [c for n in loop for c in ast.walk(n.iter) if isinstance(c, ast.Call) and ast.unparse(c.func) == "parse_qsl"]
    kb = bool(pq) and any(k.arg == "keep_blank_values" and ast.unparse(k.value) == "True" for k in pq[0].keywords)
    rep.check(kb, R, site("TOTP._from_parsed_uri") + " blank values", ast.unparse(pq[0]) if pq else "<none>", "the query is split with keep_blank_values=True, so a parameter repeated with an empty value is still seen as a duplicate",
              witness="from_uri('otpauth://totp/a?secret=&secret=K') is accepted although `secret` occurs twice; '...:a?secret=K&issuer=' ignores the conflicting empty issuer")
    # incomplete sources are refused with ValueError, never with an assertion
    ad = model.func(T, "TOTP._adapt_uri_params")
    asserts = [ast.unparse(a.test) for a in walk_no_nested(ad) if isinstance(a, ast.Assert)]
    rep.check(not asserts, R, site("TOTP._adapt_uri_params") + " no assert", f"assert {asserts[0]}" if asserts else "no assertion on URI data", "a URI without a usable label is refused with ValueError (an assert is AssertionError, or nothing under -O)",
              witness="from_uri('otpauth://totp/Example:?secret=K&issuer=Example') raises AssertionError; TOTP(key, label=' ', issuer='Example').to_uri() cannot be loaded back")
    init = model.func(T, "TOTP.__init__")
    empty = [n for n in walk_no_nested(init) if isinstance(n, ast.If) and ast.unparse(n.test) in ("not self.key", "len(self.key) == 0") and n.body and isinstance(n.body[-1], ast.Raise) and "ValueError" in ast.unparse(n.body[-1])]
    rep.check(bool(empty), R, site("TOTP.__init__") + " empty key", "if not self.key: raise ValueError" if empty else "decoded key is not checked for emptiness (the size check only warns)",
              "a secret that is empty after separators and padding are stripped is refused like a missing one",
              witness="from_uri('otpauth://totp/alice?secret=%20') / from_dict({'v':1,'type':'totp','key':'----'}) yield an object with key b'' whose own to_uri() output cannot be loaded")
    ok = len(loop) == 1
    if ok:
        lb = [ast.unparse(x) for x in loop[0].body]
        stores = [x for x in lb if x.startswith("params[k] = ")]
        rep.check(stores == ["params[k] = v"], R, site("TOTP._from_parsed_uri"), "; ".join(stores), "query values are stored as parse_qsl returned them (already percent-decoded)",
                  witness="an issuer containing a literal '%25' / '%2F' is decoded twice: 'conflicting issuer identifiers' or a silently altered issuer")
        rep.check(any(x.startswith("if k in params:") and "duplicate parameter" in x for x in lb), R, site("TOTP._from_parsed_uri"), "duplicate -> ValueError", "a repeated parameter is refused")
        # label seeded before the loop so that a query `label=` counts as duplicate
        seed = [i for i, st in enumerate(fp.body) if ast.unparse(st) in ("params = dict(label=label)", "params = {'label': label}")]
        li = fp.body.index(loop[0])
        rep.check(bool(seed) and seed[0] < li, R, site("TOTP._from_parsed_uri"), "params = dict(label=label) before the query loop",
                  "the path label is in the table before the query is read, so a `label=` query parameter is a duplicate",
                  witness="otpauth://totp/alice?secret=..&label=mallory is accepted and one of the labels silently wins")
    else:
        rep.undecided(R, site("TOTP._from_parsed_uri"), "query loop not found")
    rep.check("elif params['issuer'] != issuer:" in ft and "conflicting issuer identifiers" in ft, R, site("TOTP._from_parsed_uri"), "conflicting issuers -> ValueError", "issuer prefix and parameter must agree")
    rep.check("issuer, label = label.split(':')" in ft and "malformed label" in ft, R, site("TOTP._from_parsed_uri"), "issuer:label split", "label prefix is split at ':' (more than one -> ValueError)")
    fu = model.func(T, "TOTP.from_uri")
    rep.check(has_if(fu, "result.scheme != 'otpauth'") and "cls._check_otp_type(result.netloc)" in qtext(fu), R, site("TOTP.from_uri"), "scheme/type checked", "scheme must be otpauth, type totp")
    ct = model.func(T, "TOTP._check_otp_type")
    t = qtext(ct)
    rep.check(t.loose("if type == 'totp':") and t.loose("raise ValueError"), R, site("TOTP._check_otp_type"), "unknown type -> ValueError", "unknown otp types are refused")
    rep.check(returns(model.func(T, "TOTP._uri_parse_error")) == ["ValueError(f'Invalid otpauth uri: {reason}')"], R, site("TOTP._uri_parse_error"), "ValueError", "URI errors are ValueErrors")


def rule_wallet(model, rep):
    R = "C15.d-wallet-record"
    enc = model.func(T, "AppWallet.encrypt_key")
    dec = model.func(T, "AppWallet.decrypt_key")
    rets = [n for n in walk_no_nested(enc) if isinstance(n, ast.Return)]
    keys = {}
    if rets and isinstance(rets[-1].value, ast.Call) and ast.unparse(rets[-1].value.func) == "dict":
        keys = {k.arg: ast.unparse(k.value) for k in rets[-1].value.keywords}
    rep.check(set(keys) == {"v", "c", "t", "s", "k"}, R, site("AppWallet.encrypt_key"), str(keys), "encrypted record has keys v, c, t, s, k")
    dt = ast.unparse(dec)
    for k, use in (("v", "enckey.get('v', None)"), ("t", "enckey['t']"), ("c", "enckey['c']"), ("k", "b32decode(enckey['k'])"), ("s", "b32decode(enckey['s'])")):
        rep.check(use in dt, R, site("AppWallet.decrypt_key"), use, f"record key `{k}` is read back by decrypt_key()", witness="encrypted keys cannot be decrypted / wrong field used")
    rep.check(keys.get("s") == "b32encode(salt)" and keys.get("k") == "b32encode(ckey)" and keys.get("c") == "cost" and keys.get("t") == "tag", R, site("AppWallet.encrypt_key"), str(keys),
              "salt and ciphertext are base32-encoded; cost and tag stored as used")
    rep.check("secret=self.get_secret(tag)" in dt and "salt=b32decode(enckey['s'])" in dt and "cost=cost" in dt, R, site("AppWallet.decrypt_key"), "same secret/salt/cost roles",
              "decryption derives the key from the tagged secret, stored salt and stored cost", witness="decryption uses the default tag instead of the record's tag")
    rep.check("self._cipher_aes_key(key, self.get_secret(tag), salt, cost)" in qtext(enc), R, site("AppWallet.encrypt_key"), "cipher(key, secret, salt, cost)", "encryption argument roles")
    rep.check("if cost != self.encrypt_cost or tag != self.default_tag:" in dt, R, site("AppWallet.decrypt_key"), "needs_recrypt", "old cost / tag marks the object changed")
    rep.check(has_if(dec, "version == 1") and "raise ValueError" in dt, R, site("AppWallet.decrypt_key"), "version checked", "unknown record versions are refused")
    ck = model.func(T, "AppWallet._cipher_aes_key")
    ct = ast.unparse(ck)
    rep.check("pbkdf2_hmac('sha256', secret, salt=salt, rounds=1 << cost, keylen=48)" in ct and "AES(keyiv[:32])" in ct and "CTR(keyiv[32:])" in ct, R, site("AppWallet._cipher_aes_key"),
              "PBKDF2-SHA256 -> 32-byte key + 16-byte IV, AES-CTR", "key/IV derivation and cipher mode as documented")
    init = model.func(T, "AppWallet.__init__")
    it = ast.unparse(init)
    rep.check("default_tag = max(secrets, key=int)" in it and "default_tag = max(secrets)" in it, R, site("AppWallet.__init__"), "default tag = newest", "default tag is the numerically / lexically largest")


from . import c12 as _c12  # noqa: E402
from .shared import Renamed as _Renamed  # noqa: E402


def run(model, rep):
    rep.explanation = __doc__
    rule_dict(model, rep)
    rule_elision(model, rep)
    rule_uri(model, rep)
    rule_wallet(model, rep)
    from . import c13 as _c13
    _c13.rule_key_caches(model, _Renamed(rep, {"C13.e": "C15.g-key-derived-caches"}, "C15.x-"))
    # keys travel as base32 / hex text in every serialisation: the helper codecs are part of the round trip
    _c12.rule_alphabets(model, _Renamed(rep, {"C12.e": "C15.f-codec-alphabets", "C12.f": "C15.f-key-codecs"}, "C15.x-",
                                          only=lambda s: ("b32" in s or "BASE64_CHARS" in s) and not s.startswith("libpass")))
    rep.minimum("C15.f-key-codecs", 5)
