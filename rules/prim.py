"""Rules about the built-in primitives that more than one property depends on (HMAC key preparation,
PBKDF1 loop).  Each caller passes its own rule id."""
from __future__ import annotations

import ast

from pv.q import text as qtext
from pv.model import walk_no_nested, UNKNOWN
from pv.q import has_stmt, find_if, returns

D = "passlib.crypto.digest"


def site(f):
    return f"{D}:{f}"


def rule_hmac(model, rep, R):
    unit = model.unit(D)
    fn = model.func(D, "compile_hmac")
    s = site("compile_hmac")
    # pad tables
    for name, c in (("_TRANS_36", 0x36), ("_TRANS_5C", 0x5C)):
        v = model.fold(unit, ast.Name(id=name, ctx=ast.Load()))
        rep.check(v == bytes(x ^ c for x in range(256)), R, site(name), f"{name} folds to {'the 256-entry xor table' if isinstance(v, bytes) else v!r}",
                  f"{name} is the byte-wise XOR with {c:#x} (RFC 2104 ipad/opad)", witness="HMAC differs from RFC 2104 for every key")
    # key preparation: under which condition is the key replaced by its digest?
    hs = [n for n in walk_no_nested(fn) if isinstance(n, ast.Assign) and ast.unparse(n) == "key = const(key).digest()"]
    if len(hs) != 1:
        rep.undecided(R, s, "statement hashing an over-long key not found")
    else:
        conds = []
        node = hs[0]
        while node is not fn:
            par = unit.parent(node)
            if isinstance(par, ast.If):
                c = _canon_cmp(par.test)
                if c is not None:
                    conds.append(c if node in par.body else _NEG[c])
                else:
                    conds.append("?" + ast.unparse(par.test))
            node = par
        rep.check(conds == [">"], R, s, f"key = H(key) executes when klen {' and klen '.join(conds) or '<always>'} block_size",
                  "a key is replaced by its digest exactly when it is *longer* than the block size (RFC 2104 section 2)",
                  witness="keys of exactly block-size length (64 bytes for SHA-1/SHA-256) are hashed first: HMAC, TOTP tokens and sha1_crypt digests differ from the standard for those keys")
        # zero padding up to the block size must also apply to the hashed key
        blk = unit.parent(hs[0])
        body = blk.body if hs[0] in getattr(blk, "body", []) else blk.orelse
        after = body[body.index(hs[0]) + 1:]
        resync = any(ast.unparse(x) in ("klen = digest_size", "klen = len(key)") for x in after)
        padded_here = any("b'\\x00'" in qtext(x) and ("block_size - digest_size" in qtext(x) or "block_size - len(key)" in qtext(x)) for x in after)
        pads = [n for n in walk_no_nested(fn) if isinstance(n, (ast.AugAssign, ast.Assign)) and qtext(n).loose("b'\\x00'")]
        pad_if = [n for n in walk_no_nested(fn) if isinstance(n, ast.If) and any(x in pads for x in n.body)]
        pad_uses_len = any("len(key)" in qtext(p_.test) for p_ in pad_if)
        reaches_pad = any(p_ in fn.body and blk in fn.body and fn.body.index(blk) < fn.body.index(p_) for p_ in pad_if) if isinstance(blk, ast.If) else False
        ok = padded_here or ((resync or pad_uses_len) and reaches_pad)
        rep.check(ok, R, s, "; ".join(ast.unparse(x) for x in [hs[0]] + after) or ast.unparse(hs[0]),
                  "a hashed key is zero-padded to the block size like any short key (its length for that purpose is the digest size)",
                  witness="a key longer than the block is hashed but not zero-padded to the block size: HMAC differs from RFC 2104 for all long keys")
        for p_ in pad_if:
            c = _canon_cmp(p_.test)
            node = p_
            rep.check(c == "<", R, s, f"if {ast.unparse(p_.test)}: pad", "keys shorter than the block are zero-padded up to it")
            rep.check(any(ast.unparse(x) in ("key += b'\\x00' * (block_size - klen)", "key += b'\\x00' * (block_size - len(key))") for x in p_.body), R, s,
                      "; ".join(ast.unparse(x) for x in p_.body), "padding is block_size - len(key) zero bytes")
        if not pad_if:
            rep.undecided(R, s, "zero-padding statement not found")
    rep.check(has_stmt(fn, "_inner_copy = const(key.translate(_TRANS_36)).copy") and has_stmt(fn, "_outer_copy = const(key.translate(_TRANS_5C)).copy"), R, s,
              "inner = H(key ^ ipad), outer = H(key ^ opad)", "inner pad is 0x36, outer pad 0x5C",
              witness="inner and outer pads swapped: HMAC differs from the RFC for every input")
    # single-shot body
    inner_fn = [n for n in ast.walk(fn) if isinstance(n, ast.FunctionDef) and n.name == "hmac" and n.args.args]
    if inner_fn:
        body = [ast.unparse(x) for x in inner_fn[0].body if not (isinstance(x, ast.Expr) and isinstance(x.value, ast.Constant))]
        rep.check(body == ["inner = _inner_copy()", "inner.update(msg)", "outer = _outer_copy()", "outer.update(inner.digest())", "return outer.digest()"], R, s,
                  " | ".join(body), "hmac(msg) = H(opad-key || H(ipad-key || msg))")
    fin = [n for n in ast.walk(fn) if isinstance(n, ast.FunctionDef) and n.name == "finalize"]
    if fin:
        body = [ast.unparse(x) for x in fin[0].body]
        rep.check(body == ["outer = _outer_copy()", "outer.update(inner.digest())", "return outer.digest()"], R, s, " | ".join(body), "multipart finalize = H(opad-key || inner digest)")
    rep.check(has_stmt(fn, "const, digest_size, block_size = digest_info"), R, s, "const, digest_size, block_size = digest_info", "sizes come from the digest's info record")


_NEG = {">": "<=", "<=": ">", "<": ">=", ">=": "<", "==": "!=", "!=": "=="}
_FLIP = {">": "<", "<": ">", ">=": "<=", "<=": ">=", "==": "==", "!=": "!="}
_OPS = {ast.Gt: ">", ast.Lt: "<", ast.GtE: ">=", ast.LtE: "<=", ast.Eq: "==", ast.NotEq: "!="}


def _canon_cmp(t):
    """canonical operator of a comparison between the key length and block_size, key length on the left"""
    if isinstance(t, ast.UnaryOp) and isinstance(t.op, ast.Not):
        c = _canon_cmp(t.operand)
        return _NEG[c] if c else None
    if not (isinstance(t, ast.Compare) and len(t.ops) == 1 and type(t.ops[0]) in _OPS):
        return None
    l, r = ast.unparse(t.left), ast.unparse(t.comparators[0])
    op = _OPS[type(t.ops[0])]
    if l in ("klen", "len(key)") and r == "block_size":
        return op
    if r in ("klen", "len(key)") and l == "block_size":
        return _FLIP[op]
    return None


def rule_pbkdf(model, rep, R):
    fn = model.func(D, "pbkdf1")
    s = site("pbkdf1")
    t = qtext(fn)
    rep.check(has_stmt(fn, "block = secret + salt"), R, s, "block = secret + salt", "PBKDF1 starts from password || salt")
    loop = [n for n in walk_no_nested(fn) if isinstance(n, ast.For)]
    ok = len(loop) == 1 and ast.unparse(loop[0].iter) == "range(rounds)" and [ast.unparse(x) for x in loop[0].body] == ["block = const(block).digest()"]
    rep.check(ok, R, s, ast.unparse(loop[0])[:80] if loop else "<none>", "digest applied `rounds` times", witness="PBKDF1 iterates rounds±1 times")
    rep.check(returns(fn) == ["block[:keylen]"], R, s, "; ".join(returns(fn)), "output = first keylen bytes")
    rep.check(len(find_if(fn, "keylen > digest_size")) == 1 and len(find_if(fn, "rounds < 1")) == 1, R, s, "bounds", "keylen <= digest size, rounds >= 1 enforced")
    fn = model.func(D, "pbkdf2_hmac")
    rep.check(returns(fn) == ["hashlib.pbkdf2_hmac(digest_info.name, secret, salt, rounds, keylen)"], R, site("pbkdf2_hmac"), "; ".join(returns(fn)),
              "PBKDF2 delegates to hashlib with (name, secret, salt, rounds, keylen) in that order",
              witness="salt and secret (or rounds and keylen) swapped")
    rep.check(has_stmt(fn, "secret = to_bytes(secret, param='secret')") and has_stmt(fn, "salt = to_bytes(salt, param='salt')"), R, site("pbkdf2_hmac"),
              "to_bytes(secret), to_bytes(salt)", "text inputs are UTF-8 encoded")
