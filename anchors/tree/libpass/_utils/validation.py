def validate_rounds(rounds: int, min: int, max: int) -> None:
    if rounds < min or rounds > max:
        msg = f"rounds must be between {min} - {max}"
        raise ValueError(msg)
