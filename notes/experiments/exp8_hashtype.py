"""Throw-away experiment for C08.b: in functions taking a raw `hash`/`config` parameter,
which str-specific operations happen before the parameter is normalised?  Source-order
approximation (the engine uses the CFG)."""
import ast, os
NORMAL = {"to_unicode", "to_native_str", "to_unicode_for_identify", "to_bytes", "as_str", "as_bytes", "uh.to_unicode_for_identify"}
for dp, dn, fn in os.walk("/repo"):
    if not ("/passlib" in dp or "/libpass" in dp) or "/tests" in dp or "/ext" in dp: continue
    for f in sorted(fn):
        if not f.endswith(".py"): continue
        p = os.path.join(dp, f); t = ast.parse(open(p).read())
        for fnode in ast.walk(t):
            if not isinstance(fnode, ast.FunctionDef): continue
            params = [a.arg for a in fnode.args.args]
            for hp in ("hash", "config"):
                if hp not in params: continue
                # walk statements in order; stop at first normalisation / isinstance test of hp
                events = []
                class V(ast.NodeVisitor):
                    done = False
                    def visit_Assign(self, n):
                        self.generic_visit(n)
                        if any(isinstance(tg, ast.Name) and tg.id == hp for tg in n.targets):
                            self.done = True
                    def visit_Call(self, n):
                        fname = ast.unparse(n.func)
                        if self.done: return
                        if fname == "isinstance" and isinstance(n.args[0], ast.Name) and n.args[0].id == hp:
                            self.done = True; return
                        if isinstance(n.func, ast.Attribute) and isinstance(n.func.value, ast.Name) and n.func.value.id == hp:
                            events.append((n.lineno, f"{hp}.{n.func.attr}({', '.join(ast.unparse(a)[:20] for a in n.args)})"))
                        self.generic_visit(n)
                    def visit_Subscript(self, n):
                        if not self.done and isinstance(n.value, ast.Name) and n.value.id == hp:
                            events.append((n.lineno, ast.unparse(n)))
                        self.generic_visit(n)
                    def visit_Compare(self, n):
                        if not self.done and any(isinstance(x, ast.Name) and x.id == hp for x in [n.left] + n.comparators) \
                           and not all(isinstance(c, ast.Constant) and c.value is None for c in n.comparators):
                            events.append((n.lineno, ast.unparse(n)))
                        self.generic_visit(n)
                v = V()
                for st in fnode.body: v.visit(st)
                if events:
                    print(f"{p[6:]}:{fnode.lineno} {fnode.name}({hp}): " + "; ".join(e for _, e in events))
