"""Constant folder over the program model.

Folds literals, containers, arithmetic, slicing, a whitelist of pure builtins / str / bytes /
list methods, comprehensions over folded iterables, names bound exactly once at module or
class level (across units).  Anything else is UNKNOWN -- never guessed."""
from __future__ import annotations

import ast
import operator

from .model import UNKNOWN, AnalysisError

_BIN = {
    ast.Add: operator.add, ast.Sub: operator.sub, ast.Mult: operator.mul, ast.Mod: operator.mod,
    ast.LShift: operator.lshift, ast.RShift: operator.rshift, ast.BitAnd: operator.and_,
    ast.BitOr: operator.or_, ast.BitXor: operator.xor, ast.FloorDiv: operator.floordiv,
    ast.Pow: operator.pow, ast.Div: operator.truediv,
}
_UN = {ast.USub: operator.neg, ast.Invert: operator.invert, ast.Not: operator.not_, ast.UAdd: operator.pos}
_CMP = {
    ast.Eq: operator.eq, ast.NotEq: operator.ne, ast.Lt: operator.lt, ast.LtE: operator.le,
    ast.Gt: operator.gt, ast.GtE: operator.ge, ast.In: lambda a, b: a in b,
    ast.NotIn: lambda a, b: a not in b, ast.Is: operator.is_, ast.IsNot: operator.is_not,
}
_PURE_BUILTINS = {
    "len": len, "range": range, "tuple": tuple, "list": list, "set": set, "frozenset": frozenset,
    "dict": dict, "sorted": sorted, "min": min, "max": max, "sum": sum, "int": int, "str": str,
    "bytes": bytes, "bool": bool, "abs": abs, "reversed": lambda x: list(reversed(x)),
    "enumerate": lambda x, *a: list(enumerate(x, *a)), "zip": lambda *a: list(zip(*a)),
    "chr": chr, "ord": ord, "divmod": divmod, "float": float,
}
_PURE_METHODS = {
    str: {"split", "encode", "upper", "lower", "replace", "join", "strip", "startswith", "endswith",
          "format", "index", "find", "count", "lstrip", "rstrip", "splitlines", "translate", "title"},
    bytes: {"decode", "split", "upper", "lower", "replace", "join", "startswith", "endswith", "index",
            "find", "count", "hex", "translate"},
    tuple: {"index", "count"},
    list: {"index", "count", "copy"},
    dict: {"get", "keys", "values", "items", "copy"},
    set: {"union", "intersection", "difference", "copy"},
    frozenset: {"union", "intersection", "difference", "copy"},
}
MAX_SIZE = 1 << 22


def fold(model, unit, expr, env, cls, owner, depth):
    try:
        return _fold(model, unit, expr, env, cls, owner, depth)
    except AnalysisError:
        raise
    except RecursionError:
        return UNKNOWN
    except Exception:
        return UNKNOWN


def _fold(model, unit, e, env, cls, owner, depth):
    if depth > 40:
        return UNKNOWN
    F = lambda x, env2=None: _fold(model, unit, x, env if env2 is None else env2, cls, owner, depth + 1)
    if isinstance(e, ast.Constant):
        return e.value
    if isinstance(e, (ast.Tuple, ast.List, ast.Set)):
        vals = []
        for x in e.elts:
            if isinstance(x, ast.Starred):
                v = F(x.value)
                if v is UNKNOWN:
                    return UNKNOWN
                vals.extend(v)
            else:
                v = F(x)
                if v is UNKNOWN:
                    return UNKNOWN
                vals.append(v)
        if isinstance(e, ast.Tuple):
            return tuple(vals)
        if isinstance(e, ast.Set):
            return set(vals)
        return vals
    if isinstance(e, ast.Dict):
        out = {}
        for k, v in zip(e.keys, e.values):
            if k is None:
                vv = F(v)
                if vv is UNKNOWN:
                    return UNKNOWN
                out.update(vv)
                continue
            kk, vv = F(k), F(v)
            if kk is UNKNOWN or vv is UNKNOWN:
                return UNKNOWN
            out[kk] = vv
        return out
    if isinstance(e, ast.Name):
        if e.id in env:
            return env[e.id]
        if e.id in ("True", "False", "None"):
            return {"True": True, "False": False, "None": None}[e.id]
        return _fold_global(model, unit, e.id, depth)
    if isinstance(e, ast.Attribute):
        # cls.X / self.X inside a class context
        if isinstance(e.value, ast.Name) and e.value.id in ("cls", "self") and cls is not None and e.value.id not in env:
            return model.class_const(cls, e.attr)
        r = model.resolve(unit, e)
        if r is not None:
            if r[0] == "value":
                return _fold_global(model, model.units[r[1]], r[2], depth)
            if r[0] == "classattr":
                return model.class_const((r[1], r[2]), r[3])
            if r[0] == "ext":
                return _fold_ext(r[1])
        return UNKNOWN
    if isinstance(e, ast.BinOp):
        a, b = F(e.left), F(e.right)
        if a is UNKNOWN or b is UNKNOWN:
            return UNKNOWN
        if isinstance(e.op, ast.Mult) and isinstance(a, (str, bytes, list, tuple)) and isinstance(b, int) and len(a) * max(b, 0) > MAX_SIZE:
            return UNKNOWN
        if isinstance(e.op, (ast.Pow, ast.LShift)) and isinstance(b, int) and b > 4096:
            return UNKNOWN
        return _BIN[type(e.op)](a, b)
    if isinstance(e, ast.UnaryOp):
        a = F(e.operand)
        if a is UNKNOWN:
            return UNKNOWN
        return _UN[type(e.op)](a)
    if isinstance(e, ast.BoolOp):
        vals = [F(x) for x in e.values]
        if any(v is UNKNOWN for v in vals):
            return UNKNOWN
        res = vals[0]
        for v in vals[1:]:
            res = (res and v) if isinstance(e.op, ast.And) else (res or v)
        return res
    if isinstance(e, ast.Compare):
        left = F(e.left)
        if left is UNKNOWN:
            return UNKNOWN
        for op, c in zip(e.ops, e.comparators):
            r = F(c)
            if r is UNKNOWN:
                return UNKNOWN
            if not _CMP[type(op)](left, r):
                return False
            left = r
        return True
    if isinstance(e, ast.IfExp):
        t = F(e.test)
        if t is UNKNOWN:
            return UNKNOWN
        return F(e.body) if t else F(e.orelse)
    if isinstance(e, ast.Subscript):
        v = F(e.value)
        if v is UNKNOWN:
            return UNKNOWN
        if isinstance(e.slice, ast.Slice):
            lo = F(e.slice.lower) if e.slice.lower else None
            hi = F(e.slice.upper) if e.slice.upper else None
            st = F(e.slice.step) if e.slice.step else None
            if UNKNOWN in (lo, hi, st):
                return UNKNOWN
            return v[lo:hi:st]
        i = F(e.slice)
        if i is UNKNOWN:
            return UNKNOWN
        return v[i]
    if isinstance(e, ast.JoinedStr):
        parts = []
        for x in e.values:
            if isinstance(x, ast.Constant):
                parts.append(str(x.value))
            elif isinstance(x, ast.FormattedValue):
                v = F(x.value)
                if v is UNKNOWN:
                    return UNKNOWN
                spec = F(x.format_spec) if x.format_spec else ""
                if spec is UNKNOWN:
                    return UNKNOWN
                if x.conversion == ord("r"):
                    v = repr(v)
                elif x.conversion == ord("s"):
                    v = str(v)
                parts.append(format(v, spec))
        return "".join(parts)
    if isinstance(e, (ast.ListComp, ast.SetComp, ast.GeneratorExp, ast.DictComp)):
        return _fold_comp(model, unit, e, env, cls, owner, depth)
    if isinstance(e, ast.Call):
        return _fold_call(model, unit, e, env, cls, owner, depth)
    if isinstance(e, ast.Starred):
        return UNKNOWN
    return UNKNOWN


def _fold_global(model, unit, name, depth):
    if name in unit.assigns:
        vals = unit.assigns[name]
        if len(vals) != 1:
            # several bindings: accept only when all fold to the same value
            res = [_fold(model, unit, v, {}, None, None, depth + 1) for v in vals]
            if any(r is UNKNOWN for r in res):
                return UNKNOWN
            try:
                if all(r == res[0] for r in res[1:]):
                    return res[0]
            except Exception:
                pass
            return UNKNOWN
        return _fold(model, unit, vals[0], {}, None, None, depth + 1)
    if name in unit.imports:
        m, a = unit.imports[name]
        r = model.resolve_import(m, a)
        if r is not None and r[0] == "value":
            return _fold_global(model, model.units[r[1]], r[2], depth + 1)
        if r is not None and r[0] == "ext":
            return _fold_ext(r[1])
    return UNKNOWN


def _fold_ext(dotted):
    import string
    table = {
        "string.ascii_lowercase": string.ascii_lowercase, "string.ascii_uppercase": string.ascii_uppercase,
        "string.digits": string.digits, "string.ascii_letters": string.ascii_letters,
        "string.hexdigits": string.hexdigits,
    }
    return table.get(dotted, UNKNOWN)


def _fold_comp(model, unit, e, env, cls, owner, depth):
    out = []

    def rec(gi, env2):
        if gi == len(e.generators):
            if isinstance(e, ast.DictComp):
                k = _fold(model, unit, e.key, env2, cls, owner, depth + 1)
                v = _fold(model, unit, e.value, env2, cls, owner, depth + 1)
                if k is UNKNOWN or v is UNKNOWN:
                    raise _Abort
                out.append((k, v))
            else:
                v = _fold(model, unit, e.elt, env2, cls, owner, depth + 1)
                if v is UNKNOWN:
                    raise _Abort
                out.append(v)
            return
        g = e.generators[gi]
        it = _fold(model, unit, g.iter, env2, cls, owner, depth + 1)
        if it is UNKNOWN:
            raise _Abort
        n = 0
        for item in it:
            n += 1
            if n > 100000:
                raise _Abort
            env3 = dict(env2)
            if not _bind_target(g.target, item, env3):
                raise _Abort
            ok = True
            for c in g.ifs:
                cv = _fold(model, unit, c, env3, cls, owner, depth + 1)
                if cv is UNKNOWN:
                    raise _Abort
                if not cv:
                    ok = False
                    break
            if ok:
                rec(gi + 1, env3)

    try:
        rec(0, env)
    except _Abort:
        return UNKNOWN
    if isinstance(e, ast.DictComp):
        return dict(out)
    if isinstance(e, ast.SetComp):
        return set(out)
    return out


class _Abort(Exception):
    pass


def _bind_target(t, v, env):
    if isinstance(t, ast.Name):
        env[t.id] = v
        return True
    if isinstance(t, (ast.Tuple, ast.List)):
        try:
            vs = list(v)
        except Exception:
            return False
        if len(vs) != len(t.elts):
            return False
        return all(_bind_target(a, b, env) for a, b in zip(t.elts, vs))
    return False


def _fold_call(model, unit, e, env, cls, owner, depth):
    F = lambda x: _fold(model, unit, x, env, cls, owner, depth + 1)
    args = []
    for a in e.args:
        if isinstance(a, ast.Starred):
            v = F(a.value)
            if v is UNKNOWN:
                return UNKNOWN
            args.extend(v)
        else:
            v = F(a)
            if v is UNKNOWN:
                return UNKNOWN
            args.append(v)
    kw = {}
    for k in e.keywords:
        v = F(k.value)
        if v is UNKNOWN:
            return UNKNOWN
        if k.arg is None:
            kw.update(v)
        else:
            kw[k.arg] = v
    f = e.func
    if isinstance(f, ast.Name) and f.id in _PURE_BUILTINS and f.id not in env and f.id not in unit.assigns \
            and f.id not in unit.funcs:
        if f.id == "sorted" and "key" in kw:
            return UNKNOWN
        if f.id == "range" and args and any(isinstance(a, int) and abs(a) > MAX_SIZE for a in args):
            return UNKNOWN
        return _PURE_BUILTINS[f.id](*args, **kw)
    if isinstance(f, ast.Name) and f.id == "sorted" and False:
        return UNKNOWN
    if isinstance(f, ast.Attribute):
        # sorted(set(x), key=y.index) handled by caller rules; here pure methods on folded receivers
        recv = F(f.value)
        if recv is not UNKNOWN:
            meths = _PURE_METHODS.get(type(recv))
            if meths and f.attr in meths:
                return getattr(recv, f.attr)(*args, **kw)
        # str.maketrans / bytes.maketrans / bytes.fromhex
        if isinstance(f.value, ast.Name) and f.value.id in ("str", "bytes") and f.attr in ("maketrans", "fromhex"):
            return getattr(str if f.value.id == "str" else bytes, f.attr)(*args, **kw)
    # module-level pure helper functions of the repo that only build constants
    r = model.resolve(unit, f) if isinstance(f, (ast.Name, ast.Attribute)) else None
    if r is not None and r[0] == "func":
        fn = model.units[r[1]].funcs.get(r[2])
        if fn is not None:
            return _fold_simple_func(model, model.units[r[1]], fn, args, kw, depth)
    if r is not None and r[0] == "ext":
        if r[1] in ("binascii.unhexlify", "binascii.a2b_hex") and len(args) == 1:
            import binascii
            return binascii.unhexlify(args[0])
        if r[1] == "struct.Struct":
            return UNKNOWN
    return UNKNOWN


def _fold_simple_func(model, unit, fn, args, kw, depth):
    """fold a call of a repo function whose body is `return <expr>` (after docstring / asserts)."""
    body = [s for s in fn.body if not (isinstance(s, ast.Expr) and isinstance(s.value, ast.Constant))
            and not isinstance(s, ast.Assert)]
    if len(body) != 1 or not isinstance(body[0], ast.Return) or body[0].value is None:
        return UNKNOWN
    a = fn.args
    if a.vararg or a.kwarg or a.posonlyargs or a.kwonlyargs:
        return UNKNOWN
    names = [x.arg for x in a.args]
    if len(args) > len(names):
        return UNKNOWN
    env = {}
    defaults = a.defaults
    for i, d in enumerate(defaults):
        v = _fold(model, unit, d, {}, None, None, depth + 1)
        if v is UNKNOWN:
            return UNKNOWN
        env[names[len(names) - len(defaults) + i]] = v
    for n, v in zip(names, args):
        env[n] = v
    for k, v in kw.items():
        if k not in names:
            return UNKNOWN
        env[k] = v
    if any(n not in env for n in names):
        return UNKNOWN
    return _fold(model, unit, body[0].value, env, None, None, depth + 1)
