from ._phc import PHC, Param, inspect_phc, phc_b64_decode, phc_b64_encode

__all__ = ["PHC", "inspect_phc", "phc_b64_decode", "phc_b64_encode", "Param"]
