import math
import secrets
import string

DEFAULT_CHARS = string.ascii_letters + string.digits


def generate_salt(length: int, chars: str = DEFAULT_CHARS) -> str:
    return "".join(secrets.choice(chars) for _ in range(length))


def generate_salt_by_entropy(entropy_bits: int, chars: str = DEFAULT_CHARS) -> str:
    length = math.ceil(entropy_bits / math.log2(len(chars)))
    return generate_salt(length=length, chars=chars)
