"""Throw-away experiment: do passlib._raw_sha2_crypt and libpass._sha_crypt unify after
normalisation (assert removal, method-alias resolution, single-def temp inlining,
alpha renaming)?  Nothing is executed."""
import ast, copy, sys

def get(path, name):
    t = ast.parse(open(path).read())
    return [n for n in ast.walk(t) if isinstance(n, ast.FunctionDef) and n.name == name][0]

def strip(body):
    out = []
    for st in body:
        if isinstance(st, ast.Assert): continue
        if isinstance(st, ast.Expr) and isinstance(st.value, ast.Constant): continue
        for f in ("body", "orelse"):
            if hasattr(st, f): setattr(st, f, strip(getattr(st, f)))
        out.append(st)
    return out

class Subst(ast.NodeTransformer):
    def __init__(self, m): self.m = m
    def visit_Name(self, n):
        if isinstance(n.ctx, ast.Load) and n.id in self.m:
            return copy.deepcopy(self.m[n.id])
        return n

def stores(body):
    c = {}
    for st in body:
        for n in ast.walk(st):
            if isinstance(n, ast.Name) and isinstance(n.ctx, ast.Store):
                c[n.id] = c.get(n.id, 0) + 1
            if isinstance(n, ast.AugAssign) and isinstance(n.target, ast.Name):
                c[n.target.id] = c.get(n.target.id, 0) + 1
    return c

def inline(body, cnt=None, m=None):
    """inline single-def temps (any nesting depth) whose RHS is a method alias, len(), or a + of names"""
    cnt = stores(body) if cnt is None else cnt
    m = {} if m is None else m; out = []
    for st in body:
        st = Subst(m).visit(st)
        for f in ("body", "orelse"):
            if hasattr(st, f) and isinstance(getattr(st, f), list):
                setattr(st, f, inline(getattr(st, f), cnt, m))
        if (isinstance(st, ast.Assign) and len(st.targets) == 1 and isinstance(st.targets[0], ast.Name)
                and cnt.get(st.targets[0].id) == 1):
            v = st.value
            simple = (isinstance(v, ast.Attribute) and v.attr == "update") \
                or (isinstance(v, ast.Call) and ast.unparse(v.func) == "len") \
                or (isinstance(v, ast.BinOp) and all(isinstance(x, ast.Name) for x in (v.left, v.right)))
            if simple:
                m[st.targets[0].id] = v
                continue
        out.append(st)
    return out

def flatten_add(e):
    if isinstance(e, ast.BinOp) and isinstance(e.op, ast.Add):
        return flatten_add(e.left) + flatten_add(e.right)
    return [e]
class Assoc(ast.NodeTransformer):
    def visit_BinOp(self, n):
        self.generic_visit(n)
        if isinstance(n.op, ast.Add):
            parts = flatten_add(n)
            e = parts[0]
            for p in parts[1:]: e = ast.BinOp(e, ast.Add(), p)
            return e
        return n

def alpha(body):
    names = {}
    class R(ast.NodeTransformer):
        def visit_Name(self, n):
            if n.id in ("len", "divmod", "repeat_string"): return n
            names.setdefault(n.id, f"v{len(names)}")
            return ast.Name(id=names[n.id], ctx=n.ctx)
        def visit_keyword(self, k): self.generic_visit(k); return k
    return [R().visit(s) for s in body], names

def core(fn, first_target):
    body = strip(copy.deepcopy(fn.body))
    # drop prologue: everything before the assignment to <first_target>
    for i, st in enumerate(body):
        if isinstance(st, ast.Assign) and isinstance(st.targets[0], ast.Name) and st.targets[0].id == first_target:
            return body[i:]
    raise SystemExit("anchor vanished")

a = core(get("/repo/passlib/handlers/sha2_crypt.py", "_raw_sha2_crypt"), "db")
b = core(get("/repo/libpass/hashers/sha_crypt.py", "_sha_crypt"), "initial")
# libpass computes secret_len before 'initial'; passlib computes pwd_len in the prologue: inline by hand-free rule:
pre = {"pwd_len": ast.parse("len(pwd)").body[0].value, "salt_len": ast.parse("len(salt)").body[0].value,
       "secret_len": ast.parse("len(secret)").body[0].value}
a = [Subst(pre).visit(s) for s in a]; b = [Subst(pre).visit(s) for s in b]
a = [Assoc().visit(s) for s in inline(a)]; b = [Assoc().visit(s) for s in inline(b)]
a, na = alpha(a); b, nb = alpha(b)
da = [ast.dump(s) for s in a]; db = [ast.dump(s) for s in b]
print(len(da), len(db))
for i, (x, y) in enumerate(zip(da, db)):
    if x != y:
        print("DIFF at stmt", i); print("  passlib:", ast.unparse(a[i])[:160]); print("  libpass:", ast.unparse(b[i])[:160]); break
else:
    print("unified:", len(da) == len(db))
print({k: v for k, v in list(na.items())[:12]}); print({k: v for k, v in list(nb.items())[:12]})
