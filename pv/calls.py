"""Light call resolution inside a function body: self.m / cls.m / super().m through the concrete class's MRO,
module functions, imported functions, nested defs, `_calc_checksum_backend` -> every backend implementation."""
from __future__ import annotations

import ast

from .model import peel


def resolve_callee(model, unit, fn, cref, f):
    """-> list of (unitname, FunctionDef, cref, bound) or None"""
    m = model
    if isinstance(f, ast.Name):
        # nested def in the current function?
        for n in ast.walk(fn):
            if isinstance(n, ast.FunctionDef) and n.name == f.id and n is not fn:
                return [(unit.name, n, cref, False)]
        r = m.resolve(unit, f)
        if r and r[0] == "func":
            fn = m.units[r[1]].funcs[r[2]]
            # function redefined under try/else (safe_crypt): take the last definition in the module
            defs = [n for n in ast.walk(m.units[r[1]].tree) if isinstance(n, ast.FunctionDef) and n.name == r[2]
                    and m.units[r[1]].enclosing_func(n) is None and m.units[r[1]].enclosing_class(n) is None]
            if defs:
                fn = max(defs, key=lambda d: len(d.body))
            return [(r[1], fn, None, False)]
        return None
    if isinstance(f, ast.Attribute):
        v = f.value
        if isinstance(v, ast.Name) and v.id in ("self", "cls", "mixin_cls") and cref is not None:
            if f.attr == "_calc_checksum_backend":
                out = []
                backends = m.class_const(cref, "backends")
                if isinstance(backends, tuple):
                    for b in backends:
                        o, fn = m.method(cref, "_calc_checksum_" + b, required=False)
                        if fn is not None:
                            out.append((o[0], fn, cref, True))
                return out or None
            o, fn = m.method(cref, f.attr, required=False)
            if fn is not None:
                return [(o[0], fn, cref, "staticmethod" not in peel(fn))]
            return None
        if isinstance(v, ast.Call) and isinstance(v.func, ast.Name) and v.func.id == "super" and cref is not None:
            # next definition after the class that defines the current function
            defcls = unit.enclosing_class(fn)
            mro = m.mro(cref)
            names = [k for k in mro]
            start = 0
            for i, k in enumerate(names):
                if defcls is not None and k == (unit.name, defcls.name):
                    start = i + 1
                    break
            for k in names[start:]:
                if k[0] in m.units and k[1] in m.units[k[0]].classes:
                    mem = m.class_members(k)
                    if f.attr in mem and isinstance(mem[f.attr], ast.FunctionDef):
                        return [(k[0], mem[f.attr], cref, True)]
            return None
        r = m.resolve(unit, f)
        if r and r[0] == "func":
            return [(r[1], m.units[r[1]].funcs[r[2]], None, False)]
        if r and r[0] == "classattr":
            o, fn = m.method((r[1], r[2]), r[3], required=False)
            if fn is not None:
                return [(o[0], fn, (r[1], r[2]), "staticmethod" not in peel(fn))]
    return None


