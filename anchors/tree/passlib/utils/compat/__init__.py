"""passlib.utils.compat - python 2/3 compatibility helpers"""

import logging
import sys
from contextlib import nullcontext
from types import ModuleType
from typing import Callable


def add_doc(obj: object, doc: str) -> None:
    """add docstring to an object"""
    obj.__doc__ = doc


__all__ = [
    # type detection
    ##    'is_mapping',
    "numeric_types",
    "unicode_or_bytes",
    # unicode/bytes types & helpers
    "bascii_to_str",
    "str_to_bascii",
    "join_unicode",
    "join_bytes",
    # context helpers
    "nullcontext",
    # introspection
    "get_method_function",
    "add_doc",
]

# begin accumulating mapping of lazy-loaded attrs,
# 'merged' into module at bottom
_lazy_attrs: dict[str, object] = dict()


#: alias for isinstance() tests to detect any string type
unicode_or_bytes = (str, bytes)

join_unicode = "".join
join_bytes = b"".join


def bascii_to_str(s):
    assert isinstance(s, bytes)
    return s.decode("ascii")


def str_to_bascii(s):
    assert isinstance(s, str)
    return s.encode("ascii")


def iter_byte_chars(s):
    assert isinstance(s, bytes)
    # FIXME: there has to be a better way to do this
    return (bytes([c]) for c in s)


# TODO: move docstrings to funcs...
add_doc(bascii_to_str, "helper to convert ascii bytes -> native str")
add_doc(str_to_bascii, "helper to convert ascii native str -> bytes")

# byte_elem_value -- function to convert byte element to integer -- a noop under PY3

add_doc(iter_byte_chars, "iterate over byte string as sequence of 1-byte strings")

numeric_types = (int, float)


def get_method_function(func: Callable) -> Callable:
    """given (potential) method, return underlying function"""
    return getattr(func, "__func__", func)


def _import_object(source):
    """helper to import object from module; accept format `path.to.object`"""
    modname, modattr = source.rsplit(".", 1)
    mod = __import__(modname, fromlist=[modattr], level=0)
    return getattr(mod, modattr)


class _LazyOverlayModule(ModuleType):
    """proxy module which overlays original module,
    and lazily imports specified attributes.

    this is mainly used to prevent importing of resources
    that are only needed by certain password hashes,
    yet allow them to be imported from a single location.

    used by :mod:`passlib.utils`, :mod:`passlib.crypto`,
    and :mod:`passlib.utils.compat`.
    """

    @classmethod
    def replace_module(cls, name, attrmap):
        orig = sys.modules[name]
        self = cls(name, attrmap, orig)
        sys.modules[name] = self
        return self

    def __init__(self, name, attrmap, proxy=None):
        ModuleType.__init__(self, name)
        self.__attrmap = attrmap
        self.__proxy = proxy
        self.__log = logging.getLogger(name)

    def __getattr__(self, attr):
        proxy = self.__proxy
        if proxy and hasattr(proxy, attr):
            return getattr(proxy, attr)
        attrmap = self.__attrmap
        if attr in attrmap:
            source = attrmap[attr]
            if callable(source):  # noqa: SIM108
                value = source()
            else:
                value = _import_object(source)
            setattr(self, attr, value)
            self.__log.debug("loaded lazy attr %r: %r", attr, value)
            return value
        raise AttributeError(f"'module' object has no attribute '{attr}'")

    def __repr__(self):
        proxy = self.__proxy
        if proxy:
            return repr(proxy)
        return ModuleType.__repr__(self)

    def __dir__(self):
        attrs = set(dir(self.__class__))
        attrs.update(self.__dict__)
        attrs.update(self.__attrmap)
        proxy = self.__proxy
        if proxy is not None:
            attrs.update(dir(proxy))
        return list(attrs)


# replace this module with overlay that will lazily import attributes.
_LazyOverlayModule.replace_module(__name__, _lazy_attrs)
