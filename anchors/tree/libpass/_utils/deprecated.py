from __future__ import annotations

import binascii

_BASE64_BYTES = b"ABCDEFGHIJKLMNOPQRSTUVWXYZabcdefghijklmnopqrstuvwxyz0123456789+/"
_BASE64_STRIP = b"=\n"
_BASE64_PAD1 = b"="
_BASE64_PAD2 = b"=="


def b64s_encode(data: bytes) -> bytes:
    """
    encode using shortened base64 format which omits padding & whitespace.
    uses default ``+/`` altchars.
    """
    return binascii.b2a_base64(data).rstrip(_BASE64_STRIP)


def b64s_decode(data: bytes | str) -> bytes:
    """
    decode from shortened base64 format which omits padding & whitespace.
    uses default ``+/`` altchars.
    """
    if isinstance(data, str):
        # needs bytes for replace() call, but want to accept ascii-unicode ala a2b_base64()
        data = data.encode("ascii")
    if data.translate(None, _BASE64_BYTES):
        # NOTE: a2b_base64() would silently skip bytes outside the alphabet,
        #       and ignore anything after a complete "=" padding group.
        raise TypeError("invalid base64 character")
    offset = len(data) % 4
    if offset == 0:
        pass
    elif offset == 2:
        data += _BASE64_PAD2
    elif offset == 3:
        data += _BASE64_PAD1
    else:
        raise ValueError("invalid base64 input")
    try:
        return binascii.a2b_base64(data)
    except binascii.Error as err:
        raise TypeError(err) from err


def ab64_encode(data: bytes) -> bytes:
    """
    encode using shortened base64 format which omits padding & whitespace.
    uses custom ``./`` altchars.

    it is primarily used by Passlib's custom pbkdf2 hashes.
    """
    return b64s_encode(data).replace(b"+", b".")


def ab64_decode(data: bytes | str) -> bytes:
    """
    decode from shortened base64 format which omits padding & whitespace.
    uses custom ``./`` altchars, but supports decoding normal ``+/`` altchars as well.

    it is primarily used by Passlib's custom pbkdf2 hashes.
    """
    if isinstance(data, str):
        # needs bytes for replace() call, but want to accept ascii-unicode ala a2b_base64()
        try:
            data = data.encode("ascii")
        except UnicodeEncodeError:
            raise ValueError(
                "string argument should contain only ASCII characters"
            ) from None
    return b64s_decode(data.replace(b".", b"+"))
