"""C05 -- size limits: no silent truncation when forbidden, no oversized passwords, no NUL cut-off.

Decided: (a) every length compared against a truncation limit is a *byte* length (str/bytes type
flow from every registered handler's digest entry point down to the comparison); (b) the library-wide
size check dominates every normal return of hash/verify/genhash of every registered hasher (must-call
with callee summaries); (c) every crypt()-compatible builtin refuses NUL before the first primitive;
(d) the truncation error is raised at hash time only; (e) declared truncate_size agrees with the
number of bytes the algorithm consumes.  Not decided: that exactly `limit` bytes influence the digest."""
from __future__ import annotations

import ast

from pv.q import text as qtext
from pv.model import AnalysisError, walk_no_nested, params, UNKNOWN
from pv.handlers import HandlerTable
from pv import types as T
from pv.mustcall import MustCall

UH = "passlib.utils.handlers"


def site(u, f):
    return f"{u}:{f}"


# ----------------------------------------------------------------------------- C05.a
def rule_a(model, rep):
    R = "C05.a-byte-length"
    table = HandlerTable(model)
    hits = []

    def on_len(frame, call, arg, ty):
        # only lengths that are compared with a truncation limit / used to pick padding
        unit = frame.unit
        par = unit.parent(call)
        if not isinstance(par, ast.Compare):
            return
        other = [c for c in [par.left] + par.comparators if c is not call]
        txt = " ".join(ast.unparse(o) for o in other)
        if frame.qual == "validate_secret":
            return  # library-wide maximum: documented on the value as given
        relevant = "truncate_size" in txt or frame.qual.endswith(("cisco_pix._calc_checksum", "_check_truncate_policy"))
        if not relevant:
            return
        hits.append((frame.unit.name, frame.qual, call, par, ty, frame.chain))

    an = T.Analyzer(model, on_len=on_len)
    n_entries = 0
    for h in table:
        if h.kind == "wrapper":
            continue
        ts = table.const(h, "truncate_size")
        if ts is UNKNOWN or ts is None:
            continue
        owner, fn = model.method(h.cref, "_calc_checksum", required=False)
        if fn is None:
            continue
        n_entries += 1
        an.analyze(owner[0], fn, h.cref, {"secret": T.EITHER})
        o2, mixmap = model.lookup(h.cref, "_backend_mixin_map")
        if isinstance(mixmap, ast.Dict):
            for v in mixmap.values:
                r = model.resolve(model.unit(o2[0]), v)
                if r and r[0] == "class":
                    o3, f3 = model.method((r[1], r[2]), "_calc_checksum", required=False)
                    if f3 is not None and o3 == (r[1], r[2]):
                        an.analyze(o3[0], f3, (r[1], r[2]), {"secret": T.EITHER})
    # handlers with an `encoding` context value: the limit applies to the bytes in *that* encoding, so the value handed to
    # _check_truncate_policy (which would fall back to UTF-8 for text) must already be bytes
    enc_calls = []

    def on_call(frame, call, argt, kwt):
        if isinstance(call.func, ast.Attribute) and call.func.attr == "_check_truncate_policy" and argt:
            enc_calls.append((frame.unit.name, frame.qual, call, argt[0]))
    an2 = T.Analyzer(model)
    an2.on_call = on_call
    for h in table:
        if h.kind == "wrapper" or h.cref is None:
            continue
        if ("passlib.utils.handlers", "HasEncodingContext") in model.mro(h.cref) and table.const(h, "truncate_size") not in (UNKNOWN, None):
            owner, fn = model.method(h.cref, "_calc_checksum", required=False)
            if fn is not None:
                an2.analyze(owner[0], fn, h.cref, {"secret": T.EITHER})
    for un, q, call, ty in enc_calls:
        rep.check(ty == T.BYTES, R, site(un, q), f"{ast.unparse(call)}  # argument type {sorted(ty) if ty else ty}",
                  "a hasher with an `encoding` context value measures the truncation limit on the secret encoded with that encoding",
                  witness="lmhash(encoding='utf-16-le', truncate_error=True): an 8-character password is 16 bytes (> 14) but is measured as 8 UTF-8 bytes and silently truncated")
    seen = set()
    for un, q, call, cmp_, ty, chain in hits:
        caller = chain[-1] if chain else f"{un}:{q}"
        key = (caller, q, ast.unparse(cmp_))
        if key in seen:
            continue
        seen.add(key)
        s = caller if q.endswith("_check_truncate_policy") else site(un, q)
        ok = ty is not None and ty == T.BYTES
        if ty is None:
            rep.undecided(R, s, f"type of `{ast.unparse(call)}` unknown at {un}:{q}")
            continue
        rep.check(ok, R, s, f"{ast.unparse(cmp_)}  # in {q}, operand type {sorted(ty)}",
                  "the length compared with the truncation limit must be measured on the encoded bytes",
                  witness="with truncate_error=True a password of six 2-byte characters (12 bytes > 8) is accepted and silently cut: "
                          "hash('éééééé') verifies 'éééé'+anything")
    # lmhash: the text that is measured is the text that is hashed (upper-cased *before* encoding: 'ß' becomes 'SS')
    W = "passlib.handlers.windows"
    cc, raw = model.func(W, "lmhash._calc_checksum"), model.func(W, "lmhash.raw")
    measured = [ast.unparse(c.args[0]) for c in walk_no_nested(cc) if isinstance(c, ast.Call) and ast.unparse(c.func) == "self._check_truncate_policy" and c.args
                and isinstance(model.unit(W).parent(model.unit(W).parent(c)), ast.If) and "isinstance(secret, str)" in ast.unparse(model.unit(W).parent(model.unit(W).parent(c)).test)
                and model.unit(W).parent(c) in model.unit(W).parent(model.unit(W).parent(c)).body]
    consumed = [ast.unparse(n.value) for n in walk_no_nested(raw) if isinstance(n, ast.Assign) and ast.unparse(n.targets[0]) == "secret" and ".encode(" in ast.unparse(n.value)]
    norm_ = lambda t: t.replace("self.encoding", "encoding")
    rep.check(len(measured) == 1 and len(consumed) == 1 and norm_(measured[0]) == norm_(consumed[0]), R, site(W, "lmhash._calc_checksum"),
              f"measures `{measured[0] if measured else '<none>'}`; raw() hashes `{consumed[0] if consumed else '<none>'}`",
              "the truncation limit is measured on exactly the byte string the algorithm consumes (upper-cased, then encoded)",
              witness="lmhash.using(truncate_error=True).hash('\u00dfabcdefghijklm', encoding='cp437'): 14 bytes before upper-casing, 15 after ('SS'): accepted and silently cut")
    rep.extra["truncating_entries"] = n_entries
    rep.minimum(R, 6)


# ----------------------------------------------------------------------------- C05.b
def rule_b(model, rep):
    R = "C05.b-size-check-must-call"
    table = HandlerTable(model)

    def pred(call, frame):
        name = ast.unparse(call.func)
        if name.split(".")[-1] != "validate_secret" or not call.args:
            return False
        a = call.args[0]
        # the size check must see the caller's value: a `secret` re-bound before the check (decoded, sliced ...) does not count
        return isinstance(a, ast.Name) and a.id == "secret" and "secret" not in frame.rebound

    def delegate(call, frame):
        # X.hash(secret, ...) / X.verify(secret, ...) / X.genhash(secret, ...) on another hasher object
        f = call.func
        if isinstance(f, ast.Attribute) and f.attr in ("hash", "verify", "genhash") and call.args \
                and isinstance(call.args[0], ast.Name) and call.args[0].id == "secret":
            recv = ast.unparse(f.value)
            if recv in ("self.wrapped", "cls.using(**settings)", "cls.using(**kwds)", "cls", "self"):
                return True
        return False

    mc = MustCall(model, pred, delegate)
    for h in table:
        if h.kind == "wrapper":
            # PrefixWrapper methods delegate to self.wrapped.<m>(secret, ...)
            continue
        for m in ("hash", "verify", "genhash"):
            owner, fn = model.method(h.cref, m, required=False)
            s = site(h.unit, f"{h.name}.{m}")
            if fn is None:
                rep.undecided(R, s, "method not found")
                continue
            if "secret" not in params(fn):
                rep.undecided(R, s, "no `secret` parameter")
                continue
            ok = mc.function(owner[0], fn, h.cref)
            rep.check(ok, R, s, f"{owner[1]}.{m} (defined in {owner[0]})",
                      "validate_secret(secret) is called on every path that returns normally",
                      witness=f"passlib.hash.{h.name}.{m}() accepts a password longer than MAX_PASSWORD_SIZE (or a non-string) on some path")
    W = "PrefixWrapper."
    for m in ("hash", "verify", "genhash"):
        fn = model.func(UH, W + m)
        ok = mc.function(UH, fn, (UH, "PrefixWrapper"))
        rep.check(ok, R, site(UH, W + m), m, "wrapper delegates every call to the wrapped hasher (which checks the size)")
    # validate_secret itself
    fn = model.func(UH, "validate_secret")
    cmp_ = [n for n in ast.walk(fn) if isinstance(n, ast.Compare) and "MAX_PASSWORD_SIZE" in qtext(n)]
    ok = len(cmp_) == 1 and ast.unparse(cmp_[0]) == "len(secret) > MAX_PASSWORD_SIZE"
    rep.check(ok, R, site(UH, "validate_secret"), ast.unparse(cmp_[0]) if cmp_ else "<none>", "size check is `len(secret) > MAX_PASSWORD_SIZE`",
              witness="a password of exactly MAX_PASSWORD_SIZE is refused / one above is accepted")
    if cmp_:
        par = model.unit(UH).parent(cmp_[0])
        ok = isinstance(par, ast.If) and any(isinstance(x, ast.Raise) and qtext(x).loose("PasswordSizeError") for x in par.body)
        rep.check(ok, R, site(UH, "validate_secret"), "raise exc.PasswordSizeError", "oversized password raises PasswordSizeError")
    tchk = [n for n in ast.walk(fn) if isinstance(n, ast.If) and "isinstance(secret, unicode_or_bytes)" in qtext(n.test)]
    rep.check(bool(tchk), R, site(UH, "validate_secret"), "isinstance check", "non-string secrets are refused")
    v = model.fold(model.unit("passlib.utils"), ast.Name(id="MAX_PASSWORD_SIZE"))
    rep.hold(R, site("passlib.utils", "MAX_PASSWORD_SIZE"), f"value expression folds to {v}")
    # CryptContext entry points hand the secret to record.hash / record.verify unchanged
    rep.minimum(R, 180)


# ----------------------------------------------------------------------------- C05.c
NUL_SITES = [
    ("passlib.handlers.md5_crypt", "_raw_md5_crypt", "pwd"),
    ("passlib.handlers.sha2_crypt", "_raw_sha2_crypt", "pwd"),
    ("passlib.handlers.sha1_crypt", "sha1_crypt._calc_checksum_builtin", "secret"),
    ("passlib.handlers.des_crypt", "_raw_des_crypt", "secret"),
    ("passlib.handlers.des_crypt", "_raw_bsdi_crypt", "secret"),
    ("passlib.handlers.bcrypt", "_BcryptCommon._norm_digest_args", "secret"),
    ("libpass.hashers.sha_crypt", None, None),
]


def rule_c(model, rep):
    R = "C05.c-nul-refused"
    # discover: builtin implementation of every class with an os_crypt backend
    targets = []
    for un, unit in model.units.items():
        if not un.startswith("passlib.handlers"):
            continue
        for cn in unit.classes:
            b = model.class_const((un, cn), "backends")
            if isinstance(b, tuple) and "os_crypt" in b and "_calc_checksum_builtin" in model.class_members((un, cn)):
                fn = model.class_members((un, cn))["_calc_checksum_builtin"]
                # follow a single `return _raw_x(secret, ...)` delegation
                rets = [n for n in walk_no_nested(fn) if isinstance(n, ast.Return)]
                tgt = None
                if len(fn.body) <= 2 and len(rets) == 1:
                    for n in ast.walk(rets[0]):
                        if isinstance(n, ast.Call) and isinstance(n.func, ast.Name) and n.func.id in unit.funcs:
                            tgt = (un, n.func.id, unit.funcs[n.func.id])
                if tgt is None:
                    tgt = (un, f"{cn}._calc_checksum_builtin", fn)
                targets.append(tgt)
    targets.append(("passlib.handlers.bcrypt", "_BcryptCommon._norm_digest_args", model.func("passlib.handlers.bcrypt", "_BcryptCommon._norm_digest_args")))
    # crypt(3) formats of other systems, implemented here without an OS backend (Ultrix/Tru64 crypt16, Solaris sun-md5): C strings end at NUL
    # there too -- crypt16 builds its DES keys from NUL-padded blocks, so 'abc\0' and 'abc' are the same password unless NUL is refused
    targets.append(("passlib.handlers.des_crypt", "crypt16._calc_checksum", model.func("passlib.handlers.des_crypt", "crypt16._calc_checksum")))
    targets.append(("passlib.handlers.sun_md5_crypt", "sun_md5_crypt._calc_checksum", model.func("passlib.handlers.sun_md5_crypt", "sun_md5_crypt._calc_checksum")))
    seen = set()
    for un, q, fn in targets:
        if (un, q) in seen:
            continue
        seen.add((un, q))
        unit = model.unit(un)
        s = site(un, q)
        pn = params(fn)
        sec = next((p for p in pn if p in ("secret", "pwd")), None)
        if sec is None:
            rep.undecided(R, s, "secret parameter not found")
            continue
        guard_idx = None
        first_use = None
        for i, st in enumerate(fn.body):
            if isinstance(st, ast.If) and isinstance(st.test, ast.Compare) and len(st.test.ops) == 1 \
                    and isinstance(st.test.ops[0], ast.In) and ast.unparse(st.test.comparators[0]) == sec:
                nul = model.fold(unit, st.test.left)
                if nul in (b"\x00", "\x00") and any(isinstance(x, ast.Raise) for x in st.body):
                    guard_idx = i
                    nul_is_bytes = isinstance(nul, bytes)
            if first_use is None and not isinstance(st, (ast.Assert,)) and not _is_normaliser(st, sec) \
                    and not (isinstance(st, ast.Expr) and isinstance(st.value, ast.Constant)) and guard_idx != i:
                for n in ast.walk(st):
                    if isinstance(n, ast.Call) and any(isinstance(a, ast.Name) and a.id == sec for a in n.args) \
                            and ast.unparse(n.func) not in ("isinstance", "len", "uh.validate_secret", "cls._check_truncate_policy"):
                        first_use = i
                        break
                    if isinstance(n, ast.BinOp) and any(isinstance(a, ast.Name) and a.id == sec for a in (n.left, n.right)):
                        first_use = i
                        break
        if guard_idx is None:
            rep.violation(R, s, f"no top-level `if NUL in {sec}: raise`", "crypt()-compatible builtin must refuse NUL bytes",
                          witness="hash('abc\\x00def') succeeds in the builtin backend while crypt() would stop at the NUL: backends disagree / password silently cut")
            continue
        ok = first_use is None or guard_idx < first_use
        rep.check(ok, R, s, f"guard at statement {guard_idx}, first digest use at {first_use}", "NUL guard precedes the first use of the secret in the algorithm",
                  witness="NUL reaches the primitive before it is refused")
        # the guard must run on bytes when the constant is bytes: a normaliser precedes it
        if nul_is_bytes:
            norm_before = any(_is_normaliser(st, sec) for st in fn.body[:guard_idx])
            rep.check(norm_before, R, s, "bytes NUL tested after str->bytes normalisation", "secret is encoded before `b'\\x00' in secret`",
                      witness="text passwords raise TypeError at the NUL test")
    rep.minimum(R, 10)
    # safe_crypt covered by C03.f; bsdi/des builtin share _raw functions


def _is_normaliser(st, sec):
    t = qtext(st)
    return (isinstance(st, ast.If) and t.startswith(f"if isinstance({sec}, str):") and f"{sec} = {sec}.encode(" in t) or \
           (isinstance(st, ast.Assign) and t.startswith(f"{sec} = to_bytes({sec}"))


# ----------------------------------------------------------------------------- C05.d / e
def rule_f(model, rep):
    """context-wide `truncate_error`: the top-level key and the exported `all__truncate_error` are aliases of one slot; an update()/copy()
    hands both to _CryptConfig._init_options (old config first, new keywords last), so the slot store must be last-writer-wins"""
    R = "C05.f-context-wide-option"
    CTX = "passlib.context"
    unit = model.unit(CTX)
    gs = unit.assigns.get("_global_settings")
    v = model.fold(unit, gs[0]) if gs else UNKNOWN
    rep.check(v is not UNKNOWN and "truncate_error" in v, R, site(CTX, "_global_settings"), repr(v), "`truncate_error` is one of the keys a context passes to all its schemes")
    fn = model.func(CTX, "_CryptConfig._init_options")
    alias = [n for n in walk_no_nested(fn) if isinstance(n, ast.If) and "key in _global_settings" in ast.unparse(n.test) and any(ast.unparse(b) == "scheme = 'all'" for b in n.body)]
    rep.check(len(alias) == 1, R, site(CTX, "_CryptConfig._init_options") + " alias", ast.unparse(alias[0].test) if alias else "<none>", "a bare global key is filed under the `all` pseudo-scheme (same slot as all__<key>)")
    first_wins = [ast.unparse(n)[:80] for n in walk_no_nested(fn) if isinstance(n, ast.Call) and isinstance(n.func, ast.Attribute) and n.func.attr == "setdefault"
                  and any(isinstance(x, ast.Name) and x.id == "value" for a in n.args[1:] for x in ast.walk(a))]
    stores = [ast.unparse(n) for n in walk_no_nested(fn) if isinstance(n, ast.Assign) and isinstance(n.targets[0], ast.Subscript) and
              (ast.unparse(n.value) == "value" or (isinstance(n.value, ast.Dict) and "value" in ast.unparse(n.value)))]
    rep.check(not first_wins and len(stores) >= 2, R, site(CTX, "_CryptConfig._init_options") + " store", "; ".join(first_wins) or f"{len(stores)} overwriting stores",
              "option values are stored by assignment (a later source entry replaces an earlier one that lands in the same slot)",
              witness="ctx = CryptContext(['des_crypt'], truncate_error=False); ctx.update(truncate_error=True).hash('x' * 9) still truncates silently: the old all__truncate_error entry wins over the new keyword")
    # source order of an update: existing config first, then the new keys
    ld = model.func(CTX, "CryptContext.load")
    ok, shown = False, "<merge block not found>"
    for blk in [n for n in walk_no_nested(ld) if isinstance(n, ast.If) and "update" in ast.unparse(n.test) and "self._config" in ast.unparse(n.test)]:
        seq = [ast.unparse(x) for x in blk.body]
        shown = " | ".join(x for x in seq if "source" in x)
        saved = next((x.targets[0].id for x in blk.body if isinstance(x, ast.Assign) and ast.unparse(x.value) == "source" and isinstance(x.targets[0], ast.Name)), None)
        i_old = next((i for i, x in enumerate(blk.body) if isinstance(x, ast.Assign) and ast.unparse(x.targets[0]) == "source" and "self._config.iter_config(" in ast.unparse(x.value)), None)
        i_new = next((i for i, x in enumerate(seq) if saved and x == f"source.update({saved})"), None)
        ok = saved is not None and i_old is not None and i_new is not None and i_old < i_new
    rep.check(ok, R, site(CTX, "CryptContext.load") + " merge order", shown, "update(): the new keys are overlaid on (come after) the existing configuration")


def rule_g(model, rep):
    """`truncate_error` is about the password the caller typed: the value handed to _check_truncate_policy() is the `secret` parameter itself,
    or its bytes (encode / to_bytes / the upper-cased form lmhash measures) -- never something that was already cut, padded or normalised by a helper"""
    R = "C05.g-policy-sees-whole-secret"
    n = 0
    CONVERT = ("encode", "upper")
    for un, unit in model.units.items():
        if not un.startswith(("passlib.handlers", "passlib.utils.handlers")):
            continue
        for q, fn in unit.functions():
            if q.endswith("._check_truncate_policy"):
                continue
            ps = [a.arg for a in fn.args.args]
            for c in walk_no_nested(fn):
                if not (isinstance(c, ast.Call) and isinstance(c.func, ast.Attribute) and c.func.attr == "_check_truncate_policy" and c.args):
                    continue
                n += 1
                arg = c.args[0]

                def clean(e, depth=0):
                    """e is the parameter `secret`, or a pure conversion of it"""
                    if isinstance(e, ast.Name):
                        if e.id == "secret" and "secret" in ps:
                            # every assignment to `secret` that precedes the call must itself be a conversion of the parameter
                            for a in walk_no_nested(fn):
                                if isinstance(a, ast.Assign) and any(isinstance(t, ast.Name) and t.id == "secret" for t in a.targets) and a.lineno < c.lineno:
                                    if depth > 3 or not clean_value(a.value, depth + 1):
                                        return False
                                if isinstance(a, ast.Assign) and any(isinstance(t, ast.Tuple) and any(isinstance(x, ast.Name) and x.id == "secret" for x in t.elts) for t in a.targets) and a.lineno < c.lineno:
                                    return False
                            return True
                        defs = [a.value for a in walk_no_nested(fn) if isinstance(a, ast.Assign) and any(isinstance(t, ast.Name) and t.id == e.id for t in a.targets) and a.lineno < c.lineno]
                        return bool(defs) and depth <= 3 and all(clean_value(v, depth + 1) for v in defs)
                    return clean_value(e, depth)

                def clean_value(v, depth):
                    if isinstance(v, ast.Name):
                        return v.id == "secret" or clean(v, depth)
                    if isinstance(v, ast.IfExp):
                        return clean_value(v.body, depth) and clean_value(v.orelse, depth)
                    if isinstance(v, ast.Call) and isinstance(v.func, ast.Attribute) and v.func.attr in CONVERT:
                        return clean_value(v.func.value, depth)
                    if isinstance(v, ast.Call) and isinstance(v.func, ast.Name) and v.func.id in ("to_bytes", "to_unicode") and v.args:
                        return clean_value(v.args[0], depth)
                    return False
                rep.check(clean(arg), R, site(un, q), f"{ast.unparse(c)}  # argument derives from: {ast.unparse(arg)}",
                          "the truncation policy is checked on the password as given (converted to bytes at most), before anything cuts, repeats or normalises it",
                          witness="bcrypt.using(truncate_error=True, ident='2').hash('x' * 100) succeeds: the legacy-ident emulation has already brought the secret to 72 bytes when the policy looks at it")
    if n < 6:
        rep.undecided(R, "<instance-count>", f"only {n} calls of _check_truncate_policy found, expected at least 6")


def rule_de(model, rep):
    R = "C05.d-hash-time-only"
    n = 0
    for un, unit in model.units.items():
        for q, fn in unit.functions():
            for node in walk_no_nested(fn):
                if isinstance(node, ast.Call) and isinstance(node.func, ast.Attribute) and node.func.attr == "_check_truncate_policy":
                    n += 1
                    ok = False
                    cur = node
                    while cur is not fn and cur is not None:
                        par = unit.parent(cur)
                        if isinstance(par, ast.If) and cur in par.body and ast.unparse(par.test) in ("self.use_defaults", "new"):
                            ok = True
                        cur = par
                    rep.check(ok, R, site(un, q), ast.unparse(node), "truncation policy is enforced only when a new hash is made (use_defaults / new)",
                              witness="verify() of an over-long password raises PasswordTruncateError instead of answering")
    rep.minimum(R, 4)
    # _check_truncate_policy shape
    fn = model.func(UH, "TruncateMixin._check_truncate_policy")
    cmp_ = [n for n in ast.walk(fn) if isinstance(n, ast.Compare) and qtext(n).loose("truncate_size") and qtext(n).loose("len(")]
    ok = len(cmp_) == 1 and ast.unparse(cmp_[0]) == "len(secret) > cls.truncate_size"
    rep.check(ok, R, site(UH, "TruncateMixin._check_truncate_policy"), ast.unparse(cmp_[0]) if cmp_ else "<none>",
              "raise iff len(secret) > truncate_size (a password of exactly the limit is fine)",
              witness="a password of exactly truncate_size bytes is refused, or limit+1 accepted")
    iff = [n for n in ast.walk(fn) if isinstance(n, ast.If) and cmp_ and any(x is cmp_[0] for x in ast.walk(n.test))]
    ok = bool(iff) and ast.unparse(iff[0].test) == "cls.truncate_error and len(secret) > cls.truncate_size" and any(qtext(x).loose("PasswordTruncateError") for x in iff[0].body)
    rep.check(ok, R, site(UH, "TruncateMixin._check_truncate_policy"), ast.unparse(iff[0].test) if iff else "<none>",
              "guarded by cls.truncate_error; raises PasswordTruncateError")
    # E: declared limits vs. consumed bytes
    R2 = "C05.e-declared-limit"
    table = HandlerTable(model)
    want = {"des_crypt": 8, "crypt16": 16, "bcrypt": 72, "lmhash": 14, "cisco_pix": 16, "cisco_asa": 32, "django_des_crypt": 8}
    for name, lim in want.items():
        h = table.get(name)
        if h is None:
            rep.undecided(R2, name, "handler vanished")
            continue
        v = table.const(h, "truncate_size")
        rep.check(v == lim, R2, site(h.unit, name + ".truncate_size"), f"truncate_size = {v!r}", f"{name} consumes {lim} bytes of the password",
                  witness=f"truncate_error=True lets through / refuses passwords around the real {lim}-byte limit")
    for name in ("bcrypt_sha256", "django_bcrypt_sha256"):
        h = table.get(name)
        v = table.const(h, "truncate_size")
        rep.check(v is None, R2, site(h.unit, name + ".truncate_size"), f"truncate_size = {v!r}", "pre-hashed bcrypt variants do not truncate")
    # consumed bytes: des key helper uses 8 bytes, lmhash pads to 14, crypt16 second block [8:16]
    fn = model.func("passlib.handlers.des_crypt", "_crypt_secret_to_key")
    txt = qtext(fn)
    rep.check("enumerate(secret[:8])" in txt or "zip(range(8), secret)" in txt, R2, site("passlib.handlers.des_crypt", "_crypt_secret_to_key"),
              "enumerate(secret[:8])", "des key is built from the first 8 bytes",
              witness="des_crypt consumes another number of bytes than its declared truncate_size")
    fn = model.func("passlib.handlers.windows", "lmhash.raw")
    txt = qtext(fn)
    rep.check("right_pad_string(secret, 14)" in txt and "secret[0:7]" in txt and "secret[7:14]" in txt, R2, site("passlib.handlers.windows", "lmhash.raw"),
              "pad to 14; halves [0:7] [7:14]", "lmhash consumes exactly 14 bytes in two 7-byte halves")
    fn = model.func("passlib.handlers.des_crypt", "crypt16._calc_checksum")
    rep.check("_crypt_secret_to_key(secret[8:16])" in qtext(fn), R2, site("passlib.handlers.des_crypt", "crypt16._calc_checksum"),
              "secret[8:16]", "crypt16 second block is bytes 8..15")
    # cisco: over-long passwords at verify time are spoiled, at hash time refused
    fn = model.func("passlib.handlers.cisco", "cisco_pix._calc_checksum")
    iff = [n for n in walk_no_nested(fn) if isinstance(n, ast.If) and ast.unparse(n.test) == "len(secret) > self.truncate_size"]
    ok = len(iff) == 1
    if ok:
        body = ast.unparse(iff[0])
        ok = "if self.use_defaults:" in body and "PasswordSizeError" in body and "spoil_digest = secret + _DUMMY_BYTES" in body
    rep.check(ok, R2, site("passlib.handlers.cisco", "cisco_pix._calc_checksum"), "len(secret) > self.truncate_size -> raise (hash) / spoil (verify)",
              "over-long cisco passwords are refused when hashing and can never verify",
              witness="an extension of a 16-byte cisco_pix password verifies")
    rep.check(any(isinstance(n, ast.If) and ast.unparse(n.test) == "spoil_digest" and [ast.unparse(x) for x in n.body] == ["secret += spoil_digest"]
                  for n in walk_no_nested(fn)), R2, site("passlib.handlers.cisco", "cisco_pix._calc_checksum"),
              "if spoil_digest: secret += spoil_digest", "the spoil value is mixed into the digest input")
    # context-wide truncate_error option is forwarded: 'truncate_error' in every truncating handler's setting_kwds
    for name in ("des_crypt", "bcrypt", "lmhash", "crypt16", "django_des_crypt"):
        h = table.get(name)
        kw = table.const(h, "setting_kwds")
        rep.check(isinstance(kw, tuple) and "truncate_error" in kw, R2, site(h.unit, name + ".setting_kwds"), repr(kw),
                  "truncate_error is a setting of every truncating hasher (so CryptContext can pass it)",
                  witness="CryptContext(truncate_error=True) is not applied to this scheme")


def _len_rule(model, rep):
    from . import shared as _shared
    _shared.rule_len_after_encode(model, rep, "C05.h-length-in-bytes", ("passlib.handlers", "passlib.utils.handlers"), minimum=15)
    _shared.rule_no_bool_coercer(model, rep, "C05.f-context-wide-option")


def run(model, rep):
    rep.explanation = __doc__
    rep.assumptions = ["secret is str|bytes on entry (public API contract)", "library primitives consume the bytes they are given"]
    rule_a(model, rep)
    rule_b(model, rep)
    rule_c(model, rep)
    rule_de(model, rep)
    rule_f(model, rep)
    rule_g(model, rep)
    _len_rule(model, rep)
    from . import shared
    shared.fact_expand_settings(model, rep, "C05.e-declared-limit")
