"""Facts that are necessary conditions of more than one property (each property reports them under its own rule id)."""
from __future__ import annotations

import ast

from pv.q import text as qtext
from pv.model import walk_no_nested

CTX = "passlib.context"


def fact_iter_config_by_key(model, rep, R):
    fn = model.func(CTX, "_CryptConfig.iter_config")
    tries = [n for n in walk_no_nested(fn) if isinstance(n, ast.Try)]
    ok = len(tries) == 2 and all(len(x.handlers) == 1 and ast.unparse(x.handlers[0].type) == "KeyError" and x.orelse for x in tries)
    rep.check(ok, R, f"{CTX}:_CryptConfig.iter_config", f"{len(tries)} try/except KeyError lookups",
              "per-category options are exported whenever the key exists (try/except KeyError), also when the value is empty or zero",
              witness="a category override `deprecated=[]` (or vary_rounds=0) disappears on copy()/update()/to_dict(): the category inherits the global list again "
                      "and hashes the policy keeps are flagged for rehash")


def fact_expand_settings(model, rep, R):
    fn = model.func(CTX, "_CryptConfig.expand_settings")
    t = qtext(fn)
    ok = "setting_kwds = handler.setting_kwds" in t and "setting_kwds += uh.HasRounds.using_rounds_kwds" in t and t.rstrip().endswith("return setting_kwds")
    rep.check(ok, R, f"{CTX}:_CryptConfig.expand_settings", t.split("\n", 1)[-1].replace("\n", " ; ")[:160],
              "the allowed settings of a handler are its own setting_kwds, *extended* by the rounds keywords when it has rounds",
              witness="a context-wide truncate_error=True (or vary_rounds) is silently dropped for hashers that have a rounds setting (bcrypt): "
                      "over-long passwords are truncated although the policy forbids it")
    g = model.fold(model.unit(CTX), ast.Name(id="_global_settings", ctx=ast.Load()))
    rep.check(isinstance(g, set) and "truncate_error" in g, R, f"{CTX}:_global_settings", repr(g), "truncate_error is a context-wide setting")


# ----------------------------------------------------------------------------------------------------------------
NUMERIC_OPTION_NAMES = {
    "rounds", "min_rounds", "max_rounds", "default_rounds", "min_desired_rounds", "max_desired_rounds", "vary_rounds", "salt_size",
    "default_salt_size", "parallelism", "block_size", "variant", "version", "last_counter", "window", "skew", "digits", "period",
    "size", "counter", "memory_cost", "time_cost", "max_threads", "digest_size", "checksum_size", "hash_len", "salt_len", "time", "cost",
    "entropy", "length", "truncate_error", "relaxed_rounds",
}
#: (unit, qualname, parameter) -> reason: truthiness tests on None-default numeric parameters that were read and are harmless
FALSY_ZERO_TRIAGED = {
    ("passlib.utils.handlers", "HasRounds.using", "vary_rounds"): "only decides whether to emit the deprecation warning; 0 is stored like any other value",
    ("passlib.totp", "TOTP._adapt_uri_params", "period"): "URI parameter arrives as text ('0' is truthy) and is validated afterwards",
    ("passlib.totp", "TOTP._adapt_uri_params", "digits"): "URI parameter arrives as text ('0' is truthy) and is validated afterwards",
    ("libpass.hashers.pbkdf2", "PBKDF2SHAHandler.__init__", "rounds"): "0 rounds is not a valid PBKDF2 cost; falling back to the default is the documented behaviour",
    ("libpass.hashers.pbkdf2", "PBKDF2SHAHandler.hash", "rounds"): "same as the constructor",
}


def falsy_zero_lint(model, rep, R, unit_filter, func_filter=None, witness=None):
    """A parameter that defaults to None (meaning 'not given') and carries a number for which 0 is a legal value must be
    tested with `is None`, not by truthiness (`if not p`, `if p`, `p or default`)."""
    n = 0
    for un, unit in model.units.items():
        if not unit_filter(un):
            continue
        for q, fn in unit.functions():
            if func_filter and not func_filter(un, q):
                continue
            a = fn.args
            names = [x.arg for x in a.args]
            nonep = set()
            for i, d in enumerate(a.defaults):
                if isinstance(d, ast.Constant) and d.value is None:
                    nonep.add(names[len(names) - len(a.defaults) + i])
            for x, d in zip(a.kwonlyargs, a.kw_defaults):
                if isinstance(d, ast.Constant) and d.value is None:
                    nonep.add(x.arg)
            nonep &= NUMERIC_OPTION_NAMES
            if not nonep:
                continue
            for p in sorted(nonep):
                bad = []
                first_rebind = None
                for node in walk_no_nested(fn):
                    if isinstance(node, ast.Assign) and any(isinstance(t, ast.Name) and t.id == p for t in node.targets):
                        v = node.value
                        # as_bool(None) is None and as_bool(False) is False: the value is still "optional" afterwards
                        if isinstance(v, ast.Call) and ast.unparse(v.func).split(".")[-1] == "as_bool" and v.args and isinstance(v.args[0], ast.Name) and v.args[0].id == p:
                            continue
                        first_rebind = min(first_rebind or node.lineno, node.lineno)
                for node in walk_no_nested(fn):
                    t = None
                    if isinstance(node, (ast.If, ast.IfExp, ast.While)):
                        tt = node.test
                        if isinstance(tt, ast.Name) and tt.id == p:
                            t = f"if {p}:"
                        if isinstance(tt, ast.UnaryOp) and isinstance(tt.op, ast.Not) and isinstance(tt.operand, ast.Name) and tt.operand.id == p:
                            t = f"if not {p}:"
                    if isinstance(node, ast.BoolOp) and isinstance(node.op, ast.Or) and isinstance(node.values[0], ast.Name) and node.values[0].id == p:
                        t = f"{p} or ..."
                    if t and (first_rebind is None or node.lineno <= first_rebind):
                        bad.append(t)
                n += 1
                s = f"{un}:{q}"
                if (un, q, p) in FALSY_ZERO_TRIAGED:
                    rep.hold(R, s, f"`{p}`: triaged -- {FALSY_ZERO_TRIAGED[(un, q, p)]}")
                    continue
                rep.check(not bad, R, s, f"{p}: {', '.join(bad)}" if bad else f"{p}: presence tested with `is None`",
                          f"parameter `{p}` (None = not given) is tested by truthiness, so the legal value 0 is treated as 'not given'",
                          witness=witness or f"{q}({p}=0) silently behaves as if {p} had not been passed")
    return n


class Renamed:
    """report proxy: rules written for one property report under another property's rule ids; `only` (predicate on the site text)
    restricts the reuse to the sites that matter to the borrowing property -- reports about other sites are dropped, not renamed"""
    def __init__(self, rep, mapping, default="C20.x-", only=None):
        self._rep, self._map, self._default, self._only = rep, mapping, default, only

    def _r(self, rule):
        for k, v in self._map.items():
            if rule.startswith(k):
                return v
        return self._default + rule

    def _skip(self, a):
        return self._only is not None and a and isinstance(a[0], str) and not self._only(a[0])

    def hold(self, rule, *a, **k):
        if self._skip(a):
            return None
        return self._rep.hold(self._r(rule), *a, **k)

    def violation(self, rule, *a, **k):
        if self._skip(a):
            return None
        return self._rep.violation(self._r(rule), *a, **k)

    def undecided(self, rule, *a, **k):
        if self._skip(a) and not a[0].startswith("<"):
            return None
        return self._rep.undecided(self._r(rule), *a, **k)

    def check(self, cond, rule, *a, **k):
        if self._skip(a):
            return None
        return self._rep.check(cond, self._r(rule), *a, **k)

    def minimum(self, rule, n):
        if self._only is not None:
            return None     # the borrowing property states its own minimum for the restricted site set
        return self._rep.minimum(self._r(rule), n)

    def __getattr__(self, name):
        return getattr(self._rep, name)




def handler_site_filter(model, table, units, extra_names=()):
    """predicate on site texts: true for methods of the handler classes (and their bases) whose registry names occur as string constants in
    the given units (the modules that build the shipped contexts), plus `extra_names`; used to restrict a borrowed rule to those handlers"""
    names = set(extra_names)
    for un in units:
        u = model.units.get(un)
        if u is None:
            continue
        for n in ast.walk(u.tree):
            if isinstance(n, ast.Constant) and isinstance(n.value, str) and n.value in table.locations:
                names.add(n.value)
    v = model.fold(model.unit("passlib.utils"), ast.Name(id="unix_crypt_schemes", ctx=ast.Load()))
    if isinstance(v, (list, tuple)):
        names |= {x for x in v if x in table.locations}
    prefixes = set()
    seen = set()
    work = list(names)
    while work:
        nm = work.pop()
        if nm in seen:
            continue
        seen.add(nm)
        h = table.get(nm)
        if h is None:
            continue
        if h.kind == "wrapper":
            prefixes.add(f"{h.unit}:{nm}")
            if h.wrapped:
                work.append(h.wrapped)
            prefixes.add("passlib.utils.handlers:PrefixWrapper.")
            continue
        if h.cref:
            for c in model.mro(tuple(h.cref)):
                prefixes.add(f"{c[0]}:{c[1]}.")
    pf = tuple(sorted(prefixes))
    return (lambda s: s.startswith(pf)), sorted(seen)


#: stores into a memo table under a key other than the one looked up, confirmed by reading: (unit, function, key text) -> reason
MEMO_EXTRA_KEYS = {
    ("passlib.context", "_CryptConfig.get_record", "(None, category)"): "inside `if not scheme:` -- the looked-up key with its falsy scheme slot spelt None",
    ("passlib.crypto.digest", "lookup_hash", "const"): "the constructor object is a second, documented way of naming the same digest",
}


def rule_memo_keys(model, rep, R, unit_prefixes, minimum=1):
    """look-up-then-fill memo tables: a function that opens with `try: return TABLE[K] / except KeyError: pass` and later stores
    `TABLE[K2] = value` must store under the key it looked up (K2 == K) -- otherwise the answer computed for one key is served for another"""
    n = 0
    for un, unit in model.units.items():
        if not un.startswith(tuple(unit_prefixes)):
            continue
        for q, fn in unit.functions():
            for t in fn.body:
                if not (isinstance(t, ast.Try) and len(t.body) == 1 and isinstance(t.body[0], ast.Return) and isinstance(t.body[0].value, ast.Subscript)
                        and t.handlers and all(h.type is not None and "KeyError" in ast.unparse(h.type) and len(h.body) == 1 and isinstance(h.body[0], ast.Pass) for h in t.handlers)):
                    continue
                table, key = ast.unparse(t.body[0].value.value), ast.unparse(t.body[0].value.slice)
                aliases = {table} | {tt.id for a in walk_no_nested(fn) if isinstance(a, ast.Assign) and ast.unparse(a.value) == table for tt in a.targets if isinstance(tt, ast.Name)}
                stores = [s for s in walk_no_nested(fn) if isinstance(s, ast.Subscript) and isinstance(s.ctx, ast.Store) and ast.unparse(s.value) in aliases]
                if not stores:
                    continue
                n += 1
                s_ = f"{un}:{q}"
                keys = [ast.unparse(s.slice) for s in stores]
                bad = [k for k in keys if k != key and (un, q, k) not in MEMO_EXTRA_KEYS]
                rep.check(key in keys and not bad, R, s_, f"looked up {table}[{key}]; stored under {keys}",
                          "the memo table is filled under the key it is looked up by",
                          witness="the list built for one category is cached as the default category's: after one admin-category call every category-less call is judged by the admin policy")
    if n < minimum:
        rep.undecided(R, "<instance-count>", f"only {n} look-up-then-fill memo functions found, expected at least {minimum}")


def rule_as_bool(model, rep, R):
    """as_bool() answers its `none` default only for "no value" (None, or a text in _none_set); every other non-text value -- the number 0
    included -- is a value and is converted with bool()"""
    U = "passlib.utils"
    fn = model.func(U, "as_bool")
    unit = model.unit(U)
    s = f"{U}:as_bool"
    bad = []
    n = 0
    for r in walk_no_nested(fn):
        if isinstance(r, ast.Return) and isinstance(r.value, ast.Name) and r.value.id == "none":
            n += 1
            guard = unit.enclosing(r, ast.If)
            t = ast.unparse(guard.test) if guard is not None else "<unconditional>"
            if t not in ("value is None", "clean in _none_set"):
                bad.append(t)
    last = fn.body[-1]
    tail = ast.unparse(last)
    rep.check(n >= 1 and not bad and tail == "return bool(value)", R, s, f"`return none` under {bad or ['value is None / clean in _none_set']}; tail `{tail}`",
              "the `none` default is returned for None (and the documented 'none' words) only; numbers are converted with bool(value)",
              witness="des_crypt.using(truncate_error=True).using(truncate_error=0) keeps truncate_error=True: the number 0 is read as 'option not given'")


def rule_len_after_encode(model, rep, R, prefixes, minimum=5):
    """a value that the function itself converts to bytes (`v = v.encode(...)`, `v = to_bytes(v, ...)`, usually under `if isinstance(v, str)`)
    may still be text before that statement: a `len(v)` evaluated earlier counts characters, not the bytes the algorithm consumes"""
    n = 0
    for un, unit in model.units.items():
        if not un.startswith(tuple(prefixes)):
            continue
        for q, fn in unit.functions():
            conv = {}
            for a in walk_no_nested(fn):
                if isinstance(a, ast.Assign) and len(a.targets) == 1 and isinstance(a.targets[0], ast.Name) and isinstance(a.value, ast.Call):
                    v, c = a.targets[0].id, a.value
                    by_method = isinstance(c.func, ast.Attribute) and c.func.attr == "encode" and isinstance(c.func.value, ast.Name) and c.func.value.id == v
                    by_helper = ast.unparse(c.func).split(".")[-1] == "to_bytes" and c.args and isinstance(c.args[0], ast.Name) and c.args[0].id == v
                    if by_method or by_helper:
                        conv.setdefault(v, []).append(a)
            for v, assigns in conv.items():
                n += 1
                first = min(assigns, key=lambda a: (a.lineno, a.col_offset))
                early = [c for c in walk_no_nested(fn) if isinstance(c, ast.Call) and isinstance(c.func, ast.Name) and c.func.id == "len" and len(c.args) == 1
                         and isinstance(c.args[0], ast.Name) and c.args[0].id == v and (c.lineno, c.col_offset) < (first.lineno, first.col_offset)]
                s = f"{un}:{q}"
                rep.check(not early, R, s, f"len({v}) before `{ast.unparse(first)[:60]}`" if early else f"len({v}) only after `{ast.unparse(first)[:50]}`",
                          f"`{v}` is measured only after it has been brought to bytes",
                          witness="a text password with multi-byte characters is measured in characters: the builtin sha-crypt digest differs from crypt(3)'s, a size limit is applied "
                                  "to the wrong count, an HMAC key of more than one block is not pre-hashed")
    if n < minimum:
        rep.undecided(R, "<instance-count>", f"only {n} in-function conversions to bytes found, expected at least {minimum}")


def rule_no_bool_coercer(model, rep, R):
    """string option values (INI files, keyword strings) are converted by the functions in CryptContext's coercion table: `bool` is never one of
    them, because bool('false') is True -- boolean options are parsed by as_bool() in the hasher's using()"""
    CTX = "passlib.context"
    v = model.unit(CTX).assigns.get("_coerce_scheme_options")
    pairs = {}
    if v and isinstance(v[0], ast.Call) and ast.unparse(v[0].func) == "dict":
        pairs = {k.arg: ast.unparse(k.value) for k in v[0].keywords if k.arg}
    elif v and isinstance(v[0], ast.Dict):
        pairs = {k.value: ast.unparse(val) for k, val in zip(v[0].keys, v[0].values) if isinstance(k, ast.Constant)}
    if not pairs:
        rep.undecided(R, f"{CTX}:_coerce_scheme_options", "coercion table not found")
        return
    bad = sorted(k for k, f in pairs.items() if f == "bool")
    rep.check(not bad, R, f"{CTX}:_coerce_scheme_options", f"coerced with bool(): {bad}" if bad else f"{len(pairs)} coercers, none is bool",
              "no option is coerced from text with bool()",
              witness="CryptContext.from_string('[passlib]\\nschemes = des_crypt\\ntruncate_error = false') raises PasswordTruncateError for a 9-byte password: 'false' became True")


def rule_case_after_decode(model, rep, R, prefixes, minimum=3):
    """a value the function itself converts to text (`v = to_unicode(v, ...)`, `v = v.decode(...)`, usually under `if isinstance(v, bytes)`) may
    still be bytes before that statement: `.upper()` / `.lower()` applied earlier (or inside the conversion's own argument) folds ASCII letters only"""
    n = 0
    for un, unit in model.units.items():
        if not un.startswith(tuple(prefixes)):
            continue
        for q, fn in unit.functions():
            conv = {}
            for a in walk_no_nested(fn):
                if isinstance(a, ast.Assign) and len(a.targets) == 1 and isinstance(a.targets[0], ast.Name) and isinstance(a.value, ast.Call):
                    v, c = a.targets[0].id, a.value
                    mentions = any(isinstance(x, ast.Name) and x.id == v for x in ast.walk(c))
                    by_method = isinstance(c.func, ast.Attribute) and c.func.attr == "decode" and mentions
                    by_helper = ast.unparse(c.func).split(".")[-1] in ("to_unicode", "to_native_str") and mentions
                    if by_method or by_helper:
                        conv.setdefault(v, []).append(a)
            for v, assigns in conv.items():
                n += 1
                first = min(assigns, key=lambda a: (a.lineno, a.col_offset))
                end = (getattr(first, "end_lineno", first.lineno), getattr(first, "end_col_offset", 10 ** 6))
                early = [c for c in walk_no_nested(fn) if isinstance(c, ast.Call) and isinstance(c.func, ast.Attribute) and c.func.attr in ("upper", "lower", "casefold", "title", "swapcase")
                         and isinstance(c.func.value, ast.Name) and c.func.value.id == v and (c.lineno, c.col_offset) < end]
                rep.check(not early, R, f"{un}:{q}", f"{ast.unparse(early[0])} before / inside `{ast.unparse(first)[:60]}`" if early else f"`{v}` case-folded only as text",
                          f"`{v}` is case-folded only after it has been brought to text",
                          witness="oracle10.hash('p\\u00e4ssword', user=u) no longer verifies 'p\\u00e4ssword'.encode(): bytes.upper() leaves the non-ASCII letter alone, str.upper() folds it")
    if n < minimum:
        rep.undecided(R, "<instance-count>", f"only {n} in-function conversions to text found, expected at least {minimum}")


def rule_bytes_case_folding(model, rep, R, prefixes):
    """inside the branch a function takes for *bytes* input (`if / elif isinstance(v, bytes):`), `v.upper()` / `v.lower()` folds the 26 ASCII
    letters only, while the text branch folds every letter: the same password given as text and as encoded bytes then hashes differently"""
    n = 0
    for un, unit in model.units.items():
        if not un.startswith(tuple(prefixes)):
            continue
        for q, fn in unit.functions():
            for node in walk_no_nested(fn):
                if not (isinstance(node, ast.If) and isinstance(node.test, ast.Call) and ast.unparse(node.test.func) == "isinstance" and len(node.test.args) == 2
                        and ast.unparse(node.test.args[1]) == "bytes" and isinstance(node.test.args[0], ast.Name)):
                    continue
                v = node.test.args[0].id
                n += 1
                folds = [c for st in node.body for c in ast.walk(st) if isinstance(c, ast.Call) and isinstance(c.func, ast.Attribute) and c.func.attr in ("upper", "lower", "casefold", "swapcase", "title")
                         and isinstance(c.func.value, ast.Name) and c.func.value.id == v]
                rep.check(not folds, R, f"{un}:{q} bytes branch", f"{ast.unparse(folds[0])}  # on bytes: ASCII letters only" if folds else f"no case folding of `{v}` as bytes",
                          f"`{v}` is not case-folded while it is bytes",
                          witness="lmhash.verify('\\u00e9'.encode('cp437'), lmhash.hash('\\u00e9')) is False: str.upper() folds the letter, bytes.upper() leaves b'\\x82' alone")
    return n
