"""C14 -- token matching honours the window and never accepts a code twice.

Decided: TOTP.match()/_find_match() have the documented decision structure.  The outcome depends on
the counters only through comparisons, so these shape facts fix the decision table:
start = max(last_counter, floor((t+skew-window)/period)) clamped at 0; end = floor((t+skew+window)/period)+1;
ascending scan start <= c < end returning the first hit; `last_counter is None` (not falsiness) means
no history; c == last_counter -> UsedTokenError; empty range / no hit -> InvalidTokenError; malformed
token -> MalformedTokenError before any comparison; comparison by consteq; match() gives no hint that
lets a later counter win over an earlier one.  Not decided: multi-step histories as executed."""
from __future__ import annotations

import ast

from pv.q import text as qtext
from pv.model import AnalysisError, walk_no_nested, params, UNKNOWN
from pv.norm import Normalizer, Poly, single_defs
from pv.q import has_stmt, has_if, find_if, returns, body_texts

T = "passlib.totp"


def site(f):
    return f"{T}:{f}"


def rule_match(model, rep):
    R = "C14.a-window"
    fn = model.func(T, "TOTP.match")
    s = site("TOTP.match")
    sd = single_defs(fn)
    body = body_texts(fn)
    rep.check(body[0] == "time = self.normalize_time(time)", R, s, body[0], "the reference time is normalised first")
    rep.check("client_time = time + skew" in body, R, s, "client_time = time + skew", "client clock = server time + skew",
              witness="skew is subtracted / ignored: codes from a client running ahead are rejected")
    # last_counter None handling
    iff = [n for n in fn.body if isinstance(n, ast.If) and qtext(n.test).loose("last_counter") and any(qtext(x).loose("last_counter = ") for x in n.body)]
    ok = len(iff) == 1 and ast.unparse(iff[0].test) == "last_counter is None" and [ast.unparse(x) for x in iff[0].body] == ["last_counter = -1"]
    rep.check(ok, R, s, ast.unparse(iff[0])[:80] if iff else "<none>", "no history is `last_counter is None` -> -1 (counter 0 is a real counter)",
              witness="last_counter=0 is treated as 'no last counter': the code of the first time step is accepted again and again")
    # start / end as polynomials in the counter helper
    starts = [n for n in fn.body if isinstance(n, ast.Assign) and ast.unparse(n.targets[0]) == "start"]
    ends = [n for n in fn.body if isinstance(n, ast.Assign) and ast.unparse(n.targets[0]) == "end"]
    ok = len(starts) == 1 and ast.unparse(starts[0].value) in ("max(last_counter, self._time_to_counter(client_time - window))",
                                                               "max(self._time_to_counter(client_time - window), last_counter)")
    rep.check(ok, R, s, ast.unparse(starts[0]) if starts else "<none>", "start = max(last_counter, floor((client_time - window) / period))",
              witness="window is converted to whole counter steps (window//period) or the last used counter is not a lower bound: valid codes near a period boundary are rejected / stale codes accepted")
    ok = len(ends) == 1 and ast.unparse(ends[0].value) in ("self._time_to_counter(client_time + window) + 1", "1 + self._time_to_counter(client_time + window)")
    rep.check(ok, R, s, ast.unparse(ends[0]) if ends else "<none>", "end = floor((client_time + window) / period) + 1 (exclusive)",
              witness="the last admissible counter is excluded, or codes beyond the window are accepted")
    # call of _find_match: no `expected` hint (it lets the current counter win over an earlier match)
    calls = [n for n in walk_no_nested(fn) if isinstance(n, ast.Call) and ast.unparse(n.func) == "self._find_match"]
    ok = len(calls) == 1 and [ast.unparse(a) for a in calls[0].args] == ["token", "start", "end"] and not calls[0].keywords
    rep.check(ok, R, s, ast.unparse(calls[0]) if calls else "<none>", "match() scans from `start` upwards without an `expected` hint, so the earliest matching counter wins",
              witness="with two counters in the window producing the same code, the later one is returned: a replay of the code for last_counter is accepted instead of UsedTokenError")
    # used-token check
    used = find_if(fn, "counter == last_counter")
    ok = len(used) == 1 and any(isinstance(x, ast.Raise) and qtext(x).loose("UsedTokenError") for x in used[0].body)
    rep.check(ok, R, s, ast.unparse(used[0])[:100] if used else "<none>", "a match on the last used counter raises UsedTokenError",
              witness="a code is accepted twice")
    if ok:
        rep.check("expire_time=(last_counter + 1) * self.period" in qtext(used[0]), R, s, "expire_time=(last_counter + 1) * self.period", "reported expiry is the end of that counter's period")
    rep.check(body[-1] == "return TotpMatch(self, counter, time, window)", R, s, body[-1], "result carries (counter, reference time, window)")
    rep.check("self._check_serial(window, 'window')" in body, R, s, "window validated", "window must be a non-negative integer")
    # window / skew defaults
    a = fn.args
    dflt = {ar.arg: ast.unparse(d) for ar, d in zip(a.args[-len(a.defaults):], a.defaults)}
    rep.check(dflt.get("window") == "30" and dflt.get("skew") == "0" and dflt.get("last_counter") == "None", R, s, str(dflt), "defaults: window=30, skew=0, last_counter=None")
    from . import shared
    shared.falsy_zero_lint(model, rep, "C14.c-zero-is-a-value", lambda un: un == T, lambda un, q: q.startswith("TOTP.") and q.split(".")[-1] in ("match", "_find_match", "generate", "verify"),
                           witness="last_counter=0 / time=0 / skew=0 are treated as 'not given'")


def rule_find(model, rep):
    R = "C14.b-scan"
    fn = model.func(T, "TOTP._find_match")
    s = site("TOTP._find_match")
    body = body_texts(fn)
    rep.check(body[0] == "token = self.normalize_token(token)", R, s, body[0], "the token is normalised (MalformedTokenError) before any comparison",
              witness="a malformed code is reported as invalid/used instead of malformed")
    rep.check("start = max(start, 0)" in body, R, s, "start = max(start, 0)", "negative counters are never generated")
    emp = find_if(fn, "end <= start")
    rep.check(len(emp) == 1 and [ast.unparse(x) for x in emp[0].body] == ["raise InvalidTokenError"], R, s, "if end <= start: raise InvalidTokenError", "an empty range is an invalid token")
    loops = [n for n in walk_no_nested(fn) if isinstance(n, ast.While)]
    ok = len(loops) == 1 and ast.unparse(loops[0].test) == "counter < end"
    rep.check(ok, R, s, ast.unparse(loops[0].test) if loops else "<none>", "scan condition is counter < end (end exclusive)",
              witness="the scan stops one counter early / runs one past the window")
    if ok:
        lb = [ast.unparse(x) for x in loops[0].body]
        rep.check(lb == ["if consteq(token, generate(counter)):\n    return counter", "counter += 1"], R, s, " | ".join(lb), "ascending scan returning the first counter whose code equals the token (constant-time compare)",
                  witness="descending scan / non-constant-time compare / skipped counters")
    rep.check("counter = start" in body, R, s, "counter = start", "scan starts at `start`")
    rep.check(body[-1] == "raise InvalidTokenError", R, s, body[-1], "no hit -> InvalidTokenError")
    # normalize_token
    fn = model.func(T, "TOTP.normalize_token")
    s2 = site("TOTP.normalize_token")
    rep.check(has_if(fn, "len(token) != digits", ["raise MalformedTokenError('Token must have exactly %d digits' % digits)"]), R, s2, "len(token) != digits -> MalformedTokenError",
              "a code of the wrong length is malformed", witness="a 5-digit code is compared (and maybe zero-extended) instead of refused")
    # content check: only the ten ASCII digits (str.isdigit() alone also accepts Arabic-Indic, full-width, superscript ... digits)
    dig = [n for n in walk_no_nested(fn) if isinstance(n, ast.If) and "isdigit()" in ast.unparse(n.test) and n.body and isinstance(n.body[-1], ast.Raise) and "MalformedTokenError" in ast.unparse(n.body[-1])]
    rep.check(len(dig) == 1, R, s2, "non-digits -> MalformedTokenError", "non-digit characters are malformed")
    if dig:
        tt = ast.unparse(dig[0].test)
        rep.check("isascii()" in tt and tt.startswith("not "), R, s2 + " ascii digits", tt, "the digit test is restricted to ASCII (`isascii() and isdigit()`)",
                  witness="match('\u0661\u0662\u0663\u0664\u0665\u0666', t) is compared against the window and answered InvalidTokenError; the documented result for a non 0-9 token is MalformedTokenError")
    neg = [n for n in walk_no_nested(fn) if isinstance(n, ast.If) and ast.unparse(n.test) in ("token < 0", "0 > token") and n.body and isinstance(n.body[-1], ast.Raise) and "MalformedTokenError" in ast.unparse(n.body[-1])]
    intif = find_if(fn, "isinstance(token, int)")
    rep.check(bool(neg) and bool(intif) and any(x is neg[0] for x in intif[0].body), R, s2 + " negative int", "if token < 0: raise MalformedTokenError  # in the int branch",
              "a negative integer is malformed (its '-' sign would count as a digit position)",
              witness="match(-12345, t) formats to '-12345' (6 characters), passes the length check and is answered InvalidTokenError instead of MalformedTokenError")
    rep.check(has_stmt(fn, "token = '%0*d' % (digits, token)"), R, s2, "int tokens zero-padded to digits", "integer codes are zero-padded to the digit count")
    rep.check(has_stmt(fn, "token = _clean_re.sub('', token)"), R, s2, "separators removed", "blanks and dashes in typed codes are ignored")
    # ... for text and bytes codes alike: the clean-up is applied to the converted text, guarded by nothing but the int / non-int split
    unit_t = model.unit(T)
    subs = [a for a in walk_no_nested(fn) if isinstance(a, ast.Assign) and "_clean_re.sub(" in ast.unparse(a.value)]
    convs = [a for a in walk_no_nested(fn) if isinstance(a, ast.Assign) and ast.unparse(a.value).startswith("to_unicode(token")]
    ok = False
    if len(subs) == 1 and len(convs) == 1:
        guards = []
        cur = subs[0]
        while cur is not None and cur is not fn:
            par = unit_t.parent(cur)
            if isinstance(par, ast.If):
                guards.append(ast.unparse(par.test))
            cur = par
        ok = guards == ["isinstance(token, int)"] and (convs[0].lineno, convs[0].col_offset) < (subs[0].lineno, subs[0].col_offset)
    # bytes that are not text at all are not a code either: the conversion's UnicodeDecodeError is answered as MalformedTokenError
    guarded = False
    if convs:
        t_ = unit_t.enclosing(convs[0], ast.Try)
        guarded = t_ is not None and any(h.type is not None and any(k in ast.unparse(h.type) for k in ("UnicodeDecodeError", "UnicodeError", "ValueError"))
                                         and any(isinstance(x, ast.Raise) and "MalformedTokenError" in ast.unparse(x) for x in h.body) for h in t_.handlers)
    rep.check(guarded, R, s2 + " undecodable bytes", "to_unicode(token) inside try/except -> MalformedTokenError" if guarded else "to_unicode(token, param='token')  # UnicodeDecodeError escapes",
              "a bytes token that is not valid text is malformed (MalformedTokenError), not an internal decoding error",
              witness="match(b'\xff58932', t) raises UnicodeDecodeError, which is no TokenError: an application catching TokenError around match() crashes on submitted input")
    rep.check(ok, R, s2 + " separators for str and bytes", "; ".join(ast.unparse(a) for a in convs + subs)[:140],
              "separators are stripped after the token has been converted to text, for every non-integer token",
              witness="match(b'332 136', t) raises MalformedTokenError although match('332 136', t) is accepted")
    rep.check(has_stmt(fn, "digits = self_or_cls.digits"), R, s2, "digits from object/class", "digit count from the object")
    # TotpMatch properties
    for q, want in (("TotpMatch.skipped", "self.counter - self.expected_counter"), ("TotpMatch.cache_seconds", "self.totp.period + self.window"),
                    ("TotpMatch.cache_time", "self.expire_time + self.window")):
        rep.check(returns(model.func(T, q)) == [want], R, site(q), "; ".join(returns(model.func(T, q))), f"{q} == {want}")
    fn = model.func(T, "TOTP.verify")
    rep.check(returns(fn) == ["cls.from_source(source).match(token, **kwds)"], R, site("TOTP.verify"), "; ".join(returns(fn)), "verify() = from_source(source).match(token, **kwds)")


from . import c13 as _c13  # noqa: E402
from .shared import Renamed as _Renamed  # noqa: E402


def rule_normalize_receiver(model, rep):
    """`normalize_token` is a hybrid method: called on the class it checks the length against the class-level default `digits`, called on an
    instance against that key's own digit count.  Only the instance form may sit on the verification path."""
    R = "C14.e-token-length-per-key"
    T_ = "passlib.totp"
    n = 0
    unit = model.unit(T_)
    for q, fn in unit.functions():
        if not q.startswith("TOTP.") or q == "TOTP.normalize_token":
            continue
        for c in walk_no_nested(fn):
            if isinstance(c, ast.Call) and isinstance(c.func, ast.Attribute) and c.func.attr == "normalize_token":
                n += 1
                recv = ast.unparse(c.func.value)
                rep.check(recv == "self", R, f"{T_}:{q}", f"{recv}.normalize_token(...)", "the token is normalised by the instance that holds the key (its own `digits`)",
                          witness="TOTP.verify('12345678', <source of an 8-digit key>) raises MalformedTokenError: the class-level call checked the length against the default of 6 digits")
    if n < 1:
        rep.undecided(R, "<instance-count>", "no normalize_token call found in TOTP")


def run(model, rep):
    rep.explanation = __doc__
    rule_match(model, rep)
    rule_find(model, rep)
    rule_normalize_receiver(model, rep)
    # the window is counted in time steps: the counter the match starts from is floor(time / period) in integer arithmetic
    _c13.rule_time(model, _Renamed(rep, {"C13.b": "C14.c-time-to-counter"}, "C14.x-"))
    # ... and the candidate a token is compared with is produced by the RFC 4226 kernel from that counter
    _c13.rule_kernel(model, _Renamed(rep, {"C13.a": "C14.d-token-kernel"}, "C14.x-"))
    _c13.rule_digest_size_agreement(model, rep, "C14.d-token-kernel")
    # ... with the key prepared as RFC 2104 says (a key of exactly one block is used as it is)
    from . import prim as _prim
    _prim.rule_hmac(model, rep, "C14.f-hmac-key-prep")
