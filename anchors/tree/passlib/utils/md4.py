"""
passlib.utils.md4 - DEPRECATED MODULE, WILL BE REMOVED IN 2.0

MD4 should now be looked up through ``passlib.crypto.digest.lookup_hash("md4").const``,
which provides unified handling stdlib implementation (if present).
"""

from warnings import warn

from passlib.crypto.digest import lookup_hash

warn(
    "the module 'passlib.utils.md4' is deprecated as of Passlib 1.7, "
    "and will be removed in Passlib 2.0, please use "
    "'lookup_hash(\"md4\").const()' from 'passlib.crypto' instead",
    DeprecationWarning,
)

__all__ = ["md4"]

# this should use hashlib version if available,
# and fall back to builtin version.

md4 = lookup_hash("md4").const
del lookup_hash
