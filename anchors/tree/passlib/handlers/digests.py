"""plain hash digests"""

import hashlib

import passlib.utils.handlers as uh
from passlib.crypto.digest import lookup_hash
from passlib.utils import consteq, render_bytes, to_bytes, to_native_str

__all__ = [
    "create_hex_hash",
    "hex_md4",
    "hex_md5",
    "hex_sha1",
    "hex_sha256",
    "hex_sha512",
]


class HexDigestHash(uh.StaticHandler):
    """this provides a template for supporting passwords stored as plain hexadecimal hashes"""

    _hash_func = None  # hash function to use - filled in by create_hex_hash()
    checksum_size = None  # filled in by create_hex_hash()
    checksum_chars = uh.HEX_CHARS

    #: special for detecting if _hash_func is just a stub method.
    supported = True

    @classmethod
    def _norm_hash(cls, hash):
        return hash.lower()

    def _calc_checksum(self, secret):
        if isinstance(secret, str):
            secret = secret.encode("utf-8")
        return self._hash_func(secret).hexdigest()


def create_hex_hash(digest, module=__name__, django_name=None, required=True):
    """
    create hex-encoded unsalted hasher for specified digest algorithm.

    .. versionchanged:: 1.7.3
        If called with unknown/supported digest, won't throw error immediately,
        but instead return a dummy hasher that will throw error when called.

        set ``required=True`` to restore old behavior.
    """
    info = lookup_hash(digest, required=required)
    name = "hex_" + info.name
    if not info.supported:
        info.digest_size = 0
    hasher = type(
        name,
        (HexDigestHash,),
        dict(
            name=name,
            __module__=module,  # so ABCMeta won't clobber it
            _hash_func=staticmethod(
                info.const
            ),  # sometimes it's a function, sometimes not. so wrap it.
            checksum_size=info.digest_size * 2,
            __doc__=f"""This class implements a plain hexadecimal {info.name} hash, and follows the :ref:`password-hash-api`.

It supports no optional or contextual keywords.
""",
        ),
    )
    if not info.supported:
        hasher.supported = False
    if django_name:
        hasher.django_name = django_name
    return hasher


# NOTE: some digests below are marked as "required=False", because these may not be present on
#       FIPS systems (see issue 116).  if missing, will return stub hasher that throws error
#       if an attempt is made to actually use hash/verify with them.

hex_md4 = create_hex_hash("md4", required=False)
hex_md5 = create_hex_hash("md5", django_name="unsalted_md5", required=False)
hex_sha1 = create_hex_hash("sha1", required=False)
hex_sha256 = create_hex_hash("sha256")
hex_sha512 = create_hex_hash("sha512")


class htdigest(uh.MinimalHandler):
    """htdigest hash function.

    .. todo::
        document this hash
    """

    name = "htdigest"
    setting_kwds = ()
    context_kwds = ("user", "realm", "encoding")
    default_encoding = "utf-8"

    @classmethod
    def hash(cls, secret, user, realm, encoding=None):
        # NOTE: this was deliberately written so that raw bytes are passed through
        # unchanged, the encoding kwd is only used to handle unicode values.
        if not encoding:
            encoding = cls.default_encoding
        uh.validate_secret(secret)
        if isinstance(secret, str):
            secret = secret.encode(encoding)
        user = to_bytes(user, encoding, "user")
        realm = to_bytes(realm, encoding, "realm")
        data = render_bytes("%s:%s:%s", user, realm, secret)
        return hashlib.md5(data).hexdigest()

    @classmethod
    def _norm_hash(cls, hash):
        """normalize hash to native string, and validate it"""
        hash = to_native_str(hash, param="hash")
        if len(hash) != 32:
            raise uh.exc.MalformedHashError(cls, "wrong size")
        for char in hash:
            if char not in uh.LC_HEX_CHARS:
                raise uh.exc.MalformedHashError(cls, "invalid chars in hash")
        return hash

    @classmethod
    def verify(cls, secret, hash, user, realm, encoding="utf-8"):
        hash = cls._norm_hash(hash)
        other = cls.hash(secret, user, realm, encoding)
        return consteq(hash, other)

    @classmethod
    def identify(cls, hash):
        try:
            cls._norm_hash(hash)
        except ValueError:
            return False
        return True

    @uh.deprecated_method(deprecated="1.7", removed="2.0")
    @classmethod
    def genconfig(cls):
        return cls.hash("", "", "")

    @uh.deprecated_method(deprecated="1.7", removed="2.0")
    @classmethod
    def genhash(cls, secret, config, user, realm, encoding=None):
        # NOTE: 'config' is ignored, as this hash has no salting / other configuration.
        #       just have to make sure it's valid.
        cls._norm_hash(config)
        return cls.hash(secret, user, realm, encoding)
