#!/venv/bin/python
"""Parallel seed evaluation on scratch copies (never touches /repo):
   for each seeded/<Cxx-k>/patch.diff: copy /repo's packages to a temp dir, apply the patch there, run the quick checks
   with PV_REPO pointing at the copy, remove the copy.   usage: seedeval_par.py <dir> [--props C01,..] [--only Cxx/k] [-j N]"""
import json, os, subprocess, sys, glob, shutil, tempfile
from concurrent.futures import ProcessPoolExecutor
VERIF = os.path.dirname(os.path.dirname(os.path.abspath(__file__)))
ALL = ["C%02d" % i for i in range(1, 21)]


def one(args):
    patch, props, own_only = args
    d = os.path.basename(os.path.dirname(patch))
    pid, k = d.split("-", 1) if "-" in d else (patch.split(os.sep)[-3], patch.split(os.sep)[-2])
    title = ""
    try:
        title = json.load(open(os.path.join(os.path.dirname(patch), "meta.json"))).get("title", "")
    except Exception:
        pass
    tmp = tempfile.mkdtemp(prefix="pv-seed-")
    try:
        for pkg in ("passlib", "libpass"):
            shutil.copytree(os.path.join("/repo", pkg), os.path.join(tmp, pkg))
        r = subprocess.run(["git", "apply", patch], cwd=tmp, capture_output=True, text=True)
        if r.returncode != 0:
            r = subprocess.run(["patch", "-p1", "-s", "-i", patch], cwd=tmp, capture_output=True, text=True)
        if r.returncode != 0:
            return (pid, k, "APPLY-FAILED", title)
        env = dict(os.environ, PV_REPO=tmp, PV_EVIDENCE_DIR=os.path.join(tmp, "ev"))
        hits = []
        for p in ([pid] if own_only else props):
            c = subprocess.run([os.path.join(VERIF, "check"), p], capture_output=True, text=True, cwd=VERIF, env=env)
            if c.returncode == 1:
                rule = [l.strip() for l in c.stdout.splitlines() if l.strip().startswith("rule=")]
                hits.append(f"{p}:{rule[0].split()[0][5:] if rule else '?'}")
            elif c.returncode == 2:
                hits.append(f"{p}:ERR")
        own = [h for h in hits if h.startswith(pid + ":") and not h.endswith(":ERR")]
        real = [h for h in hits if not h.endswith(":ERR")]
        return (pid, k, ("CAUGHT " if own else ("other  " if real else "MISSED ")) + ",".join(hits), title)
    finally:
        shutil.rmtree(tmp, ignore_errors=True)


def main(argv):
    root = argv[0]
    props, only, jobs, own_only = ALL, None, 16, False
    for i, a in enumerate(argv):
        if a == "--props": props = argv[i + 1].split(",")
        if a == "--only": only = argv[i + 1]
        if a == "-j": jobs = int(argv[i + 1])
        if a == "--own": own_only = True
    patches = sorted(glob.glob(os.path.join(root, "C*", "*", "patch.diff")) + glob.glob(os.path.join(root, "C*-*", "patch.diff")))
    if only:
        patches = [p for p in patches if only.replace("/", "-") in p or only in p]
    with ProcessPoolExecutor(jobs) as ex:
        rows = list(ex.map(one, [(p, props, own_only) for p in patches]))
    for r in rows:
        print(f"{r[0]}/{r[1]}: {r[2]:70} | {r[3][:80]}")
    print("caught-by-own:", sum(1 for r in rows if r[2].startswith("CAUGHT")), "other:", sum(1 for r in rows if r[2].startswith("other")),
          "missed:", sum(1 for r in rows if r[2].startswith("MISSED")), "apply-failed:", sum(1 for r in rows if r[2].startswith("APPLY")), "of", len(rows))


if __name__ == "__main__":
    main(sys.argv[1:])
