"""passlib.handlers -- holds implementations of all passlib's builtin hash formats"""
