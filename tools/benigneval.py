#!/venv/bin/python
"""Behaviour-preserving patches must leave every check silent.
   benigneval.py <dir with Cxx/k/patch.diff or Cxx-bk/patch.diff> [-j N] [--only Cxx/k]
   For each patch: copy /repo's packages to a temp dir, apply, run all 20 quick checks with PV_REPO on the copy, list every alarm
   (VIOLATION rule+site, ANALYSIS-ERROR).  Never touches /repo."""
import glob, json, os, shutil, subprocess, sys, tempfile
from concurrent.futures import ProcessPoolExecutor
VERIF = os.path.dirname(os.path.dirname(os.path.abspath(__file__)))
ALL = ["C%02d" % i for i in range(1, 21)]


def one(patch):
    d = os.path.dirname(patch)
    label = "/".join(d.split(os.sep)[-2:]) if not os.path.basename(d).startswith("C") else os.path.basename(d)
    try:
        title = json.load(open(os.path.join(d, "meta.json"))).get("title", "")
    except Exception:
        title = ""
    tmp = tempfile.mkdtemp(prefix="pv-benign-")
    try:
        for pkg in ("passlib", "libpass"):
            shutil.copytree(os.path.join("/repo", pkg), os.path.join(tmp, pkg))
        r = subprocess.run(["git", "apply", patch], cwd=tmp, capture_output=True, text=True)
        if r.returncode != 0:
            r = subprocess.run(["patch", "-p1", "-s", "-i", patch], cwd=tmp, capture_output=True, text=True)
        if r.returncode != 0:
            return (label, title, None)
        env = dict(os.environ, PV_REPO=tmp, PV_EVIDENCE_DIR=os.path.join(tmp, "ev"))
        alarms = []
        for p in ALL:
            c = subprocess.run([os.path.join(VERIF, "check"), p], capture_output=True, text=True, cwd=VERIF, env=env)
            if c.returncode == 0:
                continue
            for l in c.stdout.splitlines():
                s = l.strip()
                if s.startswith("rule="):
                    alarms.append(f"{p} V {s[:170]}")
                elif s.startswith("ANALYSIS-ERROR"):
                    alarms.append(f"{p} E {s[15:185]}")
        return (label, title, alarms)
    finally:
        shutil.rmtree(tmp, ignore_errors=True)


def main(argv):
    root, jobs, only = argv[0], 16, None
    for i, a in enumerate(argv):
        if a == "-j": jobs = int(argv[i + 1])
        if a == "--only": only = argv[i + 1]
    patches = sorted(glob.glob(os.path.join(root, "C*", "*", "patch.diff")) + glob.glob(os.path.join(root, "C*-*", "patch.diff")))
    if only:
        patches = [p for p in patches if only in p]
    with ProcessPoolExecutor(jobs) as ex:
        rows = list(ex.map(one, patches))
    quiet = 0
    for label, title, alarms in rows:
        if alarms is None:
            print(f"{label}: APPLY-FAILED | {title[:90]}")
        elif not alarms:
            quiet += 1
            print(f"{label}: silent | {title[:90]}")
        else:
            print(f"{label}: {len(alarms)} ALARM(S) | {title[:90]}")
            for a in alarms[:12]:
                print("      " + a)
    print(f"silent: {quiet} of {len(rows)}; with alarms: {sum(1 for r in rows if r[2])}; apply-failed: {sum(1 for r in rows if r[2] is None)}")
    return 0 if quiet == len(rows) else 1


if __name__ == "__main__":
    sys.exit(main(sys.argv[1:]))
