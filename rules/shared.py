"""Facts that are necessary conditions of more than one property (each property reports them under its own rule id)."""
from __future__ import annotations

import ast

from pv.model import walk_no_nested

CTX = "passlib.context"


def fact_iter_config_by_key(model, rep, R):
    fn = model.func(CTX, "_CryptConfig.iter_config")
    tries = [n for n in walk_no_nested(fn) if isinstance(n, ast.Try)]
    ok = len(tries) == 2 and all(len(x.handlers) == 1 and ast.unparse(x.handlers[0].type) == "KeyError" and x.orelse for x in tries)
    rep.check(ok, R, f"{CTX}:_CryptConfig.iter_config", f"{len(tries)} try/except KeyError lookups",
              "per-category options are exported whenever the key exists (try/except KeyError), also when the value is empty or zero",
              witness="a category override `deprecated=[]` (or vary_rounds=0) disappears on copy()/update()/to_dict(): the category inherits the global list again "
                      "and hashes the policy keeps are flagged for rehash")


def fact_expand_settings(model, rep, R):
    fn = model.func(CTX, "_CryptConfig.expand_settings")
    t = ast.unparse(fn)
    ok = "setting_kwds = handler.setting_kwds" in t and "setting_kwds += uh.HasRounds.using_rounds_kwds" in t and t.rstrip().endswith("return setting_kwds")
    rep.check(ok, R, f"{CTX}:_CryptConfig.expand_settings", t.split("\n", 1)[-1].replace("\n", " ; ")[:160],
              "the allowed settings of a handler are its own setting_kwds, *extended* by the rounds keywords when it has rounds",
              witness="a context-wide truncate_error=True (or vary_rounds) is silently dropped for hashers that have a rounds setting (bcrypt): "
                      "over-long passwords are truncated although the policy forbids it")
    g = model.fold(model.unit(CTX), ast.Name(id="_global_settings", ctx=ast.Load()))
    rep.check(isinstance(g, set) and "truncate_error" in g, R, f"{CTX}:_global_settings", repr(g), "truncate_error is a context-wide setting")
