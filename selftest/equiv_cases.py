#!/venv/bin/python
"""Unit cases for pv/equiv.py (the equivalence-by-normalisation layer).

NEQ pairs are behaviourally different and must never get equal normal forms (each one is a way the layer could hide a real change from the
rules); EQ pairs are the same function spelt twice and should be proven.  A NEQ pair that is proven equal fails the run; an EQ pair that
is not proven only prints a note (precision, not soundness).

usage: selftest/equiv_cases.py      exit 0 = no unsound proof
"""
import ast, os, sys, textwrap
sys.path.insert(0, os.path.dirname(os.path.dirname(os.path.abspath(__file__))))
from pv import equiv

NEQ = [
    ("snapshot before a method call vs read after it", """
def f(self, x):
    old = self.state
    self.advance(x)
    return old
""", """
def f(self, x):
    self.advance(x)
    return self.state
"""),
    ("attribute read moved behind a method call inside one expression", """
def f(self, x):
    t = self.count
    return g(self.bump(), t)
""", """
def f(self, x):
    return g(self.bump(), self.count)
"""),
    ("length read before / after the object is handed to a callee", """
def f(self, x):
    n = len(self.items)
    fill(self.items)
    return n
""", """
def f(self, x):
    fill(self.items)
    return len(self.items)
"""),
    ("snapshot of an attribute across handing self over", """
def f(self):
    a = self.salt
    reset(self)
    return a
""", """
def f(self):
    reset(self)
    return self.salt
"""),
    ("snapshot across a nested function that can see self", """
def f(self):
    def bump():
        self.n = 1
    a = self.n
    bump()
    return a
""", """
def f(self):
    def bump():
        self.n = 1
    bump()
    return self.n
"""),
    ("one list shared vs a fresh list per use", """
def f(a):
    parts = []
    g(parts)
    return parts
""", """
def f(a):
    g([])
    return []
"""),
    ("super() of another class", """
class C(B):
    def f(self):
        return super(B, self).f()
""", """
class C(B):
    def f(self):
        return super().f()
"""),
    ("< is not the complement of >= without integer evidence", """
def f(a, b):
    if not a < b:
        return 1
    return 2
""", """
def f(a, b):
    if a >= b:
        return 1
    return 2
"""),
    ("off-by-one in a range", """
def f(n):
    out = []
    for i in range(n):
        out.append(i)
    return out
""", """
def f(n):
    out = []
    for i in range(n + 1):
        out.append(i)
    return out
"""),
    ("and / or swapped", """
def f(a, b):
    return a and b
""", """
def f(a, b):
    return a or b
"""),
    ("impure calls reordered", """
def f(a):
    x = g(a)
    y = h(a)
    return x, y
""", """
def f(a):
    y = h(a)
    x = g(a)
    return x, y
"""),
    ("guard dropped", """
def f(a):
    if a is None:
        raise ValueError("a")
    return a.b
""", """
def f(a):
    return a.b
"""),
    ("first match vs last match", """
def f(xs):
    r = None
    for x in xs:
        if x.ok:
            r = x
            break
    return r
""", """
def f(xs):
    r = None
    for x in xs:
        if x.ok:
            r = x
    return r
"""),
    ("new optional parameter whose default changes behaviour", """
def f(a, strict=True):
    if strict and a < 0:
        raise ValueError
    return a
""", """
def f(a):
    return a
"""),
    ("exception class changed", """
def f(a):
    raise ValueError(a)
""", """
def f(a):
    raise TypeError(a)
"""),
    ("x or d is not `d if x is None`", """
def f(x, d):
    return x or d
""", """
def f(x, d):
    return d if x is None else x
"""),
    ("value of a name captured before / after its re-assignment", """
def f(a):
    t = a
    a = a + 1
    return t
""", """
def f(a):
    a = a + 1
    return a
"""),
    ("item read moved behind a mutating method of the same local", """
def f(lst):
    t = lst[0]
    return g(lst.pop(), t)
""", """
def f(lst):
    return g(lst.pop(), lst[0])
"""),
    ("try scope widened", """
def f(d, k):
    try:
        v = d[k]
    except KeyError:
        return None
    return g(v)
""", """
def f(d, k):
    try:
        return g(d[k])
    except KeyError:
        return None
"""),
    ("constant changed", """
def f():
    return 0xFFFFFFFF
""", """
def f():
    return 0x7FFFFFFF
"""),
]

NEQ += [
    ("counter loop whose body skips the increment with continue", """
def f(xs, n):
    i = 0
    out = []
    while i < n:
        if xs[i] is None:
            continue
        out.append(xs[i])
        i += 1
    return out
""", """
def f(xs, n):
    out = []
    for i in range(n):
        if xs[i] is None:
            continue
        out.append(xs[i])
    return out
"""),
    ("counter read after the loop", """
def f(n):
    i = 0
    while i < n:
        g(i)
        i += 2
    return i
""", """
def f(n):
    for i in range(0, n, 2):
        g(i)
    return i
"""),
    ("bound that the body moves", """
def f(n):
    i = 0
    while i < n:
        n = g(i, n)
        i += 1
    return n
""", """
def f(n):
    for i in range(n):
        n = g(i, n)
    return n
"""),
    ("module constant with another value", """
_K = 8
def f(s):
    return s[:_K]
""", """
def f(s):
    return s[:16]
"""),
    ("local that hides the module constant", """
_K = 8
def f(s, _K):
    return s[:_K]
""", """
def f(s, _K):
    return s[:8]
"""),
]

EQ = [
    ("index loop with a next-index temporary", """
def f(s):
    k = g(s)
    idx = 8
    end = len(s)
    while idx < end:
        nxt = idx + 8
        k = h(k, s[idx:nxt])
        idx = nxt
    return k
""", """
def f(s):
    k = g(s)
    for idx in range(8, len(s), 8):
        k = h(k, s[idx:idx + 8])
    return k
"""),
    ("literal hoisted into a module constant", """
_MASK = (1 << 32) - 1
def f(x):
    return x & _MASK
""", """
def f(x):
    return x & 0xFFFFFFFF
"""),
    ("abbreviation of an attribute with no call in between", """
def f(self, x):
    salt = self.salt
    return g(salt, x, salt)
""", """
def f(self, x):
    return g(self.salt, x, self.salt)
"""),
    ("snapshot that only crosses a returning branch", """
def f(self, secret):
    salt = self.salt
    h = crypt(secret, salt)
    if h is None:
        return self.fallback(secret)
    return h.startswith(salt)
""", """
def f(self, secret):
    h = crypt(secret, self.salt)
    if h is None:
        return self.fallback(secret)
    return h.startswith(self.salt)
"""),
    ("guard clause vs else", """
def f(a):
    if a:
        return 1
    else:
        return 2
""", """
def f(a):
    if not a:
        return 2
    return 1
"""),
    ("percent format vs f-string", """
def f(a, b):
    return "%s:%d" % (a, b)
""", """
def f(a, b):
    return f"{a}:{b:d}"
"""),
    ("renamed locals and a temporary", """
def f(a, b):
    total = a + b
    return g(total)
""", """
def f(a, b):
    return g(a + b)
"""),
    ("new optional parameter with a neutral default", """
def f(a, extra=()):
    out = [a]
    out.extend(extra)
    return out
""", """
def f(a):
    out = [a]
    return out
"""),
]


def _nf(src):
    tree = ast.parse(textwrap.dedent(src))
    env = equiv._const_env(tree)
    node = [n for n in tree.body if isinstance(n, (ast.FunctionDef, ast.ClassDef))][0]
    if env and isinstance(node, ast.FunctionDef):
        node = equiv._fold_consts(node, env)
    if isinstance(node, ast.ClassDef):
        fn = node.body[0]
        return equiv.normal_form(fn, None, True, ast.unparse(node.bases[0]) if len(node.bases) == 1 else None), fn
    return equiv.normal_form(node), node


def _same(a, b):
    (na, fa), (nb, fb) = _nf(a), _nf(b)
    if na == nb:
        return True
    for new, old in ((fa, fb), (fb, fa)):
        sp = equiv._specialise_new_params(new, old)
        if sp is not None and equiv.normal_form(sp) == equiv.normal_form(old):
            return (new is fa)      # only `a` extends `b` counts (a = current tree, b = reference)
    return False


def main():
    bad = 0
    for label, a, b in NEQ:
        if _same(a, b) or _same(b, a):
            print(f"UNSOUND: proven equal although different: {label}")
            bad += 1
    miss = 0
    for label, a, b in EQ:
        if not _same(a, b):
            print(f"note: not proven (precision): {label}")
            miss += 1
    print(f"equiv cases: {len(NEQ)} different pairs, {bad} wrongly proven; {len(EQ)} equal pairs, {len(EQ) - miss} proven")
    return 1 if bad else 0


if __name__ == "__main__":
    sys.exit(main())
