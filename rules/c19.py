"""C19 -- first use from several threads behaves like first use from one.

Decided: the lock-set and publication-order discipline that makes lazy first use safe:
(a) each self-initialising class runs its initialiser under a lock, re-checks the pending state
inside it, keeps at least one guard variable (read by __getattribute__) blocking until the object is
fully initialised and its class switched, and is entered through the defining class;
(b) table loaders publish the global that readers test *last*; (c) backend state is written only in
set_backend's locked region, and a value written there is not tested-to-raise outside it;
(d) steady-state code never writes class- or module-level state (who-may-write whitelist);
(e) registry lazy import tolerates concurrent registration of the identical object.
Not decided: arbitrary interleavings of code outside these constructs."""
from __future__ import annotations

import ast

from pv.q import text as qtext
from pv.model import AnalysisError, walk_no_nested, params, UNKNOWN

UH = "passlib.utils.handlers"


def site(u, f):
    return f"{u}:{f}"


def _is_lock(model, unit, expr, cls=None):
    """does `expr` (Name / Attribute) name a threading.Lock/RLock created at module or class level?"""
    if isinstance(expr, ast.Name):
        v = unit.assigns.get(expr.id)
        if v and isinstance(v[-1], ast.Call) and model.dotted(unit, v[-1].func) in ("threading.Lock", "threading.RLock"):
            return model.dotted(unit, v[-1].func)
    if isinstance(expr, ast.Attribute) and isinstance(expr.value, ast.Name):
        owner = expr.value.id
        if owner in ("self", "cls") and cls is not None:
            owner = cls.name
        c = unit.classes.get(owner)
        if c is not None:
            for st in c.body:
                if isinstance(st, ast.Assign) and any(isinstance(t, ast.Name) and t.id == expr.attr for t in st.targets) \
                        and isinstance(st.value, ast.Call) and model.dotted(unit, st.value.func) in ("threading.Lock", "threading.RLock"):
                    return model.dotted(unit, st.value.func)
    return None


def _lazy_classes(model):
    """classes whose __getattribute__ calls _lazy_init"""
    out = []
    for un, unit in model.units.items():
        for cn, c in unit.classes.items():
            ga = next((st for st in c.body if isinstance(st, ast.FunctionDef) and st.name == "__getattribute__"), None)
            li = next((st for st in c.body if isinstance(st, ast.FunctionDef) and st.name == "_lazy_init"), None)
            if ga is not None and li is not None:
                out.append((un, unit, c, ga, li))
    return out


def _linear(stmts):
    """statements in execution order on the normal path, descending into with/try(+finally)/if bodies"""
    for st in stmts:
        if isinstance(st, ast.With):
            yield st
            yield from _linear(st.body)
        elif isinstance(st, ast.Try):
            yield from _linear(st.body)
            yield from _linear(st.orelse)
            yield from _linear(st.finalbody)
        elif isinstance(st, ast.If):
            yield st
            yield from _linear(st.body)
            yield from _linear(st.orelse)
        else:
            yield st


def rule_a(model, rep):
    R = "C19.a-guarded-lazy-init"
    lazy = _lazy_classes(model)
    for un, unit, c, ga, li in lazy:
        s = site(un, c.name + "._lazy_init")
        sg = site(un, c.name + ".__getattribute__")
        # guard variables read by __getattribute__
        guards = set()
        for n in ast.walk(ga):
            if isinstance(n, ast.Call) and ast.unparse(n.func) in ("object.__getattribute__", "getattribute") and len(n.args) == 2 \
                    and isinstance(n.args[1], ast.Constant) and isinstance(n.args[1].value, str):
                guards.add(n.args[1].value)
            if isinstance(n, ast.Attribute) and isinstance(n.value, ast.Name) and n.value.id == "self" and n.attr.startswith("_lazy") \
                    and n.attr != "_lazy_init":
                guards.add(n.attr)
        if not guards:
            rep.violation(R, sg, "__getattribute__ reads no pending-state variable",
                          "every attribute access re-runs the initialiser; there is no state telling a second thread whether initialisation is complete",
                          witness="a second thread entering during initialisation re-initialises / sees a half-built object")
            # continue analysing the initialiser with the variables it clears
            for n in ast.walk(li):
                if isinstance(n, ast.Attribute) and isinstance(n.value, ast.Name) and n.value.id == "self" and n.attr.startswith("_lazy"):
                    guards.add(n.attr)
        # 1. body under a lock
        body = [st for st in li.body if not (isinstance(st, ast.Expr) and isinstance(st.value, ast.Constant))]
        w = body[0] if body and isinstance(body[0], ast.With) else None
        lock = None
        if w is not None and len(body) == 1:
            for it in w.items:
                lock = lock or _is_lock(model, unit, it.context_expr, c)
        rep.check(lock is not None, R, s, ast.unparse(w.items[0].context_expr) if w else "<no with-statement>",
                  "the whole initialiser runs under a threading lock",
                  witness="two threads on their first call both run the initialiser; the second finds the pending options already deleted -> AttributeError/TypeError")
        inner = w.body if (w is not None and lock) else body
        # 2. re-check inside the lock:  X = self.<guard>; if X is None: return
        recheck = False
        for st in inner[:4]:
            if isinstance(st, ast.If) and any(isinstance(x, ast.Return) for x in st.body) and " is None" in qtext(st.test):
                recheck = True
        rep.check(recheck, R, s, "if <pending> is None: return", "the pending state is re-checked after the lock is acquired",
                  witness="the thread that waited on the lock initialises the object a second time (kwds already consumed)")
        # 3. publication order: simulate guard variables over the linearised body
        state = {g: (True if ("opts" in g or "kwds" in g) else False) for g in guards}
        init_seen = class_seen = False
        bad = []
        for st in _linear(inner):
            txt = qtext(st) if not isinstance(st, (ast.With, ast.If)) else ""
            for g in guards:
                if isinstance(st, ast.Assign) and ast.unparse(st.targets[0]) == f"self.{g}":
                    v = st.value
                    state[g] = not (isinstance(v, ast.Constant) and v.value in (None, False))
                if isinstance(st, ast.Delete) and any(ast.unparse(t) == f"self.{g}" for t in st.targets):
                    state[g] = False
            if not isinstance(st, (ast.With, ast.If)):
                is_guard_store = any(isinstance(st, ast.Assign) and ast.unparse(st.targets[0]) == f"self.{g}" for g in guards)
                if not init_seen and not any(state.values()) and not is_guard_store and not isinstance(st, ast.Return):
                    bad.append(("gap-before-init", st))
                if ".__init__(" in txt:
                    init_seen = True
                    if not any(state.values()) and not any(k == "gap-before-init" and x is st for k, x in bad):
                        bad.append(("init", st))
                if txt.startswith("self.__class__ ="):
                    # NOTE: the switch itself is an optimisation (the lazy class is a subclass of the target and behaves
                    #       identically once initialised), so it may come after the guards are cleared
                    class_seen = True
                    if not init_seen:
                        bad.append(("class-switch-before-init", st))
        if not init_seen or not class_seen:
            rep.undecided(R, s, "super().__init__ / __class__ switch not found in the initialiser")
        else:
            rep.check(not bad, R, s, "; ".join(f"{k}: `{ast.unparse(st)[:60]}` runs with every guard ({', '.join(sorted(guards))}) already cleared" for k, st in bad)
                      or f"guards {sorted(guards)} stay set until after init and class switch",
                      "the ready state is published last: until initialisation and the class switch are done, a guard read by __getattribute__ still blocks",
                      witness="a second thread arriving between 'pending options cleared' and 'class switched' skips initialisation and gets AttributeError")
            rep.check(not any(state.values()), R, s, f"final guard state {state}", "all guards are cleared at the end (no re-initialisation afterwards)")
        # 4. entered through the defining class
        calls = [n for n in ast.walk(ga) if isinstance(n, ast.Call) and ast.unparse(n.func).endswith("_lazy_init")]
        ok = len(calls) == 1 and ast.unparse(calls[0].func) == f"{c.name}._lazy_init" and [ast.unparse(a) for a in calls[0].args] == ["self"]
        rep.check(ok, R, sg, ast.unparse(calls[0]) if calls else "<none>",
                  f"initialiser is invoked as {c.name}._lazy_init(self): an attribute lookup on self fails once another thread has switched the class",
                  witness="thread B passes the pending test, thread A finishes and switches __class__, thread B's self._lazy_init lookup raises AttributeError")
        # 5. the guards are read without recursion (object.__getattribute__)
        raw = all(not (isinstance(n, ast.Attribute) and isinstance(n.value, ast.Name) and n.value.id == "self" and n.attr in guards)
                  for n in ast.walk(ga))
        rep.check(raw, R, sg, "guards read via object.__getattribute__", "guard reads do not recurse into __getattribute__")
    rep.minimum(R, 10)
    rep.extra["lazy_classes"] = [f"{un}:{c.name}" for un, _, c, _, _ in lazy]


def rule_b(model, rep):
    R = "C19.b-flag-published-last"
    n = 0
    for un, unit in model.units.items():
        for lname, L in unit.funcs.items():
            globs = [nm for st in L.body if isinstance(st, ast.Global) for nm in st.names]
            none_init = [g for g in globs if g in unit.assigns and any(isinstance(v, ast.Constant) and v.value is None for v in unit.assigns[g])
                         or g in _chain_none(unit)]
            if len(none_init) < 2:
                continue
            order = []
            for st in L.body:
                if isinstance(st, ast.Assign):
                    for t in st.targets:
                        for nm in ast.walk(t):
                            if isinstance(nm, ast.Name) and nm.id in none_init and nm.id not in order:
                                order.append(nm.id)
            if len(order) < 2:
                continue
            # readers:  if X is None: L()
            for q, fn in unit.functions():
                for node in walk_no_nested(fn):
                    if isinstance(node, ast.If) and isinstance(node.test, ast.Compare) and isinstance(node.test.ops[0], ast.Is) \
                            and isinstance(node.test.left, ast.Name) and node.test.left.id in none_init \
                            and any(isinstance(x, ast.Call) and ast.unparse(x.func) == lname for y in node.body for x in ast.walk(y)):
                        n += 1
                        tested = node.test.left.id
                        rep.check(tested == order[-1], R, site(un, q), f"if {tested} is None: {lname}()  # {lname} assigns {' -> '.join(order)}",
                                  f"the global a reader tests must be the one `{lname}` assigns last ({order[-1]})",
                                  witness=f"thread B sees {tested} set while {order[-1]} is still None and uses a None table (TypeError)")
    rep.minimum(R, 2)


def _chain_none(unit):
    """names initialised by a chained `A = B = C = None` at module level"""
    out = set()
    for st in unit.tree.body:
        if isinstance(st, ast.Assign) and isinstance(st.value, ast.Constant) and st.value.value is None:
            for t in st.targets:
                if isinstance(t, ast.Name):
                    out.add(t.id)
    return out


WRITER_WHITELIST = {
    "_load_backend_mixin": "backend loader: runs only inside set_backend()'s `with _backend_lock`",
    "_finalize_backend_mixin": "backend feature detection: called only from the loaders, under _backend_lock",
    "set_backend": "owner of backend state, inside `with _backend_lock`",
    "_set_calc_checksum_backend": "called only from loaders, under _backend_lock",
    "_load_tables": "idempotent table loader (publish-last checked by C19.b)",
    "_init_constants": "idempotent table loader (publish-last checked by C19.b)",
    "_set_backend": "passlib.crypto.scrypt backend switch (application start-up API)",
    "_lazy_init": "lazy initialiser (C19.a)",
    "_set_mock_fips_mode": "unit-test helper",
    "_import_des_crypt": "idempotent lazy import",
}


def rule_cd(model, rep):
    RC, RD = "C19.c-backend-lock", "C19.d-steady-state-writes"
    # D: who may write class / module level state
    for un, unit in model.units.items():
        if not un.startswith("passlib.") or un.startswith(("passlib.ext", "passlib.apache", "passlib.totp", "passlib.pwd", "passlib.registry",
                                                           "passlib.context", "passlib.utils.decor")):
            continue
        for q, fn in unit.functions():
            short = q.split(".")[-1]
            globs = {nm for n in walk_no_nested(fn) if isinstance(n, ast.Global) for nm in n.names}
            for node in walk_no_nested(fn):
                tg = []
                if isinstance(node, ast.Assign):
                    tg = node.targets
                elif isinstance(node, (ast.AugAssign, ast.AnnAssign)):
                    tg = [node.target]
                elif isinstance(node, ast.Delete):
                    tg = node.targets
                for t in tg:
                    for tt in (t.elts if isinstance(t, (ast.Tuple, ast.List)) else [t]):
                        kind = None
                        if isinstance(tt, ast.Attribute) and isinstance(tt.value, ast.Name) and tt.value.id in ("cls", "mixin_cls"):
                            kind = "class attribute"
                        elif isinstance(tt, ast.Attribute) and ast.unparse(tt.value) in ("type(self)", "self.__class__"):
                            kind = "class attribute"
                        elif isinstance(tt, ast.Name) and tt.id in globs:
                            kind = "module global"
                        elif isinstance(tt, ast.Attribute) and tt.attr == "__class__":
                            kind = "__class__"
                        if kind is None:
                            continue
                        if short == "using" or fn.name == "using":
                            continue  # writes to the fresh subclass are checked by C09
                        ok = short in WRITER_WHITELIST
                        rep.check(ok, RD, site(un, q), ast.unparse(node)[:100],
                                  f"{kind} written by `{short}`" + (f": {WRITER_WHITELIST[short]}" if ok else
                                                                    " -- not one of the audited initialisation functions"),
                                  witness="hash()/verify() on a shared hasher mutates class- or module-level state: concurrent calls interfere")
    rep.minimum(RD, 20)
    # C: _stub_requires_backend tests a value written under the lock and raises
    fn = model.func(UH, "BackendMixin._stub_requires_backend")
    first = next((st for st in fn.body if not (isinstance(st, ast.Expr) and isinstance(st.value, ast.Constant))), None)
    raises_on_set = isinstance(first, ast.If) and ast.unparse(first.test) == "cls.__backend" and any(isinstance(x, ast.Raise) for x in first.body)
    unit = model.unit(UH)
    in_lock = first is not None and unit.enclosing(first, ast.With) is not None
    if raises_on_set and not in_lock:
        rep.violation(RC, site(UH, "BackendMixin._stub_requires_backend"), "if cls.__backend: raise AssertionError  # outside _backend_lock",
                      "`__backend` is written by another thread inside set_backend()'s locked region; testing it to *raise* outside the lock "
                      "turns a finished concurrent set_backend() into an error",
                      witness="schedule: T1 and T2 make the first hash on a fresh multi-backend hasher; T2 has entered the stub, T1 completes "
                              "set_backend(); T2's _stub_requires_backend() sees __backend set and raises AssertionError")
    else:
        rep.hold(RC, site(UH, "BackendMixin._stub_requires_backend"), "does not raise on a backend set concurrently")
    txt = qtext(fn)
    rep.check("cls.set_backend()" in txt, RC, site(UH, "BackendMixin._stub_requires_backend"), "cls.set_backend()", "stub loads the default backend")
    # stubs re-dispatch after loading
    fn = model.func(UH, "HasManyBackends._calc_checksum_backend")
    body = [ast.unparse(x) for x in fn.body if not (isinstance(x, ast.Expr) and isinstance(x.value, ast.Constant))]
    rep.check(body == ["self._stub_requires_backend()", "return self._calc_checksum_backend(secret)"], RC, site(UH, "HasManyBackends._calc_checksum_backend"),
              " | ".join(body), "stub loads a backend, then re-dispatches to the installed function")
    # set_backend: state written in order (function installed by loader before __backend names it)
    sb = model.func(UH, "BackendMixin.set_backend")
    w = [n for n in ast.walk(sb) if isinstance(n, ast.With) and any(ast.unparse(i.context_expr) == "_backend_lock" for i in n.items)]
    cond = [n for n in ast.walk(sb) if isinstance(n, ast.With) and any("_backend_lock" in ast.unparse(i.context_expr) and ast.unparse(i.context_expr) != "_backend_lock" for i in n.items)]
    if cond:
        rep.violation(RC, site(UH, "BackendMixin.set_backend"), f"with {ast.unparse(cond[0].items[0].context_expr)}:  # the lock is taken on some calls only",
                      "every call that runs a backend loader holds _backend_lock: loaders write the shared pending / backend state, also when they only probe (dryrun)",
                      witness="schedule: T1 bcrypt.has_backend('os_crypt') (a dry-run probe without the lock) overlaps T2's first hash(): T2 raises AssertionError 'failed to replace lazy loader' and the hasher stays broken")
    elif len(w) != 1:
        rep.undecided(RC, site(UH, "BackendMixin.set_backend"), "locked region not found")
    else:
        order = [ast.unparse(st)[:40] for st in _linear(w[0].body) if not isinstance(st, (ast.With, ast.If))]
        i_load = next((i for i, t in enumerate(order) if t.startswith("cls._set_backend(name, dryrun)")), None)
        i_pub = next((i for i, t in enumerate(order) if t.startswith("cls.__backend = name")), None)
        rep.check(i_load is not None and i_pub is not None and i_load < i_pub, RC, site(UH, "BackendMixin.set_backend"), " ; ".join(order),
                  "the backend name is published after the loader has installed the implementation",
                  witness="a thread that sees __backend set skips set_backend() while _calc_checksum_backend is still the stub")
    # every store to shared class state in set_backend lies inside the locked region
    if len(w) == 1:
        inside = {id(n) for n in ast.walk(w[0])}
        nst = 0
        for node in walk_no_nested(sb):
            tg = node.targets if isinstance(node, ast.Assign) else ([node.target] if isinstance(node, (ast.AugAssign, ast.AnnAssign)) else [])
            for t in tg:
                for tt in (t.elts if isinstance(t, (ast.Tuple, ast.List)) else [t]):
                    if isinstance(tt, ast.Attribute) and isinstance(tt.value, ast.Name) and tt.value.id == "cls":
                        nst += 1
                        rep.check(id(node) in inside, RC, site(UH, "BackendMixin.set_backend") + f" store {ast.unparse(tt)}", f"`{ast.unparse(node)[:70]}` outside `with _backend_lock`",
                                  "shared backend-selection state (cls.__backend, cls._pending_*) is written only while _backend_lock is held",
                                  witness="schedule: thread A is inside its loader holding the lock; thread B's set_backend() overwrites cls._pending_backend / _pending_dry_run before "
                                          "blocking on the lock; A's loader reads B's values (wrong backend installed, or a dry run that installs nothing)")
        if nst < 4:
            rep.undecided(RC, site(UH, "BackendMixin.set_backend"), f"only {nst} class-state stores found, expected at least 4")
    # fast path reads outside the lock only to *return*
    first = next((st for st in sb.body if isinstance(st, ast.If)), None)
    ok = first is not None and "cls.__backend" in qtext(first.test) and all(isinstance(x, ast.Return) for x in first.body)
    rep.check(ok, RC, site(UH, "BackendMixin.set_backend"), ast.unparse(first.test) if first else "<none>", "unlocked fast path only returns the active backend")


def rule_e(model, rep):
    R = "C19.e-registry"
    REG = "passlib.registry"
    fn = model.func(REG, "register_crypt_handler")
    # `if other is handler: return` precedes the KeyError
    idem = raise_ = None
    for i, st in enumerate(_linear(fn.body)):
        t = qtext(st) if not isinstance(st, (ast.If, ast.With)) else ast.unparse(st.test) if isinstance(st, ast.If) else ""
        if isinstance(st, ast.If) and t == "other is handler":
            idem = i
        if isinstance(st, ast.Raise) and t.loose("KeyError") and raise_ is None:
            raise_ = i
    rep.check(idem is not None and raise_ is not None and idem < raise_, R, site(REG, "register_crypt_handler"), "if other is handler: return",
              "registering the identical object twice is a no-op (two threads finishing the same lazy import)",
              witness="two threads importing the same handler: the second raises KeyError('another handler has already been registered')")
    fn = model.func(REG, "get_crypt_handler")
    txt = qtext(fn)
    i_imp = txt.find("__import__(modname")
    i_re = txt.find("handler = _handlers.get(name)", i_imp)
    i_reg = txt.find("register_crypt_handler(handler, _attr=name)")
    rep.check(0 < i_imp < i_re < i_reg, R, site(REG, "get_crypt_handler"), "__import__ ; re-check _handlers ; register",
              "after the import the table is re-checked before registering")
    rep.check("return _handlers[name]" in txt, R, site(REG, "get_crypt_handler"), "fast path", "loaded handlers are served from the table")
    # the module object comes from the import machinery (which serialises on the per-module import lock), never from sys.modules
    mods = [ast.unparse(n.value) for n in walk_no_nested(fn) if isinstance(n, ast.Assign) and ast.unparse(n.targets[0]) == "mod"]
    rep.check(mods == ["__import__(modname, fromlist=[modattr], level=0)"], R, site(REG, "get_crypt_handler") + " module", "; ".join(mods) or "<none>",
              "the handler module is obtained from __import__ only, so a module another thread is still executing is waited for",
              witness="schedule: thread A is executing `import passlib.handlers.X` (module half initialised, already in sys.modules); thread B's "
                      "get_crypt_handler() takes the partial module from sys.modules, getattr fails -> AttributeError / 'handler not found'")
    runit = model.unit(REG)
    sm = [n for n in ast.walk(runit.tree) if isinstance(n, ast.Attribute) and n.attr == "modules" and isinstance(n.value, ast.Name) and n.value.id == "sys"]
    rep.check(not sm, R, site(REG, "<module>") + " sys.modules", f"{len(sm)} reference(s) to sys.modules (line {sm[0].lineno if sm else '-'})", "the registry never reads sys.modules")
    # a module that swaps itself out of sys.modules: an importer that already holds the stub (a thread that arrived while the module body
    # was running) continues with the stub, so the stub must answer attribute lookups from the replacement (PEP 562 module __getattr__)
    hu = model.unit("passlib.hash")
    swaps = [n for n in hu.tree.body if isinstance(n, ast.Assign) and ast.unparse(n.targets[0]) == "sys.modules[__name__]"]
    if not swaps:
        rep.undecided(R, "passlib.hash:<module>", "self-replacement `sys.modules[__name__] = ...` not found")
    else:
        repl = ast.unparse(swaps[0].value)
        ga = hu.funcs.get("__getattr__")
        ok = ga is not None and [ast.unparse(x.value) for x in ast.walk(ga) if isinstance(x, ast.Return) and x.value is not None] == [f"getattr({repl}, {params(ga)[0]})"]
        rep.check(ok, R, "passlib.hash:<module> stub attribute access", f"sys.modules[__name__] = {repl}  # and no module-level __getattr__ delegating to {repl}" if not ok else "module __getattr__ delegates to the proxy",
                  "the stub module that replaces itself still serves attribute lookups from its replacement",
                  witness="fresh process: T1 runs `from passlib.hash import sha256_crypt`; T2 starts `from passlib.hash import md5_crypt` while hash.py is executing: "
                          "T2 waits on the import lock, continues with the stub module and gets ImportError: cannot import name 'md5_crypt'")
        # ... and from the moment the proxy is in sys.modules, `import passlib.hash` in another thread returns at once (the proxy carries no
        # __spec__, so the import system does not make that thread wait for the module lock), while the import system itself binds the attribute
        # `hash` on the package only after the module body has returned: the stub must bind it before it publishes the proxy
        idx = hu.tree.body.index(swaps[0])
        bound = [n for n in hu.tree.body[:idx] if isinstance(n, ast.Assign) and isinstance(n.targets[0], ast.Attribute) and n.targets[0].attr == "hash" and ast.unparse(n.value) == repl]
        rep.check(bool(bound), R, "passlib.hash:<module> package attribute", ast.unparse(bound[0]) if bound else f"sys.modules[__name__] = {repl}  # `passlib.hash` not bound on the package before the swap",
                  "the package attribute `passlib.hash` is bound to the proxy before the proxy is published in sys.modules",
                  witness="fresh process: T1 is inside `import passlib.hash` just after the swap; T2 runs `import passlib.hash; passlib.hash.md5_crypt` and gets AttributeError: cannot access "
                          "submodule 'hash' of module 'passlib'")
    # shared lookup caches are filled idempotently: an `assert` on what the cache holds turns a harmless lost race into an error
    DG = "passlib.crypto.digest"
    lh = model.func(DG, "lookup_hash")
    bad = [ast.unparse(a.test) for a in walk_no_nested(lh) if isinstance(a, ast.Assert) and "cache" in ast.unparse(a.test)]
    rep.check(not bad, R, f"{DG}:lookup_hash cache fill", f"assert {bad[0]}" if bad else "no assertion on cache contents", "filling _hash_info_cache tolerates an entry another thread stored meanwhile",
              witness="two threads make the first lookup of a digest only reachable through hashlib.new() (ripemd160, sm3): each builds its own HashInfo, the slower one dies with "
                      "AssertionError: 'sm3' already in cache -- e.g. ctx.verify() on a scram hash with an sm3 digest")
    # _CryptConfig record caches: only idempotent dict caches
    C = "passlib.context"
    for q in ("_CryptConfig.get_record", "_CryptConfig._get_record_list"):
        fn = model.func(C, q, required=False)
        if fn is None:
            continue
        stores = [n for n in walk_no_nested(fn) if isinstance(n, ast.Assign) and isinstance(n.targets[0], ast.Subscript)]
        ok = all(ast.unparse(s_.targets[0].value) in ("self._records", "self._record_lists", "cache", "records") for s_ in stores)
        rep.check(ok, R, site(C, q), "; ".join(ast.unparse(s_)[:60] for s_ in stores), "steady-state context lookups only fill idempotent caches")


MUTATORS = {"append", "extend", "add", "update", "insert", "setdefault", "pop", "remove", "clear", "sort", "reverse", "discard", "popitem"}


def rule_f(model, rep):
    """an entry of a cache that other threads read without a lock (per-category record lists, handler / digest / wordset caches) is stored
    complete: once `cache[key] = value` has run another thread may pick `value` up, so the function must not go on filling it"""
    R = "C19.f-publish-complete"
    n = 0
    for un, unit in model.units.items():
        if not un.startswith(("passlib.", "libpass.")) or un.startswith("passlib.ext"):
            continue
        module_names = set(unit.assigns)
        for q, fn in unit.functions():
            short = q.split(".")[-1]
            if short == "__init__" or short.startswith("_init_"):
                continue    # the object is still under construction, not yet shared
            nodes = list(walk_no_nested(fn))
            alias = {t.id for a in nodes if isinstance(a, ast.Assign) and isinstance(a.value, ast.Attribute) and isinstance(a.value.value, ast.Name) and a.value.value.id in ("self", "cls")
                     for t in a.targets if isinstance(t, ast.Name)}
            declared_global = {nm for st in nodes if isinstance(st, ast.Global) for nm in st.names}
            local_stores = {t.id for a in nodes if isinstance(a, ast.Assign) for t in a.targets if isinstance(t, ast.Name)} | {a.arg for a in fn.args.args}
            for a in nodes:
                if not isinstance(a, ast.Assign):
                    continue
                shared = []
                for tg in a.targets:
                    if isinstance(tg, ast.Subscript):
                        base = tg.value
                        if isinstance(base, ast.Attribute) and isinstance(base.value, ast.Name) and base.value.id in ("self", "cls"):
                            shared.append(ast.unparse(tg))
                        elif isinstance(base, ast.Name) and (base.id in alias or (base.id in module_names and (base.id not in local_stores or base.id in declared_global))):
                            shared.append(ast.unparse(tg))
                if not shared:
                    continue
                names = [tg.id for tg in a.targets if isinstance(tg, ast.Name)]
                if isinstance(a.value, ast.Name):
                    names.append(a.value.id)
                for nm in names:
                    n += 1
                    later = []
                    for x in nodes:
                        if getattr(x, "lineno", 0) <= a.lineno:
                            continue
                        if isinstance(x, ast.Call) and isinstance(x.func, ast.Attribute) and isinstance(x.func.value, ast.Name) and x.func.value.id == nm and x.func.attr in MUTATORS:
                            later.append(f"line {x.lineno}: {ast.unparse(x)[:50]}")
                        if isinstance(x, (ast.Assign, ast.AugAssign)):
                            for t2 in (x.targets if isinstance(x, ast.Assign) else [x.target]):
                                if isinstance(t2, ast.Subscript) and isinstance(t2.value, ast.Name) and t2.value.id == nm:
                                    later.append(f"line {x.lineno}: {ast.unparse(x)[:50]}")
                                if isinstance(x, ast.AugAssign) and isinstance(t2, ast.Name) and t2.id == nm:
                                    later.append(f"line {x.lineno}: {ast.unparse(x)[:50]}")
                    rep.check(not later, R, site(un, q) + f" {shared[0]}", f"{ast.unparse(a)[:70]}  then  {'; '.join(later[:2])}" if later else ast.unparse(a)[:80],
                              f"`{nm}` is complete when it is stored into the shared cache (no mutation of it afterwards in this function)",
                              witness="two threads calling ctx.verify(pw, h, category='admin') for the first time: the second sees the record list while it is being filled and raises UnknownHashError for a hash whose scheme comes later in the list")
    if n < 10:
        rep.undecided(R, "<instance-count>", f"only {n} named values stored into shared caches found, expected at least 10")


def run(model, rep):
    rep.explanation = __doc__
    rep.assumptions = ["CPython: attribute store/load are atomic; `with lock:` gives mutual exclusion and happens-before",
                       "import of a module is serialised by the interpreter's import lock"]
    rule_a(model, rep)
    rule_failed_load_window(model, rep)
    rule_b(model, rep)
    rule_cd(model, rep)
    rule_e(model, rep)
    rule_f(model, rep)


def rule_failed_load_window(model, rep):
    """the unlocked "needs initialising?" test of LazyCryptContext reads two attributes one after the other (`_lazy_kwds is not None or _lazy_busy`).
    _lazy_init clears `_lazy_kwds` *before* the attempt and, when the attempt fails, puts it back and then clears `_lazy_busy`: a reader that samples
    `_lazy_kwds` during the attempt (None) and `_lazy_busy` after the failure (False) concludes "initialised" on an object that is unloaded again"""
    R = "C19.a-guarded-lazy-init"
    C = "passlib.context"
    fn = model.func(C, "LazyCryptContext._lazy_init")
    ga = model.func(C, "LazyCryptContext.__getattribute__")
    unit = model.unit(C)
    tries = [t for t in walk_no_nested(fn) if isinstance(t, ast.Try)]
    cleared_before = [a for a in walk_no_nested(fn) if isinstance(a, ast.Assign) and ast.unparse(a.targets[0]) == "self._lazy_kwds" and ast.unparse(a.value) == "None"
                      and unit.enclosing(a, ast.Try) is None and tries and (a.lineno, a.col_offset) < (tries[0].lineno, tries[0].col_offset)]
    restored = [a for t in tries for h in t.handlers for a in ast.walk(h) if isinstance(a, ast.Assign) and ast.unparse(a.targets[0]) == "self._lazy_kwds" and ast.unparse(a.value) != "None"]
    two_reads = sum(1 for c in ast.walk(ga) if isinstance(c, ast.Call) and ast.unparse(c.func) in ("getattribute", "object.__getattribute__") and len(c.args) == 2
                    and isinstance(c.args[1], ast.Constant) and c.args[1].value in ("_lazy_kwds", "_lazy_busy")) >= 2
    s = site(C, "LazyCryptContext._lazy_init") + " failed-load window"
    if cleared_before and restored and two_reads:
        rep.violation(R, s, "self._lazy_kwds = None  # before the attempt; restored by the except clause, then _lazy_busy is cleared",
                      "while a first load is failing, the pair (_lazy_kwds, _lazy_busy) passes through (None, True) -> (pending, True) -> (pending, False); a second thread that reads "
                      "_lazy_kwds in the first state and _lazy_busy in the last sees (None, False) = 'initialised'",
                      witness="LazyCryptContext(..., onload=f) with f raising once: T1's first hash() is inside onload; T2 reads _lazy_kwds (None); T1's load fails; T2 reads _lazy_busy (False), "
                              "skips initialisation and calls CryptContext.hash on the unloaded object: TypeError(\"'NoneType' object is not callable\")")
    else:
        rep.hold(R, s, "no state in which both guards read 'done' on an unloaded object")
