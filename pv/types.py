"""str/bytes type-flow analysis (forward abstract interpretation over the statement structure).

Abstract value of an expression: subset of {'str','bytes','int','other'} or None (unknown / top).
Tracks local names; refines on isinstance tests and asserts; follows repo callees through
memoised summaries (method resolution through the concrete class's MRO).  Reports *sinks*:
places where a value that may still be `str` reaches a bytes-only primitive (hash constructor,
.update, bytes concatenation, hexlify, cipher) or vice versa, and `len()` measurements of
possibly-text values (consumed by C05)."""
from __future__ import annotations

import ast

from .model import params, walk_no_nested, peel

S, B, I, O = "str", "bytes", "int", "other"
STR, BYTES, EITHER = frozenset([S]), frozenset([B]), frozenset([S, B])
INT = frozenset([I])

# external / primitive callees: name -> indexes (or kw names) of arguments that must be bytes
BYTES_SINKS = {
    "md5": [0], "sha1": [0], "sha256": [0], "sha512": [0], "sha224": [0], "sha384": [0], "md4": [0],
    "hashlib.md5": [0], "hashlib.sha1": [0], "hashlib.sha256": [0], "hashlib.sha512": [0],
    "self._hash_func": [0], "cls._hash_func": [0], "hash_method": [0], "self._digest": [0], "hash_const": [0],
    "hexlify": [0], "unhexlify": [], "b64encode": [0], "_bcrypt.hashpw": [0], "bcrypt.hashpw": [0], "bcrypt.checkpw": ["password", 0],
    "des_encrypt_block": [0, 1], "_builtin_bcrypt": [0], "stdlib_scrypt": ["password"], "_argon2pure.argon2": [],
    "keyed_hmac": [0], "struct.pack": [],
}
SINK_METHODS = {"update": [0]}
TO_BYTES = {"to_bytes", "as_bytes", "uh.to_bytes"}
TO_STR = {"to_unicode", "to_native_str", "as_str", "uh.to_unicode", "to_unicode_for_identify", "uh.to_unicode_for_identify"}
SAME_TYPE_FUNCS = {"repeat_string", "right_pad_string", "utf8_repeat_string", "utf8_truncate"}
SAME_TYPE_METHODS = {"upper", "lower", "strip", "lstrip", "rstrip", "replace", "ljust", "rjust", "translate", "title",
                     "capitalize", "swapcase", "zfill", "removeprefix", "removesuffix", "center", "expandtabs", "casefold"}
RETURNS_BYTES = {"hexlify", "unhexlify", "b64encode", "b64decode", "ab64_decode", "ab64_encode", "b64s_encode", "b64s_decode",
                 "pbkdf2_hmac", "pbkdf1", "bytes", "join_byte_values", "join_byte_elems"}
RETURNS_STR = {"str", "join_unicode", "bascii_to_str", "repr"}


class Finding:
    def __init__(self, kind, unit, qual, node, var, ty, msg, chain=()):
        self.kind, self.unit, self.qual, self.node, self.var, self.ty, self.msg, self.chain = kind, unit, qual, node, var, ty, msg, chain

    @property
    def construct(self):
        return ast.unparse(self.node)[:160]


def join(a, b):
    if a is None or b is None:
        return None
    return a | b


def join_states(states):
    states = [s for s in states if s is not None]
    if not states:
        return None
    out = {}
    keys = set().union(*[set(s) for s in states])
    for k in keys:
        vals = [s.get(k, "MISSING") for s in states]
        if any(v == "MISSING" for v in vals):
            out[k] = None
            continue
        r = vals[0]
        for v in vals[1:]:
            r = join(r, v)
        out[k] = r
    return out


class Analyzer:
    def __init__(self, model, on_len=None, max_depth=6):
        self.model = model
        self.findings = []
        self.summaries = {}
        self.on_len = on_len
        self.on_call = None
        self.max_depth = max_depth
        self.visited_funcs = set()

    # ------------------------------------------------------------------ public
    def analyze(self, unitname, fn, cref, arg_types, chain=()):
        """-> return type (tuple of types for tuple returns, or a type, or None)"""
        key = (unitname, id(fn), cref, tuple(sorted((k, v) for k, v in arg_types.items() if v is not None)))
        if key in self.summaries:
            return self.summaries[key]
        if len(chain) > self.max_depth:
            return None
        self.summaries[key] = None  # recursion guard
        unit = self.model.units[unitname]
        fr = _Frame(self, unit, fn, cref, chain)
        self.visited_funcs.add(f"{unitname}:{unit.qualname(fn)}")
        state = {}
        for p in params(fn):
            state[p] = arg_types.get(p)
        fr.exec_block(fn.body, state)
        ret = fr.ret
        self.summaries[key] = ret
        return ret


class _Frame:
    def __init__(self, an, unit, fn, cref, chain):
        self.an, self.unit, self.fn, self.cref, self.chain = an, unit, fn, cref, chain
        self.qual = unit.qualname(fn)
        self.ret = "UNSET"
        self.model = an.model

    def report(self, kind, node, var, ty, msg):
        self.an.findings.append(Finding(kind, self.unit.name, self.qual, node, var, ty, msg, self.chain))

    def add_ret(self, t):
        if self.ret == "UNSET":
            self.ret = t
        elif isinstance(self.ret, tuple) and isinstance(t, tuple) and len(self.ret) == len(t):
            self.ret = tuple(join(a, b) for a, b in zip(self.ret, t))
        elif isinstance(self.ret, tuple) or isinstance(t, tuple):
            self.ret = None
        else:
            self.ret = join(self.ret, t)

    # ------------------------------------------------------------------ statements
    def exec_block(self, stmts, state):
        for st in stmts:
            if state is None:
                return None
            state = self.exec_stmt(st, state)
        return state

    def exec_stmt(self, st, state):
        if isinstance(st, ast.Expr):
            self.ty(st.value, state)
            return state
        if isinstance(st, ast.Assign):
            t = self.ty(st.value, state)
            state = dict(state)
            for tg in st.targets:
                self.bind(tg, t, state, st.value)
            return state
        if isinstance(st, ast.AnnAssign):
            if st.value is not None:
                t = self.ty(st.value, state)
                state = dict(state)
                self.bind(st.target, t, state, st.value)
            return state
        if isinstance(st, ast.AugAssign):
            t = self.ty(ast.BinOp(left=_load(st.target), op=st.op, right=st.value), state, origin=st)
            state = dict(state)
            self.bind(st.target, t, state, None)
            return state
        if isinstance(st, ast.Return):
            if st.value is None:
                self.add_ret(frozenset([O]))
            elif isinstance(st.value, ast.Tuple):
                self.add_ret(tuple(self.ty(e, state) for e in st.value.elts))
            else:
                self.add_ret(self.ty(st.value, state))
            return None
        if isinstance(st, ast.Raise):
            if st.exc is not None:
                self.ty(st.exc, state)
            return None
        if isinstance(st, ast.Assert):
            self.ty(st.test, state)
            a, _ = self.refine(st.test, state)
            return a
        if isinstance(st, ast.If):
            self.ty(st.test, state)
            a, b = self.refine(st.test, state)
            sa = self.exec_block(st.body, a) if a is not None else None
            sb = self.exec_block(st.orelse, b) if b is not None else None
            return join_states([sa, sb])
        if isinstance(st, (ast.While, ast.For)):
            if isinstance(st, ast.For):
                it = self.ty(st.iter, state)
                state = dict(state)
                elem = None
                if it == BYTES:
                    elem = INT
                elif it == STR:
                    elem = STR
                self.bind(st.target, elem, state, None)
            else:
                self.ty(st.test, state)
            s1 = self.exec_block(st.body, dict(state))
            s2 = join_states([state, s1])
            if s2 is not None:
                s3 = self.exec_block(st.body, dict(s2))
                s2 = join_states([s2, s3])
            if st.orelse:
                s2 = self.exec_block(st.orelse, s2)
            return s2
        if isinstance(st, ast.Try):
            sb = self.exec_block(st.body, dict(state))
            pre = join_states([state, sb])
            outs = []
            if sb is not None:
                so = self.exec_block(st.orelse, sb) if st.orelse else sb
                outs.append(so)
            for h in st.handlers:
                outs.append(self.exec_block(h.body, dict(pre) if pre is not None else dict(state)))
            res = join_states(outs)
            if st.finalbody:
                res = self.exec_block(st.finalbody, res if res is not None else dict(state))
            return res
        if isinstance(st, ast.With):
            for it in st.items:
                self.ty(it.context_expr, state)
            return self.exec_block(st.body, state)
        if isinstance(st, (ast.FunctionDef, ast.ClassDef, ast.Import, ast.ImportFrom, ast.Global, ast.Nonlocal, ast.Pass,
                           ast.Break, ast.Continue, ast.Delete)):
            return state
        return state

    def bind(self, tg, t, state, value):
        if isinstance(tg, ast.Name):
            state[tg.id] = t if not isinstance(t, tuple) else None
        elif isinstance(tg, (ast.Tuple, ast.List)):
            if isinstance(t, tuple) and len(t) == len(tg.elts):
                for a, b in zip(tg.elts, t):
                    self.bind(a, b, state, None)
            elif isinstance(value, (ast.Tuple, ast.List)) and len(value.elts) == len(tg.elts):
                for a, b in zip(tg.elts, value.elts):
                    self.bind(a, self.ty(b, state), state, None)
            else:
                for a in tg.elts:
                    self.bind(a, None, state, None)

    # ------------------------------------------------------------------ refinement
    def refine(self, test, state):
        """-> (state if true, state if false)"""
        if isinstance(test, ast.UnaryOp) and isinstance(test.op, ast.Not):
            a, b = self.refine(test.operand, state)
            return b, a
        if isinstance(test, ast.BoolOp) and isinstance(test.op, ast.And):
            cur = state
            for v in test.values:
                if cur is None:
                    break
                cur, _ = self.refine(v, cur)
            return cur, state
        if isinstance(test, ast.BoolOp) and isinstance(test.op, ast.Or):
            cur = state
            for v in test.values:
                if cur is None:
                    break
                _, cur = self.refine(v, cur)
            return state, cur
        if isinstance(test, ast.Call) and isinstance(test.func, ast.Name) and test.func.id == "isinstance" and len(test.args) == 2 \
                and isinstance(test.args[0], ast.Name):
            v = test.args[0].id
            cls_t = self._isinstance_types(test.args[1])
            cur = state.get(v)
            if cls_t is None or cur is None:
                if cls_t is not None and cur is None:
                    t = dict(state)
                    t[v] = cls_t
                    return t, state
                return state, state
            yes, no = cur & cls_t, cur - cls_t
            t, f = dict(state), dict(state)
            t[v] = yes
            f[v] = no
            return (t if yes else None), (f if no else None)
        return state, state

    def _isinstance_types(self, e):
        names = []
        if isinstance(e, ast.Tuple):
            for x in e.elts:
                names.append(ast.unparse(x))
        else:
            names.append(ast.unparse(e))
        out = set()
        for n in names:
            if n == "str":
                out.add(S)
            elif n == "bytes":
                out.add(B)
            elif n in ("unicode_or_bytes", "(str, bytes)"):
                out |= {S, B}
            elif n == "int":
                out.add(I)
            else:
                return None
        return frozenset(out)

    # ------------------------------------------------------------------ expressions
    def ty(self, e, state, origin=None):
        if e is None:
            return None
        if isinstance(e, ast.Constant):
            if isinstance(e.value, str):
                return STR
            if isinstance(e.value, bytes):
                return BYTES
            if isinstance(e.value, bool) or e.value is None:
                return frozenset([O])
            if isinstance(e.value, int):
                return INT
            return frozenset([O])
        if isinstance(e, ast.JoinedStr):
            for v in e.values:
                if isinstance(v, ast.FormattedValue):
                    self.ty(v.value, state)
            return STR
        if isinstance(e, ast.Name):
            if e.id in state:
                return state[e.id]
            v = self.model.fold(self.unit, e)
            if isinstance(v, str):
                return STR
            if isinstance(v, bytes):
                return BYTES
            return None
        if isinstance(e, ast.Attribute):
            self.ty(e.value, state)
            if isinstance(e.value, ast.Name) and e.value.id in ("self", "cls") and self.cref is not None:
                v = self.model.class_const(self.cref, e.attr)
                if isinstance(v, str):
                    return STR
                if isinstance(v, bytes):
                    return BYTES
            return None
        if isinstance(e, ast.BinOp):
            a, b = self.ty(e.left, state), self.ty(e.right, state)
            if isinstance(e.op, ast.Add):
                if a is not None and b is not None and (a | b) <= EITHER:
                    if (a == BYTES and S in b) or (b == BYTES and S in a):
                        self.report("mixed-concat", origin or e, _name_of(e.left if S in (a or ()) and a != BYTES else e.right), a | b,
                                    "value that may still be text is concatenated with bytes")
                    elif (a == STR and B in b) or (b == STR and B in a):
                        self.report("mixed-concat", origin or e, _name_of(e.left if B in (a or ()) and a != STR else e.right), a | b,
                                    "value that may still be bytes is concatenated with text")
                    return a | b
                if a == INT and b == INT:
                    return INT
                # concatenation with an operand of unknown type: if it succeeds the result has the known operand's type
                if a in (STR, BYTES) and b is None:
                    return a
                if b in (STR, BYTES) and a is None:
                    return b
                return join(a, b) if (a and b and (a | b) <= EITHER) else None
            if isinstance(e.op, ast.Mult):
                if a is not None and a <= EITHER:
                    return a
                if b is not None and b <= EITHER:
                    return b
                return None
            if isinstance(e.op, ast.Mod) and a == STR:
                return STR
            if isinstance(e.op, ast.Mod) and a == BYTES:
                return BYTES
            return None
        if isinstance(e, ast.Subscript):
            v = self.ty(e.value, state)
            if isinstance(e.slice, ast.Slice):
                for x in (e.slice.lower, e.slice.upper, e.slice.step):
                    if x is not None:
                        self.ty(x, state)
                return v if (v is not None and v <= EITHER) else None
            self.ty(e.slice, state)
            if v == BYTES:
                return INT
            if v == STR:
                return STR
            return None
        if isinstance(e, ast.IfExp):
            self.ty(e.test, state)
            a, b = self.refine(e.test, state)
            if a is None and b is None:
                return None
            if a is None:
                return self.ty(e.orelse, b)
            if b is None:
                return self.ty(e.body, a)
            ta = self.ty(e.body, a)
            tb = self.ty(e.orelse, b)
            return join(ta, tb)
        if isinstance(e, ast.BoolOp):
            ts = [self.ty(v, state) for v in e.values]
            r = ts[0]
            for t in ts[1:]:
                r = join(r, t)
            return r
        if isinstance(e, ast.Compare):
            lt = self.ty(e.left, state)
            for op, c in zip(e.ops, e.comparators):
                ct = self.ty(c, state)
                if isinstance(op, (ast.In, ast.NotIn)) and lt is not None and ct is not None and (lt | ct) <= EITHER:
                    if (lt == BYTES and S in ct) or (lt == STR and B in ct):
                        self.report("mixed-in", e, _name_of(c), ct, f"`{ast.unparse(e)}`: membership test between text and bytes")
            return frozenset([O])
        if isinstance(e, (ast.Tuple, ast.List)):
            for x in e.elts:
                self.ty(x, state)
            return None
        if isinstance(e, (ast.GeneratorExp, ast.ListComp, ast.SetComp, ast.DictComp)):
            st2 = dict(state)
            for g in e.generators:
                it = self.ty(g.iter, st2)
                self.bind(g.target, INT if it == BYTES else (STR if it == STR else None), st2, None)
                for c in g.ifs:
                    self.ty(c, st2)
            if isinstance(e, ast.DictComp):
                self.ty(e.key, st2)
                self.ty(e.value, st2)
            else:
                self.ty(e.elt, st2)
            return None
        if isinstance(e, ast.Call):
            return self.call(e, state)
        if isinstance(e, ast.UnaryOp):
            self.ty(e.operand, state)
            return None
        if isinstance(e, ast.Starred):
            return self.ty(e.value, state)
        if isinstance(e, ast.Lambda):
            return None
        return None

    def call(self, e, state):
        f = e.func
        fname = ast.unparse(f)
        argt = [self.ty(a, state) for a in e.args]
        kwt = {k.arg: self.ty(k.value, state) for k in e.keywords if k.arg}
        short = fname.split(".")[-1]
        if self.an.on_call:
            self.an.on_call(self, e, argt, kwt)
        # len() hook
        if fname == "len" and e.args:
            if self.an.on_len:
                self.an.on_len(self, e, e.args[0], argt[0])
            return INT
        if fname == "isinstance":
            return frozenset([O])
        # method calls on typed receivers
        if isinstance(f, ast.Attribute):
            rt = self.ty(f.value, state)
            if f.attr == "encode":
                if rt is not None and B in rt:
                    self.report("encode-on-bytes", e, _name_of(f.value), rt, ".encode() on a value that may be bytes (AttributeError)")
                return BYTES
            if f.attr == "decode":
                if rt is not None and S in rt:
                    self.report("decode-on-str", e, _name_of(f.value), rt, ".decode() on a value that may be text (AttributeError)")
                return STR
            if f.attr in SAME_TYPE_METHODS and rt is not None and rt <= EITHER:
                return rt
            if f.attr in ("join",) and rt is not None and rt <= EITHER:
                return rt
            if f.attr in ("digest",):
                return BYTES
            if f.attr in ("hexdigest",):
                return STR
            if f.attr in SINK_METHODS and argt:
                self._sink(e, e.args[0], argt[0], f".{f.attr}()")
                return None
            if f.attr in ("startswith", "endswith", "find", "index", "count", "split", "rsplit", "partition") and rt is not None and argt:
                a0 = argt[0]
                if a0 is not None and rt <= EITHER and a0 <= EITHER and ((rt == BYTES and S in a0) or (rt == STR and B in a0) or
                                                                       (a0 == BYTES and S in rt) or (a0 == STR and B in rt)):
                    self.report("mixed-method", e, _name_of(f.value), rt, f".{f.attr}() between text and bytes")
                return None
        if fname in TO_BYTES or short in ("to_bytes", "as_bytes"):
            return BYTES
        if fname in TO_STR or short in ("to_unicode", "to_native_str", "as_str"):
            return STR
        if short in SAME_TYPE_FUNCS and argt:
            return argt[0] if (argt[0] is not None and argt[0] <= EITHER) else None
        # explicit external sinks
        sink = BYTES_SINKS.get(fname)
        if sink is None and short in ("md5", "sha1", "sha256", "sha512", "md4") and not isinstance(f, ast.Attribute):
            sink = [0]
        if sink is not None:
            for idx in sink:
                if isinstance(idx, int) and idx < len(e.args):
                    self._sink(e, e.args[idx], argt[idx], fname + "()")
                elif isinstance(idx, str) and idx in kwt:
                    kwn = [k for k in e.keywords if k.arg == idx][0]
                    self._sink(e, kwn.value, kwt[idx], fname + "()")
        # repo callee -> summary
        tgt = self.resolve_callee(f)
        if tgt is not None:
            rets = []
            for (un, fn, cref, bound) in tgt:
                ps = params(fn)
                if bound and ps and ps[0] in ("self", "cls", "mixin_cls"):
                    ps = ps[1:]
                at = {}
                for p, t in zip(ps, argt):
                    at[p] = t
                for k, t in kwt.items():
                    at[k] = t
                at = {k: v for k, v in at.items() if v is not None and v <= EITHER}
                r = self.an.analyze(un, fn, cref, at, self.chain + (f"{self.unit.name}:{self.qual}",))
                rets.append(r)
            r = rets[0]
            for x in rets[1:]:
                if isinstance(r, tuple) and isinstance(x, tuple) and len(r) == len(x):
                    r = tuple(join(a, b) for a, b in zip(r, x))
                elif isinstance(r, tuple) or isinstance(x, tuple):
                    r = None
                else:
                    r = join(r, x) if (r != "UNSET" and x != "UNSET") else None
            return None if r == "UNSET" else r
        if short in RETURNS_BYTES:
            return BYTES
        if short in RETURNS_STR:
            return STR
        return None

    def _sink(self, call, argnode, t, what):
        if t is not None and S in t:
            self.report("str-reaches-bytes-sink", call, _name_of(argnode), t,
                        f"`{ast.unparse(argnode)[:60]}` may still be text when it reaches the bytes-only primitive {what}")

    # ------------------------------------------------------------------ callee resolution
    def resolve_callee(self, f):
        from .calls import resolve_callee
        return resolve_callee(self.model, self.unit, self.fn, self.cref, f)


def _load(t):
    if isinstance(t, ast.Name):
        return ast.Name(id=t.id, ctx=ast.Load())
    return t


def _name_of(e):
    try:
        return ast.unparse(e)[:60]
    except Exception:
        return "?"
