#!/venv/bin/python
"""equiv_show.py <patch.diff> [name-substring]: print the two normal forms of the items that are not proven equivalent"""
import ast, os, shutil, subprocess, sys, tempfile, difflib
sys.path.insert(0, os.path.dirname(os.path.dirname(os.path.abspath(__file__))))
from pv import equiv
p = sys.argv[1]; want = sys.argv[2] if len(sys.argv) > 2 else ""
tmp = tempfile.mkdtemp(prefix="pv-show-")
try:
    for pkg in ("passlib", "libpass"):
        shutil.copytree(os.path.join("/repo", pkg), os.path.join(tmp, pkg))
    if subprocess.run(["git", "apply", p], cwd=tmp, capture_output=True).returncode:
        subprocess.run(["patch", "-p1", "-s", "-i", p], cwd=tmp)
    for rel in [l[6:].strip() for l in open(p) if l.startswith("+++ b/")]:
        ref = equiv.anchor_tree(rel)
        tree = ast.parse(open(os.path.join(tmp, rel)).read())
        stats = []
        print(rel, equiv.substitute(tree, ref, stats)[:2])
        for label, st, old, hn, ho, ic, sb in stats:
            if want not in label:
                continue
            a = ast.unparse(ast.fix_missing_locations(equiv.normal_ast(st, hn, ic, sb))).splitlines()
            b = ast.unparse(ast.fix_missing_locations(equiv.normal_ast(old, ho, ic, sb))).splitlines()
            print("=====", label)
            for l in difflib.unified_diff(b, a, "reference", "current", lineterm="", n=2):
                print(l)
finally:
    shutil.rmtree(tmp, ignore_errors=True)
