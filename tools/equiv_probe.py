#!/venv/bin/python
"""equiv_probe.py <dir with Cxx/k/patch.diff | Cxx-k/patch.diff> [--only X]: for each patch, which changed items are proven equivalent to the
reference tree by pv/equiv.py normalisation (no checks are run)"""
import ast, glob, os, shutil, subprocess, sys, tempfile
sys.path.insert(0, os.path.dirname(os.path.dirname(os.path.abspath(__file__))))
from pv import equiv
root = sys.argv[1]
only = sys.argv[sys.argv.index("--only") + 1] if "--only" in sys.argv else None
patches = sorted(glob.glob(os.path.join(root, "C*", "*", "patch.diff")) + glob.glob(os.path.join(root, "C*-*", "patch.diff")))
from concurrent.futures import ProcessPoolExecutor


def one(p):
    tmp = tempfile.mkdtemp(prefix="pv-probe-")
    try:
        for pkg in ("passlib", "libpass"):
            shutil.copytree(os.path.join("/repo", pkg), os.path.join(tmp, pkg))
        r = subprocess.run(["git", "apply", p], cwd=tmp, capture_output=True)
        if r.returncode:
            r = subprocess.run(["patch", "-p1", "-s", "-i", p], cwd=tmp, capture_output=True)
        files = [l[6:].strip() for l in open(p) if l.startswith("+++ b/")]
        d = pr = 0
        un = []
        for rel in files:
            ref = equiv.anchor_tree(rel)
            if ref is None:
                un.append(rel + ":<no reference>")
                continue
            tree = ast.parse(open(os.path.join(tmp, rel)).read())
            a, b, c = equiv.substitute(tree, ref)
            d += a; pr += b; un += [rel.split("/")[-1] + ":" + x for x in c]
        label = "/".join(os.path.dirname(p).split(os.sep)[-2:]) if os.path.basename(os.path.dirname(p)).isdigit() else os.path.basename(os.path.dirname(p))
        return (label, d, pr, un)
    finally:
        shutil.rmtree(tmp, ignore_errors=True)


patches = [p for p in patches if not only or only in p]
with ProcessPoolExecutor(16) as ex:
    rows = list(ex.map(one, patches))
for label, d, pr, un in rows:
    print(f"{label}: changed {d} proven {pr}" + (f"  UNPROVEN {un}" if un else ""))
# a patch that only deletes or adds items changes no item that has a counterpart: nothing is substituted, so nothing is "proven"
print(f"fully proven: {sum(1 for r in rows if not r[3] and r[1] > 0)} of {len(rows)}" + (f"  (no changed item with a counterpart: {sum(1 for r in rows if r[1] == 0)})" if any(r[1] == 0 for r in rows) else ""))
