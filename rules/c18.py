"""C18 -- a disabled account can never log in and can be restored intact.

Decided: in every DisabledHash subclass each return of verify() is the literal False and
is_disabled is true exactly there; CryptContext.verify / verify_and_update with hash None run the
dummy verification (with the built-in dummy secret, never the caller's) and return False /
(False, None) unconditionally; dummy_verify() itself answers False; the dummy hash cache is dropped
whenever the policy is replaced; enable() returns its argument unchanged for enabled hashes;
unix_disabled: disable = marker + original with *any* accepted marker stripped, enable strips exactly
one marker and raises ValueError on empty, every marker disable() can emit is accepted by identify(),
using(marker=) validates through identify().  Not decided: disable/enable histories as executed."""
from __future__ import annotations

import ast

from pv.q import text as qtext
from pv.model import AnalysisError, walk_no_nested, params, UNKNOWN
from pv.q import has_stmt, has_if, find_if, returns, body_texts

CTX = "passlib.context"
M = "passlib.handlers.misc"
DJ = "passlib.handlers.django"


def site(u, f):
    return f"{u}:{f}"


def rule_a(model, rep):
    R = "C18.a-disabled-verify"
    base = ("passlib.ifc", "DisabledHash")
    subs = model.subclasses(base)
    rep.check(len(subs) >= 2, R, site(*base), f"{[s[1] for s in subs]}", "disabled hashers found")
    for sc in subs:
        owner, fn = model.method(sc, "verify", required=False)
        s = site(sc[0], sc[1] + ".verify")
        if fn is None:
            rep.undecided(R, s, "verify not found")
            continue
        rets = [n for n in walk_no_nested(fn) if isinstance(n, ast.Return)]
        ok = bool(rets) and all(isinstance(r.value, ast.Constant) and r.value.value is False for r in rets)
        rep.check(ok, R, s, "; ".join(ast.unparse(r) for r in rets), "every return of a disabled hasher's verify() is the literal False",
                  witness="some password (e.g. the empty one, or the hash text itself) logs into a disabled account")
        rep.check(owner == sc, R, s, f"verify defined in {owner[1]}", "the disabled hasher defines its own verify() (does not inherit a comparing one)")
        v = model.class_const(sc, "is_disabled")
        rep.check(v is True, R, site(sc[0], sc[1] + ".is_disabled"), repr(v), "is_disabled is True for disabled hashers")
    v = model.class_const(("passlib.ifc", "PasswordHash"), "is_disabled")
    rep.check(v is False, R, site("passlib.ifc", "PasswordHash.is_disabled"), repr(v), "is_disabled is False for ordinary hashers")
    # no other handler sets is_disabled True
    for un, unit in model.units.items():
        for cn in unit.classes:
            mem = model.class_members((un, cn))
            if "is_disabled" in mem and (un, cn) not in (base, ("passlib.ifc", "PasswordHash")):
                val = model.fold(unit, mem["is_disabled"]) if not isinstance(mem["is_disabled"], ast.FunctionDef) else UNKNOWN
                rep.check((un, cn) in subs or val is False, R, site(un, cn + ".is_disabled"), repr(val), "only DisabledHash subclasses claim is_disabled")


def rule_b(model, rep):
    R = "C18.b-missing-hash"
    for q, ret in (("CryptContext.verify", "False"), ("CryptContext.verify_and_update", "(False, None)")):
        fn = model.func(CTX, q)
        iff = find_if(fn, "hash is None")
        ok = len(iff) == 1 and [ast.unparse(x) for x in iff[0].body] == ["self.dummy_verify()", f"return {ret}"]
        rep.check(ok, R, site(CTX, q), " | ".join(ast.unparse(x) for x in iff[0].body) if iff else "<none>",
                  f"a missing hash runs dummy_verify() (no arguments) and returns the constant {ret}",
                  witness="verify(<the library's dummy secret>, None) returns True / the caller's password influences the dummy path")
        # the None branch precedes record identification
        if iff and iff[0] in fn.body:
            idx = fn.body.index(iff[0])
            later = [ast.unparse(x) for x in fn.body[idx + 1:]]
            rep.check(any("self._get_or_identify_record(hash" in x for x in later), R, site(CTX, q), "None handled before identification", "None is handled before the hash is identified")
    fn = model.func(CTX, "CryptContext.dummy_verify")
    body = body_texts(fn)
    rep.check(body == ["self.verify(self._dummy_secret, self._dummy_hash)", "return False"], R, site(CTX, "CryptContext.dummy_verify"), " | ".join(body),
              "dummy_verify() spends one verification of the built-in secret against the cached dummy hash and answers False",
              witness="dummy_verify() returns the verification's result (True for the built-in dummy secret)")
    rep.check(not [p for p in params(fn) if p != "self"], R, site(CTX, "CryptContext.dummy_verify"), str(params(fn)), "dummy_verify() takes no secret from the caller")
    # the dummy path passes no context keywords: a context whose default scheme cannot hash without `user` cannot answer at all
    from pv.handlers import HandlerTable
    table = HandlerTable(model)
    needs_user = []
    for h in table:
        if h.kind != "class" or h.cref is None:
            continue
        ck = table.const(h, "context_kwds")
        if not (isinstance(ck, tuple) and "user" in ck):
            continue
        for m in ("_calc_checksum", "hash"):
            o, f2 = model.method(h.cref, m, required=False)
            if f2 is None or o[0] == "passlib.utils.handlers":
                continue
            t2 = ast.unparse(f2)
            uses = "self.user" in t2 or ("user" in params(f2) and "user" in t2)
            guarded = "if self.user" in t2 or "if user" in t2 or "user is None" in t2 or "self.user is None" in t2 or "if not user" in t2
            if uses and not guarded:
                needs_user.append(h.name)
                break
    dv = model.func(CTX, "CryptContext.dummy_verify")
    forwards = any(isinstance(n, ast.Call) and any(k.arg is None for k in n.keywords) for n in walk_no_nested(dv)) or bool([p for p in params(dv) if p != "self"]) or dv.args.kwarg is not None
    if needs_user and not forwards:
        rep.violation(R, site(CTX, "CryptContext.dummy_verify"), "self.verify(self._dummy_secret, self._dummy_hash)  # no context keywords, but some schemes cannot hash without `user`",
                      f"the dummy verification supplies no `user`; {len(needs_user)} registered schemes ({', '.join(sorted(needs_user))}) raise TypeError without one",
                      witness="CryptContext(['postgres_md5']).verify('pw', None, user='u') raises TypeError('user must be str or bytes, not None') instead of returning False")
    else:
        rep.hold(R, site(CTX, "CryptContext.dummy_verify"), f"context keywords forwarded; schemes needing user: {sorted(needs_user)}")
    # the built-in dummy secret must be hashable by every scheme under every policy: not longer than the smallest truncation limit
    ds = model.class_const((CTX, "CryptContext"), "_dummy_secret")
    limits = {}
    for h in table:
        if h.kind in ("class", "factory") and h.cref is not None:
            ts = table.const(h, "truncate_size")
            if isinstance(ts, int) and not isinstance(ts, bool):
                limits[h.name] = ts
    lo = min(limits.values()) if limits else None
    rep.check(isinstance(ds, str) and lo is not None and 0 < len(ds.encode("utf-8")) <= lo, R, site(CTX, "CryptContext._dummy_secret"),
              f"{ds!r} is {len(ds.encode('utf-8')) if isinstance(ds, str) else '?'} bytes; smallest truncate_size is {lo} ({', '.join(sorted(k for k, v in limits.items() if v == lo))})",
              "the dummy secret is not longer than the smallest truncation limit of a registered scheme, so a context with truncate_error=True can still hash it",
              witness="CryptContext(['des_crypt'], des_crypt__truncate_error=True).verify('x', None) raises PasswordTruncateError instead of returning False")
    fn = model.func(CTX, "CryptContext._dummy_hash")
    rep.check(returns(fn) == ["self.hash(self._dummy_secret)"], R, site(CTX, "CryptContext._dummy_hash"), "; ".join(returns(fn)), "the dummy hash is made by the context's own default scheme")
    # cache dropped on every policy replacement: unconditional call in load() after the commit point
    fn = model.func(CTX, "CryptContext.load")
    top = [ast.unparse(x) for x in fn.body]
    i_cfg = next((i for i, x in enumerate(top) if x.startswith("config = _CryptConfig(")), None)
    i_rst = next((i for i, x in enumerate(top) if x == "self._reset_dummy_verify()"), None)
    rep.check(i_cfg is not None and i_rst is not None and i_rst > i_cfg, R, site(CTX, "CryptContext.load"), f"commit@{i_cfg} reset@{i_rst}",
              "every load()/update() drops the cached dummy hash (top-level statement after the new config is installed)",
              witness="after replacing the policy, verify(pw, None) still verifies against the old context's dummy hash: UnknownHashError, or the old (cheaper) cost")
    n_calls = sum(1 for n in walk_no_nested(fn) if isinstance(n, ast.Call) and ast.unparse(n.func) == "self._reset_dummy_verify")
    rep.check(n_calls == 1, R, site(CTX, "CryptContext.load"), f"{n_calls} calls", "exactly one reset, on the common path")
    # the reset reaches the slot the memoizer fills: _reset_dummy_verify -> <descriptor of _dummy_hash>.clear_cache(self); the descriptor's
    # store (__get__), clear_cache and peek_cache name the instance slot by the same expression
    fn = model.func(CTX, "CryptContext._reset_dummy_verify")
    calls = [ast.unparse(n) for n in walk_no_nested(fn) if isinstance(n, ast.Call)]
    rep.check("type(self)._dummy_hash.clear_cache(self)" in calls, R, site(CTX, "CryptContext._reset_dummy_verify"), "; ".join(calls), "the reset clears the memoized `_dummy_hash` of this instance")
    dh = model.func(CTX, "CryptContext._dummy_hash")
    decos = [ast.unparse(d) for d in dh.decorator_list]
    rep.check(decos == ["memoized_property"], R, site(CTX, "CryptContext._dummy_hash"), str(decos), "`_dummy_hash` is a memoized_property (the descriptor whose clear_cache the reset calls)")
    D = "passlib.utils.decor"
    keys = {}
    g = model.func(D, "memoized_property.__get__")
    for n in walk_no_nested(g):
        if isinstance(n, ast.Call) and ast.unparse(n.func) == "setattr" and len(n.args) == 3 and ast.unparse(n.args[0]) == "obj":
            keys["__get__ (store)"] = ast.unparse(n.args[1])
        if isinstance(n, ast.Assign) and isinstance(n.targets[0], ast.Subscript) and ast.unparse(n.targets[0].value) == "obj.__dict__":
            keys["__get__ (store)"] = ast.unparse(n.targets[0].slice)
    for m, meth in (("clear_cache", "pop"), ("peek_cache", "get")):
        f2 = model.func(D, f"memoized_property.{m}")
        for n in walk_no_nested(f2):
            if isinstance(n, ast.Call) and ast.unparse(n.func) == f"obj.__dict__.{meth}" and n.args:
                keys[m] = ast.unparse(n.args[0])
    same = len(keys) == 3 and len(set(keys.values())) == 1
    rep.check(same, R, site(D, "memoized_property"), str(keys), "the memoizer stores, clears and peeks the instance slot under one key expression",
              witness="ctx.verify(x, None); ctx.update(schemes=[...other default...]); ctx.verify(x, None) -> UnknownHashError / dummy verification by the old scheme: clear_cache() pops a key nothing was stored under")
    nm = model.func(D, "memoized_property.__init__")
    rep.check(has_stmt(nm, "self.__name__ = func.__name__") or keys.get("clear_cache") != "self.__name__", R, site(D, "memoized_property.__init__"), "self.__name__ = func.__name__",
              "the slot key is the attribute name the descriptor is bound under (the function's name)")


def rule_c(model, rep):
    R = "C18.c-enable-disable"
    fn = model.func(CTX, "CryptContext.enable")
    body = body_texts(fn)
    rep.check(body == ["record = self._identify_record(hash, None)", "if record.is_disabled:\n    return record.enable(hash)", "return hash"], R, site(CTX, "CryptContext.enable"),
              " | ".join(body), "enable(): disabled -> handler.enable(hash); an enabled hash is returned unchanged")
    fn = model.func(CTX, "CryptContext.disable")
    t = qtext(fn)
    rep.check("record = self._config.disabled_record" in t and returns(fn) == ["record.disable(hash)"], R, site(CTX, "CryptContext.disable"), "; ".join(returns(fn)), "disable() delegates to the context's disabled hasher")
    fn = model.func(CTX, "CryptContext.is_enabled")
    rep.check(returns(fn) == ["not self._identify_record(hash, None).is_disabled"], R, site(CTX, "CryptContext.is_enabled"), "; ".join(returns(fn)), "is_enabled = not identified-as-disabled")
    fn = model.func(CTX, "_CryptConfig.disabled_record")
    t = qtext(fn)
    rep.check(t.loose("for record in self._get_record_list(None):") and t.loose("if record.is_disabled:") and t.loose("raise RuntimeError"), R, site(CTX, "_CryptConfig.disabled_record"),
              "first is_disabled record", "the disabled hasher is the first configured scheme flagged is_disabled")
    # DisabledHash defaults
    fn = model.func("passlib.ifc", "DisabledHash.disable")
    rep.check(returns(fn) == ["cls.hash('')"], R, site("passlib.ifc", "DisabledHash.disable"), "; ".join(returns(fn)), "default disable() = marker only")
    fn = model.func("passlib.ifc", "DisabledHash.enable")
    rep.check(any(isinstance(n, ast.Raise) and qtext(n).loose("ValueError") for n in walk_no_nested(fn)), R, site("passlib.ifc", "DisabledHash.enable"), "raise ValueError", "default enable() cannot restore: ValueError")
    # unix_disabled
    U = "unix_disabled"
    fn = model.func(M, U + ".disable")
    body = body_texts(fn)
    rep.check(body[0] == "out = cls.hash('')", R, site(M, U + ".disable"), body[0], "disable() starts from the configured marker")
    iff = find_if(fn, "hash is not None")
    ok = len(iff) == 1
    unwrap = None
    if ok:
        inner = iff[0].body
        ok = len(inner) == 3 and ast.unparse(inner[0]) == "hash = to_native_str(hash, param='hash')" and isinstance(inner[1], ast.If) and ast.unparse(inner[1].test) == "cls.identify(hash)" \
            and ast.unparse(inner[2]) == "if hash:\n    out += hash"
        if ok:
            unwrap = [n for n in ast.walk(inner[1]) if isinstance(n, ast.Assign) and ast.unparse(n) == "hash = cls.enable(hash)"]
            ok = len(unwrap) == 1
    rep.check(ok, R, site(M, U + ".disable"), " | ".join(ast.unparse(x) for x in iff[0].body)[:200] if iff else "<none>",
              "an already-disabled original (any marker identify() accepts) is unwrapped before the marker is prepended",
              witness="disabling a '*'-disabled string under the '!' marker nests the markers: enable() then returns a string that is still disabled")
    if unwrap:
        # enable() raises ValueError for a bare marker (checked below) and identify() accepts bare markers, so the unwrap must tolerate it
        unit_m = model.unit(M)
        tr = unit_m.enclosing(unwrap[0], ast.Try)
        guarded = tr is not None and any(h.type is not None and "ValueError" in ast.unparse(h.type) for h in tr.handlers) and unwrap[0] in tr.body
        rep.check(guarded, R, site(M, U + ".disable") + " bare marker", "hash = cls.enable(hash)  # raises ValueError when nothing is embedded",
                  "disabling a string that is already disabled and embeds no hash ('!', '*', '') keeps it disabled instead of raising",
                  witness="ctx.disable(ctx.disable()) raises ValueError('cannot restore original hash'): an account disabled without its hash cannot be disabled again")
    rep.check(body[-1] == "return out", R, site(M, U + ".disable"), body[-1], "returns marker + original")
    fn = model.func(M, U + ".enable")
    t = qtext(fn)
    loop = [n for n in walk_no_nested(fn) if isinstance(n, ast.For)]
    it = ast.unparse(loop[0].iter) if len(loop) == 1 else ""
    ok = len(loop) == 1 and "cls._disable_prefixes" in it
    rep.check(ok, R, site(M, U + ".enable"), it or "<none>", "enable() tries every marker prefix")
    # using(marker=...) accepts any string identify() accepts -- identify() looks at the first character only, so markers may be
    # longer than one character ('*LK*', '!!'); enable() must strip the *configured* marker as a whole before the single characters
    first = it.replace(" ", "").lstrip("(").split(",")[0] if it else ""
    rep.check(first == "cls.default_marker", R, site(M, U + ".enable") + " configured marker", f"prefixes tried: {it}",
              "the configured marker is stripped as a whole (before the one-character fallbacks)",
              witness="unix_disabled.using(marker='*LK*'): enable(disable(h)) returns 'LK*' + h -- not the original hash; enable(disable()) returns 'LK*' instead of raising")
    if ok:
        lb = ast.unparse(loop[0])
        rep.check("if hash.startswith(prefix):" in lb and "orig = hash[len(prefix):]" in lb and "if orig:\n            return orig" in lb and "raise ValueError('cannot restore original hash')" in lb, R,
                  site(M, U + ".enable"), "strip one prefix; empty -> ValueError", "exactly one marker is stripped; nothing embedded -> ValueError",
                  witness="enable('!') returns '' instead of raising / strips more than the marker")
    rep.check("raise uh.exc.InvalidHashError(cls)" in t, R, site(M, U + ".enable"), "not disabled -> InvalidHashError", "a string without marker is not a disabled hash")
    # marker sets agree
    unit = model.unit(M)
    chars = model.fold(unit, ast.Name(id="_MARKER_CHARS", ctx=ast.Load()))
    byts = model.fold(unit, ast.Name(id="_MARKER_BYTES", ctx=ast.Load()))
    pref = model.class_const((M, U), "_disable_prefixes")
    rep.check(isinstance(chars, str) and isinstance(byts, bytes) and chars.encode() == byts, R, site(M, "_MARKER_CHARS"), f"{chars!r} / {byts!r}", "text and bytes marker sets agree")
    if pref is UNKNOWN:
        o, node = model.lookup((M, U), "_disable_prefixes")
        rep.check(node is not None and ast.unparse(node) == "tuple(str(_MARKER_CHARS))", R, site(M, U + "._disable_prefixes"), ast.unparse(node) if node is not None else "<none>", "enable() prefixes are exactly the marker characters identify() accepts")
    else:
        rep.check(tuple(pref) == tuple(chars), R, site(M, U + "._disable_prefixes"), repr(pref), "enable() prefixes are exactly the marker characters identify() accepts")
    # default markers are accepted markers
    o, node = model.lookup((M, U), "default_marker")
    defaults = set()
    c = model.cls(M, U)
    for n in ast.walk(c):
        if isinstance(n, ast.Assign) and any(isinstance(t_, ast.Name) and t_.id == "default_marker" for t_ in n.targets):
            defaults.add(model.fold(unit, n.value))
    rep.check(defaults and all(isinstance(d, str) and d and d[0] in chars for d in defaults), R, site(M, U + ".default_marker"), str(sorted(defaults)), "every platform default marker starts with an accepted marker character")
    fn = model.func(M, U + ".using")
    mv = [n for n in walk_no_nested(fn) if isinstance(n, ast.If) and "cls.identify(marker)" in ast.unparse(n.test) and n.body and isinstance(n.body[-1], ast.Raise)]
    rep.check(bool(mv) and ast.unparse(mv[0].test) in ("not marker or not cls.identify(marker)", "not (marker and cls.identify(marker))"), R, site(M, U + ".using") + " empty marker",
              ast.unparse(mv[0].test) if mv else "<none>", "identify('') is True (an empty field is a disabled account), so the marker check must refuse the empty string itself",
              witness="unix_disabled.using(marker='') is accepted; hash()/disable() then fail on `assert marker` (and return '' under python -O: an empty shadow field, i.e. no password required)")
    rep.check(bool(mv), R, site(M, U + ".using"), "marker validated through identify()", "a custom marker must itself be recognised as disabled",
              witness="using(marker='x') produces 'disabled' strings that the context treats as unknown hashes")
    fn = model.func(M, U + ".hash")
    t = qtext(fn)
    rep.check("marker = cls.default_marker" in t and ast.unparse(fn.body[-1]) == "return to_native_str(marker, param='marker')", R, site(M, U + ".hash"), ast.unparse(fn.body[-1]), "hash() returns the configured marker")
    fn = model.func(M, U + ".identify")
    rep.check(ast.unparse(fn.body[-1]) == "return not hash or hash[0] in start", R, site(M, U + ".identify"), ast.unparse(fn.body[-1]), "identify(): empty or starting with a marker")
    # django_disabled
    fn = model.func(DJ, "django_disabled.identify")
    rep.check(returns(fn) == ["hash.startswith(cls._hash_prefix)"], R, site(DJ, "django_disabled.identify"), "; ".join(returns(fn)), "django: identified by the '!' prefix")
    v = model.class_const((DJ, "django_disabled"), "_hash_prefix")
    rep.check(v == "!", R, site(DJ, "django_disabled._hash_prefix"), repr(v), "django unusable-password prefix is '!'")


def rule_d(model, rep):
    """a disabled string is marker + original hash; if an *enabled* scheme's own hashes may start with a marker character the two
    readings collide: disable() unwraps (eats) the leading character of such a hash, and marker + other-hash can be identified as that scheme"""
    R = "C18.d-marker-collision"
    from pv.handlers import HandlerTable
    from pv.identify import IdentifyModels, Unmodelled
    from pv.lang import DFA
    table = HandlerTable(model)
    im = IdentifyModels(model, table)
    unit = model.unit(M)
    chars = model.fold(unit, ast.Name(id="_MARKER_CHARS", ctx=ast.Load()))
    if not isinstance(chars, str) or not chars:
        rep.undecided(R, site(M, "_MARKER_CHARS"), "marker characters do not fold")
        return
    mk = DFA.prefixes(list(chars))
    n = 0
    for h in sorted(table, key=lambda h: h.name):
        if h.kind == "wrapper" and (table.base_handler(h) is None):
            continue
        base = table.base_handler(h) if h.kind == "wrapper" else h
        if base is not None and base.cref is not None and model.class_const(base.cref, "is_disabled") is True:
            continue
        try:
            L = im.lang(h.name)
        except Exception as e:  # language not modelled for this handler (custom parser): no claim
            rep.hold(R, site(h.unit, h.name), f"identify language not modelled ({type(e).__name__}); no claim")
            continue
        if L is None or h.name in im.catchall:
            continue
        n += 1
        w = L.intersect(mk).witness()
        if w is None:
            rep.hold(R, site(h.unit, h.name), "no hash of this scheme starts with a marker character")
        else:
            rep.violation(R, site(h.unit, h.name), f"hashes of `{h.name}` may start with the marker character {w[0]!r} (e.g. {w[:12]!r}...)",
                          f"an enabled `{h.name}` hash is taken for an already-disabled string by unix_disabled.disable(), which strips its first character; and marker {w[0]!r} + a 40-hex digest is identified as `{h.name}`",
                          witness=f"ctx = CryptContext(['{h.name}', 'unix_disabled']); h = ctx.hash('pw'); ctx.enable(ctx.disable(h)) != h (the leading {w[0]!r} is lost, the restored account cannot log in)")
    if n < 50:
        rep.undecided(R, "<instance-count>", f"only {n} scheme languages examined, expected at least 50")


from . import c09 as _c09  # noqa: E402
from .shared import Renamed as _Renamed  # noqa: E402


def run(model, rep):
    rep.explanation = __doc__
    rule_a(model, rep)
    rule_b(model, rep)
    rule_c(model, rep)
    rule_marker_text(model, rep)
    rule_d(model, rep)
    # unix_disabled.using(marker=...) must store the marker without touching the tables disable()/enable() work from
    _c09.rule_d(model, _Renamed(rep, {"C09.d": "C18.e-using-sanitised-store"}, "C18.x-", only=lambda s: "unix_disabled" in s or "django_disabled" in s))
    rep.minimum("C18.e-using-sanitised-store", 1)


def rule_marker_text(model, rep):
    """enable() and disable() compare the configured marker with text hashes (`hash.startswith(cls.default_marker)`): the marker that using()
    stores is therefore text -- a bytes marker is converted, exactly as a bytes hash is"""
    R = "C18.c-enable-disable"
    M = "passlib.handlers.misc"
    fn = model.func(M, "unix_disabled.using")
    s = site(M, "unix_disabled.using") + " marker type"
    store = [a for a in walk_no_nested(fn) if isinstance(a, ast.Assign) and ast.unparse(a.targets[0]) == "subcls.default_marker"]
    conv = [a for a in walk_no_nested(fn) if isinstance(a, ast.Assign) and ast.unparse(a.targets[0]) == "marker" and isinstance(a.value, ast.Call)
            and ast.unparse(a.value.func).split(".")[-1] in ("to_native_str", "to_unicode") and a.value.args and ast.unparse(a.value.args[0]) == "marker"]
    ok = len(store) == 1 and ((ast.unparse(store[0].value) == "marker" and conv and (conv[0].lineno, conv[0].col_offset) < (store[0].lineno, store[0].col_offset))
                              or (isinstance(store[0].value, ast.Call) and ast.unparse(store[0].value.func).split(".")[-1] in ("to_native_str", "to_unicode")))
    rep.check(ok, R, s, ast.unparse(store[0]) if store else "<no store>", "the marker is converted to text before it is stored as default_marker",
              witness="CryptContext(['sha256_crypt','unix_disabled'], unix_disabled__marker=b'*'): ctx.enable(ctx.disable(h)) raises TypeError('startswith first arg must be str ...')")
