"""Small AST query helpers used by the rule modules (indentation-independent statement matching)."""
from __future__ import annotations

import ast

from .model import walk_no_nested


def stmts(fn):
    """every statement inside fn (any depth, nested defs excluded)"""
    return [n for n in walk_no_nested(fn) if isinstance(n, ast.stmt)]


def has_stmt(fn, text):
    """is there a statement whose own unparse (dedented) equals text?"""
    return any(ast.unparse(s) == text for s in stmts(fn))


def find_if(fn, test, body=None, orelse=None):
    """If-statements with the given test text (and optionally exact body / orelse statement texts)"""
    out = []
    for s in stmts(fn):
        if isinstance(s, ast.If) and ast.unparse(s.test) == test:
            if body is not None and [ast.unparse(x) for x in s.body] != body:
                continue
            if orelse is not None and [ast.unparse(x) for x in s.orelse] != orelse:
                continue
            out.append(s)
    return out


def has_if(fn, test, body=None, orelse=None):
    return bool(find_if(fn, test, body, orelse))


def returns(fn):
    return [ast.unparse(n.value) if n.value is not None else "None" for n in walk_no_nested(fn) if isinstance(n, ast.Return)]


def body_texts(fn):
    return [ast.unparse(s) for s in fn.body if not (isinstance(s, ast.Expr) and isinstance(s.value, ast.Constant))]


def order_of(fn, texts):
    """positions (in pre-order) of the first statement equal to each text; None if missing"""
    seq = [ast.unparse(s) for s in _preorder(fn)]
    out = []
    for t in texts:
        out.append(seq.index(t) if t in seq else None)
    return out


def _preorder(node):
    for fld in ("body", "orelse", "finalbody"):
        for st in getattr(node, fld, []) or []:
            if isinstance(st, (ast.FunctionDef, ast.ClassDef)):
                continue
            yield st
            yield from _preorder(st)
    for h in getattr(node, "handlers", []) or []:
        for st in h.body:
            yield st
            yield from _preorder(st)


# ----------------------------------------------------------------------------- boundary-aware source text
import string as _string

_ID = set(_string.ascii_letters + _string.digits + "_")
_CLOSERS = "\n),]:}"


class Text(str):
    """unparsed source of a node.  `fragment in text` holds only where the fragment ends at an expression boundary:
    what follows must close or separate (newline, `)`, `]`, `,`, `:`, `}`), never continue the expression
    (`len(secret)` is not contained in `len(secret) - 1`, `chk` not in `chk or None`, `x` not in `xs`).
    Use .loose(fragment) for a deliberate prefix/partial match."""

    def loose(self, frag):
        return str.__contains__(self, frag)

    def __contains__(self, frag):
        if not isinstance(frag, str) or not frag:
            return str.__contains__(self, frag)
        s = str(self)
        start = 0
        while True:
            i = s.find(frag, start)
            if i < 0:
                return False
            j = i + len(frag)
            before = s[i - 1] if i else "\n"
            after = s[j] if j < len(s) else "\n"
            ok = True
            if frag[0] in _ID and (before in _ID or before == "."):
                ok = False
            last = frag[-1]
            if ok and (last in _ID or last in ")]'\"}"):
                if after not in _CLOSERS:
                    ok = False
            if ok:
                return True
            start = i + 1


def text(node):
    return Text(ast.unparse(node))


def must_assign(fn, target):
    """does every path of `fn` that reaches a normal return (or falls off the end) first assign `target` (text of the store target,
    e.g. 'self._buf')?  Structured walk: if/else = AND of the branches that fall through; a loop body may run zero times (but its returns
    are recorded with the state at loop entry / after the statements before them); `while True` without break does not fall through;
    try: handlers start from the state before the body; raise ends a path.  Returns (ok, [line numbers of the returns reached unassigned])."""
    import ast as _ast
    bad = []

    def assigns(st):
        if isinstance(st, (_ast.Assign, _ast.AugAssign, _ast.AnnAssign)):
            tgts = st.targets if isinstance(st, _ast.Assign) else [st.target]
            for t in tgts:
                for x in _ast.walk(t):
                    if isinstance(x, (_ast.Attribute, _ast.Name, _ast.Subscript)) and _ast.unparse(x) == target:
                        return True
        return False

    def block(stmts_, st):
        for s in stmts_:
            if st is None:
                return None
            if assigns(s):
                st = True
            elif isinstance(s, _ast.Return):
                if not st:
                    bad.append(s.lineno)
                return None
            elif isinstance(s, _ast.Raise):
                return None
            elif isinstance(s, _ast.If):
                a, b = block(s.body, st), block(s.orelse, st)
                outs = [x for x in (a, b) if x is not None]
                st = None if not outs else all(outs)
            elif isinstance(s, (_ast.While, _ast.For)):
                inner = block(s.body, st)
                forever = isinstance(s, _ast.While) and isinstance(s.test, _ast.Constant) and s.test.value is True and \
                    not any(isinstance(x, _ast.Break) for x in _ast.walk(s))
                if forever:
                    return None
                if s.orelse:
                    block(s.orelse, st)
            elif isinstance(s, _ast.With):
                st = block(s.body, st)
            elif isinstance(s, _ast.Try):
                a = block(s.body, st)
                hs = [block(h.body, st) for h in s.handlers]
                if s.orelse and a is not None:
                    a = block(s.orelse, a)
                outs = [x for x in [a] + hs if x is not None]
                st = None if not outs else all(outs)
                if s.finalbody:
                    f = block(s.finalbody, bool(st))
                    st = None if f is None else (f or bool(st))
        return st
    end = block(fn.body, False)
    if end is False:
        bad.append(getattr(fn, "end_lineno", 0))
    return (not bad, bad)
