from typing import Union

StrOrBytes = Union[str, bytes]


def as_bytes(value: StrOrBytes) -> bytes:
    return value.encode("utf8") if isinstance(value, str) else value


def as_str(value: StrOrBytes) -> str:
    return value.decode("utf8") if isinstance(value, bytes) else value
