#!/venv/bin/python
"""Blind evaluation with an older snapshot of /verif against the *current* /repo: violation keys that the snapshot already reports on the
clean current tree (because /repo moved on after the snapshot) are subtracted, so only what a seed adds counts.
usage: seedeval_blind.py <snapshot-verif-dir> <seed-dir> [-j N]"""
import json, os, subprocess, sys, glob, shutil, tempfile
from concurrent.futures import ProcessPoolExecutor
ALL = ["C%02d" % i for i in range(1, 21)]
SNAP, ROOT = sys.argv[1], sys.argv[2]
JOBS = int(sys.argv[sys.argv.index("-j") + 1]) if "-j" in sys.argv else 12


def keys_for(repo_root):
    ev = tempfile.mkdtemp(prefix="pv-ev-")
    out = {}
    try:
        env = dict(os.environ, PV_REPO=repo_root, PV_EVIDENCE_DIR=ev)
        for p in ALL:
            c = subprocess.run([os.path.join(SNAP, "check"), p], capture_output=True, text=True, cwd=SNAP, env=env)
            ks = set()
            try:
                d = json.load(open(os.path.join(ev, p + ".json")))
                v = d.get("violations")
                for f in glob.glob(os.path.join(ev, "replay", p + "-*.json")):
                    ks.add(json.load(open(f))["key"])
            except Exception:
                pass
            out[p] = (c.returncode, ks)
    finally:
        shutil.rmtree(ev, ignore_errors=True)
    return out


def one(patch):
    d = patch.split(os.sep)
    pid, k = d[-3], d[-2]
    title = ""
    try:
        title = json.load(open(os.path.join(os.path.dirname(patch), "meta.json"))).get("title", "")
    except Exception:
        pass
    tmp = tempfile.mkdtemp(prefix="pv-seed-")
    try:
        for pkg in ("passlib", "libpass"):
            shutil.copytree(os.path.join("/repo", pkg), os.path.join(tmp, pkg))
        r = subprocess.run(["git", "apply", patch], cwd=tmp, capture_output=True, text=True)
        if r.returncode != 0:
            r = subprocess.run(["patch", "-p1", "-s", "-i", patch], cwd=tmp, capture_output=True, text=True)
        if r.returncode != 0:
            return (pid, k, "APPLY-FAILED", {}, title)
        return (pid, k, "ok", keys_for(tmp), title)
    finally:
        shutil.rmtree(tmp, ignore_errors=True)


if __name__ == "__main__":
    base_tmp = tempfile.mkdtemp(prefix="pv-base-")
    for pkg in ("passlib", "libpass"):
        shutil.copytree(os.path.join("/repo", pkg), os.path.join(base_tmp, pkg))
    base = keys_for(base_tmp)
    shutil.rmtree(base_tmp)
    print("snapshot on the clean current tree:", {p: (rc, len(ks)) for p, (rc, ks) in base.items() if rc or ks})
    patches = sorted(glob.glob(os.path.join(ROOT, "C*", "[0-9]", "patch.diff")))
    with ProcessPoolExecutor(JOBS) as ex:
        rows = list(ex.map(one, patches))
    own = other = missed = 0
    for pid, k, st, res, title in rows:
        if st != "ok":
            print(f"{pid}/{k}: {st}"); continue
        new = {p: sorted(ks - base[p][1]) for p, (rc, ks) in res.items() if ks - base[p][1]}
        rules = {p: sorted({x.split("|")[0] for x in v}) for p, v in new.items()}
        tag = "CAUGHT" if pid in new else ("other " if new else "MISSED")
        own += tag == "CAUGHT"; other += tag == "other "; missed += tag == "MISSED"
        print(f"{pid}/{k}: {tag} {','.join(r for p in sorted(rules) for r in rules[p])[:90]:90} | {title[:70]}")
    print("caught-by-own:", own, "other:", other, "missed:", missed, "of", len(rows))
