#!/venv/bin/python
"""Negative controls: behaviour-preserving rewrites of the whole tree on which every check must stay silent.
  reformat  -- every file replaced by ast.unparse(ast.parse(src)) (comments, layout, quoting, number spelling gone)
  rename    -- every renamable function local x renamed to x_r (about 1300 names)
  logging   -- a `logging.debug("enter")` statement inserted at the top of every function (about 950)
  docstring -- a docstring added to every function and class that has none
  annotate  -- `: object` added to every un-annotated parameter and `-> object` to every function without a return annotation
  addcode   -- an unused function appended to every module and an unused method to every class
usage: selftest/benign.py [reformat|rename|logging|docstring|annotate|addcode|all]   -> exit 0 if all 20 quick checks exit 0 on each rewritten tree"""
import ast, os, shutil, subprocess, sys, tempfile
HERE = os.path.dirname(os.path.dirname(os.path.abspath(__file__)))
sys.path.insert(0, HERE)
from pv import alpha
REPO = os.environ.get("PV_REPO", "/repo")


def rewrite(root, how):
    n = 0
    for pkg in ("passlib", "libpass"):
        for dp, dn, fns in os.walk(os.path.join(root, pkg)):
            for f in fns:
                if not f.endswith(".py"):
                    continue
                p = os.path.join(dp, f)
                t = ast.parse(open(p, encoding="utf-8").read())
                if how == "logging":
                    for fn in [x for x in ast.walk(t) if isinstance(x, (ast.FunctionDef, ast.AsyncFunctionDef))]:
                        i = 1 if (fn.body and isinstance(fn.body[0], ast.Expr) and isinstance(fn.body[0].value, ast.Constant) and isinstance(fn.body[0].value.value, str)) else 0
                        fn.body.insert(i, ast.parse("logging.debug('enter')").body[0])
                        n += 1
                    j = 0
                    while j < len(t.body) and (isinstance(t.body[j], ast.ImportFrom) and t.body[j].module == "__future__" or
                                               (isinstance(t.body[j], ast.Expr) and isinstance(t.body[j].value, ast.Constant))):
                        j += 1
                    t.body.insert(j, ast.parse("import logging").body[0])
                    ast.fix_missing_locations(t)
                if how == "docstring":
                    for d in [x for x in ast.walk(t) if isinstance(x, (ast.FunctionDef, ast.AsyncFunctionDef, ast.ClassDef))]:
                        if not (d.body and isinstance(d.body[0], ast.Expr) and isinstance(d.body[0].value, ast.Constant) and isinstance(d.body[0].value.value, str)):
                            d.body.insert(0, ast.Expr(value=ast.Constant(value="documentation added by the benign control")))
                            n += 1
                    ast.fix_missing_locations(t)
                if how == "annotate":
                    for fn in [x for x in ast.walk(t) if isinstance(x, (ast.FunctionDef, ast.AsyncFunctionDef))]:
                        for a in fn.args.posonlyargs + fn.args.args + fn.args.kwonlyargs:
                            if a.annotation is None and a.arg not in ("self", "cls"):
                                a.annotation = ast.Name(id="object", ctx=ast.Load())
                                n += 1
                        if fn.returns is None and fn.name != "__init__":
                            fn.returns = ast.Name(id="object", ctx=ast.Load())
                    ast.fix_missing_locations(t)
                if how == "addcode":
                    for c in [x for x in ast.walk(t) if isinstance(x, ast.ClassDef)]:
                        if not any(isinstance(b, ast.Name) and b.id in ("Enum", "NamedTuple", "TypedDict", "Protocol") for b in c.bases):
                            c.body.append(ast.parse("def _pv_unused_method(self):\n    return None").body[0])
                            n += 1
                    t.body.append(ast.parse("def _pv_unused_function(value=None):\n    return value").body[0])
                    ast.fix_missing_locations(t)
                if how == "rename":
                    for key, fn in alpha.function_index(t):
                        names = alpha.local_order(fn)
                        used = {x.id for x in ast.walk(fn) if isinstance(x, ast.Name)}
                        m = {x: x + "_r" for x in names if x + "_r" not in used}
                        r = alpha._Rename(m)
                        for st in fn.body:
                            r.visit(st)
                        n += len(m)
                open(p, "w", encoding="utf-8").write(ast.unparse(t) + "\n")
    return n


def main(argv):
    which = argv[0] if argv else "all"
    worst = 0
    for how in (["reformat", "rename", "logging", "docstring", "annotate", "addcode"] if which == "all" else [which]):
        tmp = tempfile.mkdtemp(prefix="pv-benign-")
        try:
            for pkg in ("passlib", "libpass"):
                shutil.copytree(os.path.join(REPO, pkg), os.path.join(tmp, pkg))
            n = rewrite(tmp, how)
            env = dict(os.environ, PV_REPO=tmp, PV_EVIDENCE_DIR=os.path.join(tmp, "evidence"))
            # the rewritten tree must still import and hash (the rewrite really is behaviour-preserving)
            smoke = subprocess.run(["/venv/bin/python", "-c", "import sys; sys.path.insert(0, %r)\nimport passlib.hash as h, passlib.context, passlib.totp, passlib.apache, passlib.pwd, libpass.hashers.sha_crypt as s\n"
                                    "assert h.sha256_crypt.verify('x', h.sha256_crypt.using(rounds=1000).hash('x')) and h.md5_crypt.verify('x', h.md5_crypt.hash('x')) and h.des_crypt.verify('x', h.des_crypt.hash('x'))\n"
                                    "assert s.SHA512Hasher(rounds=1000).verify(s.SHA512Hasher(rounds=1000).hash('x'), 'x') and h.pbkdf2_sha256.verify('x', h.pbkdf2_sha256.using(rounds=10).hash('x'))\n"
                                    "assert h.scrypt.using(rounds=4).verify('x', h.scrypt.using(rounds=4).hash('x')) if h.scrypt.has_backend('builtin') else True\n" % tmp],
                                   capture_output=True, text=True, cwd=tmp)
            if smoke.returncode != 0:
                print(f"[benign:{how}] rewritten tree does not run: {smoke.stderr.strip().splitlines()[-1:]}")
                worst = 2
                continue
            out = subprocess.run([os.path.join(HERE, "check"), "all"], capture_output=True, text=True, env=env)
            bad = [l for l in out.stdout.splitlines() if l.startswith(("VIOLATION", "ANALYSIS-ERROR"))]
            print(f"[benign:{how}] {n} names rewritten; checks exit {out.returncode}; {len(bad)} alarm lines")
            for l in bad[:10]:
                print("    " + l[:200])
            if out.returncode != 0:
                worst = max(worst, 1)
        finally:
            shutil.rmtree(tmp, ignore_errors=True)
    return worst


if __name__ == "__main__":
    sys.exit(main(sys.argv[1:]))
