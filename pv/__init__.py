"""pv -- static-analysis engine for the passlib property checks (standard library only).

Nothing under /repo is ever imported or executed: every fact is read off the AST of the
current working tree (``PV_REPO`` overrides the location, used by the self-test on scratch copies).
"""
