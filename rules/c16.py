"""C16 -- htpasswd/htdigest files stay a faithful user database under any edit history.

The module is not executed by the pinned suite.  Decided: representation invariant and ownership of
_records/_source (who-may-write; coherence of the append guard with deletion); user/realm are
validated (encoded) before they are used as keys; every public mutator persists (autosave
must-call); record parse/render are inverse with the same field order; file order and comments are
preserved by the loader/renderer shape; the htdigest positional shims agree; realm filters compare
the realm component.  Not decided: behaviour over operation histories as executed."""
from __future__ import annotations

import ast

from pv.q import text as qtext
from pv.q import stmts as q_stmts, has_if, has_stmt
from pv.model import AnalysisError, walk_no_nested, params, UNKNOWN
from pv.mustcall import MustCall

AP = "passlib.apache"


def site(f):
    return f"{AP}:{f}"


def _methods(model):
    unit = model.unit(AP)
    for cn in ("_CommonFile", "HtpasswdFile", "HtdigestFile"):
        c = unit.classes.get(cn)
        if c is None:
            raise AnalysisError(f"class {cn} vanished from passlib.apache")
        for st in c.body:
            if isinstance(st, ast.FunctionDef):
                yield cn, st


def _aliases(fn, attr):
    """local names bound to self.<attr> in fn"""
    out = {f"self.{attr}"}
    for n in walk_no_nested(fn):
        if isinstance(n, ast.Assign) and ast.unparse(n.value) == f"self.{attr}":
            for t in n.targets:
                if isinstance(t, ast.Name):
                    out.add(t.id)
    return out


def _mutations(fn, attr):
    """-> list of (kind, node): rebind / setitem / delitem / append / other-call"""
    al = _aliases(fn, attr)
    out = []
    for n in walk_no_nested(fn):
        if isinstance(n, ast.Assign):
            for t in n.targets:
                if ast.unparse(t) == f"self.{attr}":
                    out.append(("rebind", n))
                elif isinstance(t, ast.Subscript) and ast.unparse(t.value) in al:
                    out.append(("setitem", n))
        elif isinstance(n, ast.Delete):
            for t in n.targets:
                if isinstance(t, ast.Subscript) and ast.unparse(t.value) in al:
                    out.append(("delitem", n))
        elif isinstance(n, ast.Call) and isinstance(n.func, ast.Attribute) and ast.unparse(n.func.value) in al \
                and n.func.attr in ("append", "extend", "insert", "pop", "remove", "clear", "update", "setdefault", "popitem"):
            out.append((n.func.attr, n))
    return out


OWNERS = {
    ("_records", "rebind"): {"_CommonFile.__init__", "_CommonFile._load_lines"},
    ("_records", "setitem"): {"_CommonFile._set_record", "HtpasswdFile.check_password"},
    ("_records", "delitem"): {"HtpasswdFile.delete", "HtdigestFile.delete", "HtdigestFile.delete_realm"},
    ("_source", "rebind"): {"_CommonFile.__init__", "_CommonFile._load_lines"},
    ("_source", "append"): {"_CommonFile._set_record"},
}


def rule_a(model, rep):
    R = "C16.a-owners"
    for cn, fn in _methods(model):
        q = f"{cn}.{fn.name}"
        for attr in ("_records", "_source"):
            for kind, node in _mutations(fn, attr):
                allowed = OWNERS.get((attr, kind), set())
                rep.check(q in allowed, R, site(q), f"{kind} {attr}: {ast.unparse(node)[:80]}",
                          f"{attr} may be changed by `{kind}` only in {sorted(allowed) or 'no function'}",
                          witness="the record table and the ordered source list are changed outside the code that keeps them coherent: export drops or duplicates users")
    rep.minimum(R, 9)
    # check_password only overwrites an existing key
    fn = model.func(AP, "HtpasswdFile.check_password")
    txt = qtext(fn)
    ok = "hash = self._records.get(user)" in txt and "if hash is None:\n        return None" in txt and "self._records[user] = new_hash" in txt
    rep.check(ok, R, site("HtpasswdFile.check_password"), "get -> None for unknown; overwrite existing", "the upgraded hash replaces the entry of a user known to exist")


def rule_b(model, rep):
    R = "C16.b-source-coherence"
    fn = model.func(AP, "_CommonFile._set_record")
    unit = model.unit(AP)
    apps = [n for n in walk_no_nested(fn) if isinstance(n, ast.Call) and ast.unparse(n.func) == "self._source.append"]
    if len(apps) != 1:
        rep.undecided(R, site("_CommonFile._set_record"), "append to _source not found")
        return
    guard = unit.enclosing(apps[0], ast.If)
    gt = ast.unparse(guard.test) if guard is not None else ""
    consults_source = "self._source" in gt
    # alternative repair: every deletion site purges _source
    purges = True
    for q in ("HtpasswdFile.delete", "HtdigestFile.delete", "HtdigestFile.delete_realm"):
        f2 = model.func(AP, q)
        if not any(kind in ("remove", "pop", "rebind", "clear") for kind, _ in _mutations(f2, "_source")) and not qtext(f2).loose("_source"):
            purges = False
    rep.check(consults_source or purges, R, site("_CommonFile._set_record"), f"if {gt}: self._source.append((_RECORD, key))",
              "a deleted record keeps its slot in _source, so the append must be guarded by a test on _source itself (or deletions must purge _source)",
              witness="history: set_password('u'), delete('u'), set_password('u'), to_string() -> the user is listed twice in _source: "
                      "KeyError/AssertionError in _iter_lines, or the user written twice under python -O")
    arg = ast.unparse(apps[0].args[0]) if apps[0].args else ""
    rep.check(arg == "(_RECORD, key)", R, site("_CommonFile._set_record"), arg, "appended source entry is (_RECORD, key)")
    body = [ast.unparse(s) for s in fn.body if not (isinstance(s, ast.Expr) and isinstance(s.value, ast.Constant))]
    rep.check("records[key] = value" in body and "existing = key in records" in body and body.index("existing = key in records") < body.index("records[key] = value")
              and body[-1] == "return existing", R, site("_CommonFile._set_record"), " | ".join(body), "existing is computed before the store and returned")
    # _iter_lines: skips deleted keys, renders from _records
    fn = model.func(AP, "_CommonFile._iter_lines")
    txt = qtext(fn)
    rep.check("if content not in records:\n                continue" in txt, R, site("_CommonFile._iter_lines"), "if content not in records: continue", "slots of deleted records are skipped")
    rep.check("yield self._render_record(content, records[content])" in txt, R, site("_CommonFile._iter_lines"), "yield self._render_record(content, records[content])",
              "records are rendered with their current hash")
    rep.check("for action, content in self._source:" in txt, R, site("_CommonFile._iter_lines"), "for action, content in self._source", "rendering walks _source in order")
    rep.check("if action == _SKIPPED:\n            yield content" in txt, R, site("_CommonFile._iter_lines"), "if action == _SKIPPED: yield content", "comments/blank lines are emitted verbatim")


def rule_c(model, rep):
    R = "C16.c-validated-keys"
    # public methods: `user`/`realm` parameters reach _records only through the encoders
    unit = model.unit(AP)
    for cn, fn in _methods(model):
        if fn.name.startswith("_") or cn == "_CommonFile":
            continue
        ps = params(fn)
        if "user" not in ps and "realm" not in ps:
            continue
        q = f"{cn}.{fn.name}"
        recs = _aliases(fn, "_records")
        # names that hold validated values
        valid = set()
        for n in walk_no_nested(fn):
            if isinstance(n, ast.Assign) and isinstance(n.value, ast.Call) and ast.unparse(n.value.func) in (
                    "self._encode_user", "self._encode_realm", "self._encode_key"):
                for t in n.targets:
                    for nm in ast.walk(t):
                        if isinstance(nm, ast.Name):
                            valid.add(("v", nm.id, n.lineno))
        # names bound by iterating over the record table hold existing (already validated) keys
        iter_bound = set()
        for n in walk_no_nested(fn):
            if isinstance(n, (ast.For, ast.comprehension)) and (ast.unparse(n.iter) in recs or ast.unparse(n.iter) == "keys"):
                for nm in ast.walk(n.target):
                    if isinstance(nm, ast.Name):
                        iter_bound.add(nm.id)
        bad = []
        for n in walk_no_nested(fn):
            key = None
            if isinstance(n, ast.Subscript) and ast.unparse(n.value) in recs:
                key = n.slice
            elif isinstance(n, ast.Call) and isinstance(n.func, ast.Attribute) and ast.unparse(n.func.value) in recs and n.func.attr in ("get", "pop") and n.args:
                key = n.args[0]
            elif isinstance(n, ast.Call) and ast.unparse(n.func) == "self._set_record" and n.args:
                key = n.args[0]
            if key is None:
                continue
            for nm in _names_outside_encoders(key):
                if nm.id in ("user", "realm", "key"):
                    ok = any(v[1] == nm.id and v[2] <= n.lineno for v in valid) or nm.id in iter_bound
                    if not ok:
                        bad.append(ast.unparse(n)[:70])
        rep.check(not bad, R, site(q), "; ".join(bad) or "keys encoded before use",
                  "user / realm are passed through _encode_user/_encode_realm/_encode_key before they are used as record keys",
                  witness="a user name containing ':' or a newline is stored: the saved file parses back to different users")
        # htdigest.hash/verify get the *unencoded* or consistently encoded pair in the same roles
    rep.minimum(R, 8)
    fn = model.func(AP, "_CommonFile._encode_field")
    txt = qtext(fn)
    bad_chars = model.fold(unit, ast.Name(id="_INVALID_FIELD_CHARS", ctx=ast.Load()))
    rep.check(isinstance(bad_chars, bytes) and set(bad_chars) >= set(b":\n\r\t\x00"), R, site("_INVALID_FIELD_CHARS"), repr(bad_chars),
              "separator and control characters ':', NL, CR, TAB, NUL are forbidden in user/realm",
              witness="set_password('a:b', ...) writes a line that parses back as user 'a'")
    rep.check(txt.loose("if len(value) > 255:") and txt.loose("raise ValueError"), R, site("_CommonFile._encode_field"), "len(value) > 255 -> ValueError", "names longer than 255 bytes are refused")
    rep.check("any((c in _INVALID_FIELD_CHARS for c in value))" in txt, R, site("_CommonFile._encode_field"), "any(c in _INVALID_FIELD_CHARS for c in value)", "every byte is checked")
    i_enc = txt.find("value = value.encode(self.encoding)")
    i_len = txt.find("if len(value) > 255:")
    rep.check(0 < i_enc < i_len, R, site("_CommonFile._encode_field"), "encode before length check", "the 255 limit is measured on the encoded bytes")
    for m, p in (("_encode_user", "user"), ("_encode_realm", "realm")):
        fn = model.func(AP, "_CommonFile." + m)
        rets = [ast.unparse(n.value) for n in ast.walk(fn) if isinstance(n, ast.Return)]
        via = [ast.unparse(c) for c in ast.walk(fn) if isinstance(c, ast.Call) and ast.unparse(c.func) == "self._encode_field"]
        # every returned value is the validated one: either the call itself or the name it was bound to
        ok = via == [f"self._encode_field({p}, '{p}')"] and (rets == via or (rets == [p] and has_stmt(fn, f"{p} = self._encode_field({p}, '{p}')")))
        rep.check(ok, R, site("_CommonFile." + m), "; ".join(rets), f"{m} validates through _encode_field")
    fn = model.func(AP, "HtdigestFile._encode_realm")
    body = [ast.unparse(s) for s in fn.body]
    rep.check(body == ["realm = self._require_realm(realm)", "return self._encode_field(realm, 'realm')"], R, site("HtdigestFile._encode_realm"), " | ".join(body),
              "htdigest realm: default applied, then validated")
    fn = model.func(AP, "HtdigestFile._encode_key")
    rets = [ast.unparse(n.value) for n in ast.walk(fn) if isinstance(n, ast.Return)]
    rep.check(rets == ["(self._encode_user(user), self._encode_realm(realm))"], R, site("HtdigestFile._encode_key"), "; ".join(rets), "record key is (user, realm) in that order")


def _names_outside_encoders(e):
    """Name nodes of e that are not inside an _encode_* call"""
    if isinstance(e, ast.Call) and ast.unparse(e.func) in ("self._encode_user", "self._encode_realm", "self._encode_key"):
        return
    if isinstance(e, ast.Name):
        yield e
    for ch in ast.iter_child_nodes(e):
        yield from _names_outside_encoders(ch)


def rule_d(model, rep):
    R = "C16.d-autosave"
    mutators = ["HtpasswdFile.set_hash", "HtpasswdFile.delete", "HtpasswdFile.check_password", "HtdigestFile.set_hash", "HtdigestFile.delete",
                "HtdigestFile.delete_realm"]
    unit = model.unit(AP)
    for q in mutators:
        fn = model.func(AP, q)
        muts = [n for k, n in _mutations(fn, "_records")] + [n for n in walk_no_nested(fn) if isinstance(n, ast.Call) and ast.unparse(n.func) == "self._set_record"]
        if not muts:
            rep.undecided(R, site(q), "no mutation found in a registered mutator")
            continue
        # every mutation statement is followed (same block, later) by self._autosave() before the block ends / returns
        for mnode in muts:
            st = mnode
            while not isinstance(st, ast.stmt):
                st = unit.parent(st)
            ok = False
            node = st
            while node is not fn and node is not None and not ok:
                par = unit.parent(node)
                for fld in ("body", "orelse", "finalbody"):
                    blk = getattr(par, fld, None)
                    if isinstance(blk, list) and node in blk:
                        for later in blk[blk.index(node) + 1:]:
                            if isinstance(later, ast.Return):
                                break
                            if isinstance(later, ast.Expr) and ast.unparse(later.value) == "self._autosave()":
                                ok = True
                                break
                if isinstance(par, ast.ExceptHandler):
                    break
                node = par
            rep.check(ok, R, site(q), ast.unparse(st)[:80], "every change of the record table is followed by self._autosave() on the path to the return",
                      witness="with autosave=True the file on disk silently keeps the old state after this operation")
    rep.minimum(R, 6)
    fn = model.func(AP, "_CommonFile._autosave")
    body = [ast.unparse(s) for s in fn.body if not (isinstance(s, ast.Expr) and isinstance(s.value, ast.Constant))]
    rep.check(body == ["if self.autosave and self._path:\n    self.save()"], R, site("_CommonFile._autosave"), " | ".join(body), "autosave saves when enabled and bound to a path")
    fn = model.func(AP, "_CommonFile.save")
    txt = qtext(fn)
    rep.check("fh.writelines(self._iter_lines())" in txt and "self._mtime = os.path.getmtime(self._path)" in txt, R, site("_CommonFile.save"),
              "writelines(_iter_lines()); refresh _mtime", "save writes the rendered lines and refreshes the remembered mtime",
              witness="load_if_changed() after save() reloads needlessly or misses external changes")
    fn = model.func(AP, "_CommonFile.load")
    txt = qtext(fn)
    rep.check(("self._mtime = os.path.getmtime(self._path)" in txt or ("mtime = os.path.getmtime(self._path)" in txt and "self._mtime = mtime" in txt)) and "self._mtime = 0" in txt, R, site("_CommonFile.load"),
              "_mtime set on load (0 for foreign paths)", "load remembers the mtime of its own file and 0 for foreign sources")
    # the remembered mtime is part of the loaded state: it may change only after the whole input parsed (a failed load changes nothing)
    for q in ("_CommonFile.load", "_CommonFile.load_string"):
        f2 = model.func(AP, q)
        seq = [x for x in q_stmts(f2)]
        for i, st in enumerate(seq):
            if isinstance(st, ast.Assign) and ast.unparse(st.targets[0]) == "self._mtime":
                unit_ap = model.unit(AP)
                blk_owner = unit_ap.parent(st)
                blk = next((getattr(blk_owner, f_) for f_ in ("body", "orelse") if isinstance(getattr(blk_owner, f_, None), list) and st in getattr(blk_owner, f_)), [])
                later_parse = any("_load_lines(" in ast.unparse(x) for x in blk[blk.index(st) + 1:]) if st in blk else False
                rep.check(not later_parse, R, site(q) + " mtime after parse", f"`{ast.unparse(st)}` precedes the `_load_lines(...)` call of the same block",
                          "the remembered mtime is updated only after the input parsed completely",
                          witness="another writer leaves a malformed line: the first load_if_changed() raises (records untouched), the second returns False -- the file's content is never loaded although it changed")
    # ... and every loader that replaces the records from a source other than the bound file forgets the remembered mtime: the file is
    # then "changed" as far as load_if_changed() is concerned
    from pv.q import must_assign
    f2 = model.func(AP, "_CommonFile.load_string")
    vals = [ast.unparse(a.value) for a in walk_no_nested(f2) if isinstance(a, ast.Assign) and ast.unparse(a.targets[0]) == "self._mtime"]
    rep.check(must_assign(f2, "self._mtime") and vals == ["0"], R, site("_CommonFile.load_string") + " forgets mtime", f"self._mtime assigned {vals or 'nowhere'}",
              "load_string() resets the remembered mtime to 0 on every path",
              witness="HtpasswdFile(path); load_string(other); load_if_changed() returns False and the object keeps exporting the string's records instead of the file's")
    fn = model.func(AP, "_CommonFile.load_if_changed")
    txt = qtext(fn)
    rep.check("if self._mtime and self._mtime == os.path.getmtime(self._path):\n        return False" in txt, R, site("_CommonFile.load_if_changed"),
              "unchanged mtime -> False", "reload is skipped only when the remembered mtime equals the file's")
    # set_password delegates to set_hash (so it autosaves)
    for q, want in (("HtpasswdFile.set_password", "self.set_hash(user, hash)"), ("HtdigestFile.set_password", "self.set_hash(user, realm, hash)")):
        fn = model.func(AP, q)
        rets = [ast.unparse(n.value) for n in ast.walk(fn) if isinstance(n, ast.Return)]
        rep.check(rets == [want], R, site(q), "; ".join(rets), "set_password stores through set_hash")


def rule_e(model, rep):
    R = "C16.e-parse-render"
    # records hold bytes (loaded, set_hash) or text (the re-hashed value check_password() stores): the renderer takes both
    rb = model.func("passlib.utils", "render_bytes")
    conv = []
    for g in ast.walk(rb):
        if isinstance(g, (ast.GeneratorExp, ast.ListComp)) and len(g.generators) == 1 and ast.unparse(g.generators[0].iter) == "args" and isinstance(g.generators[0].target, ast.Name):
            x = g.generators[0].target.id
            e = g.elt
            if isinstance(e, ast.IfExp) and ast.unparse(e.test) in (f"isinstance({x}, bytes)", f"isinstance({x}, str)", f"not isinstance({x}, bytes)", f"not isinstance({x}, str)"):
                conv.append(ast.unparse(e))
    rep.check(len(conv) == 1, R, "passlib.utils:render_bytes", conv[0] if conv else "arguments are formatted as they come",
              "render_bytes() brings every argument to one string type before formatting, whichever of bytes / str it is",
              witness="after check_password() upgraded a deprecated hash (stored as str), to_string() / save() raise TypeError: %b requires a bytes-like object")
    for cls, nf, tmpl, ret in (("HtpasswdFile", 2, "'%s:%s\\n'", "result"), ("HtdigestFile", 3, "'%s:%s:%s\\n'", "((user, realm), hash)")):
        fn = model.func(AP, cls + "._parse_record")
        txt = qtext(fn)
        rep.check(txt.loose("result = record.rstrip().split(_BCOLON)") and txt.loose(f"if len(result) != {nf}:") and txt.loose("raise ValueError"), R, site(cls + "._parse_record"),
                  f"split on ':' into {nf} fields", f"a record line has exactly {nf} colon-separated fields, else ValueError",
                  witness="malformed lines are silently accepted / valid lines refused")
        rets = [ast.unparse(n.value) for n in ast.walk(fn) if isinstance(n, ast.Return)]
        rep.check(rets == [ret], R, site(cls + "._parse_record"), "; ".join(rets), "parsed record is (key, hash) with key fields in file order")
        fn = model.func(AP, cls + "._render_record")
        calls = [n for n in ast.walk(fn) if isinstance(n, ast.Call) and ast.unparse(n.func) == "render_bytes"]
        ok = len(calls) == 1 and ast.unparse(calls[0].args[0]) == tmpl
        rep.check(ok, R, site(cls + "._render_record"), ast.unparse(calls[0]) if calls else "<none>", f"rendered as {tmpl}")
        if ok:
            args = [ast.unparse(a) for a in calls[0].args[1:]]
            want = ["user", "hash"] if nf == 2 else ["user", "realm", "hash"]
            rep.check(args == want, R, site(cls + "._render_record"), ", ".join(args), f"fields rendered in the order they are parsed: {want}",
                      witness="saved file has user and realm (or hash) swapped")
    fn = model.func(AP, "HtdigestFile._render_record")
    rep.check("user, realm = key" in qtext(fn), R, site("HtdigestFile._render_record"), "user, realm = key", "key unpacked as (user, realm)")
    sep = model.fold(model.unit(AP), ast.Name(id="_BCOLON", ctx=ast.Load()))
    rep.check(sep == b":", R, site("_BCOLON"), repr(sep), "field separator is ':'")
    # htdigest hash/verify roles
    fn = model.func(AP, "HtdigestFile.set_password")
    rep.check("hash = htdigest.hash(password, user, realm, encoding=self.encoding)" in qtext(fn), R, site("HtdigestFile.set_password"),
              "htdigest.hash(password, user, realm, encoding=self.encoding)", "digest made from (password, user, realm) with the file's encoding")
    fn = model.func(AP, "HtdigestFile.check_password")
    rets = [ast.unparse(n.value) for n in ast.walk(fn) if isinstance(n, ast.Return)]
    rep.check("htdigest.verify(password, hash, user, realm, encoding=self.encoding)" in rets, R, site("HtdigestFile.check_password"), "; ".join(rets),
              "digest verified with (user, realm) in the same roles and encoding",
              witness="check_password() is False for the password just set (roles swapped)")
    rep.check("None" in rets, R, site("HtdigestFile.check_password"), "return None for unknown", "unknown user -> None")
    fn = model.func(AP, "HtpasswdFile.check_password")
    txt = qtext(fn)
    rep.check("ok, new_hash = self.context.verify_and_update(password, hash)" in txt and "if ok and new_hash is not None:" in txt and txt.rstrip().endswith("return ok"), R,
              site("HtpasswdFile.check_password"), "verify_and_update; store new hash when ok", "deprecated hashes are upgraded on successful check")
    fn = model.func(AP, "HtpasswdFile.set_password")
    rep.check("hash = self.context.hash(password)" in qtext(fn), R, site("HtpasswdFile.set_password"), "self.context.hash(password)", "password hashed by the file's context")
    # the context the methods use is the caller's: self.context is the `context` parameter or a value computed from it on every path
    fn = model.func(AP, "HtpasswdFile.__init__")
    stores = [n for n in walk_no_nested(fn) if isinstance(n, ast.Assign) and any(ast.unparse(t) == "self.context" for t in n.targets)]
    rebinds = [n for n in walk_no_nested(fn) if isinstance(n, ast.Assign) and any(isinstance(t, ast.Name) and t.id == "context" for t in n.targets)]
    has_param = "context" in [a.arg for a in fn.args.args + fn.args.kwonlyargs]
    foreign = [ast.unparse(n) for n in rebinds if not any(isinstance(x, ast.Name) and x.id == "context" for x in ast.walk(n.value))]
    ok = has_param and len(stores) >= 1 and all(ast.unparse(n.value) == "context" for n in stores) and not foreign
    rep.check(ok, R, site("HtpasswdFile.__init__") + " context", "; ".join(foreign) or "; ".join(ast.unparse(n) for n in stores + rebinds),
              "the file works with the context the caller passed: `context` is only ever replaced by a value derived from itself (context.copy(default=...))",
              witness="HtpasswdFile(path, context=CryptContext([...], deprecated=[...]), default_scheme='sha256_crypt').check_password(user, pw) never upgrades the deprecated hash: the caller's policy was replaced by a copy of the stock htpasswd_context")


def rule_j(model, rep):
    """a record line must not be mistaken for a comment: the loader skips every line whose lstrip() starts with '#', and a record line
    starts with the user name, so such a name must be refused when it is set"""
    R = "C16.c-validated-keys"
    ll = model.func(AP, "_CommonFile._load_lines")
    skips = has_if(ll, "not tmp or tmp.startswith(_BHASH)") and has_stmt(ll, "tmp = line.lstrip()")
    eu = model.func(AP, "_CommonFile._encode_user")
    refuse = [n for n in walk_no_nested(eu) if isinstance(n, ast.If) and "lstrip().startswith(_BHASH)" in ast.unparse(n.test) and n.body and isinstance(n.body[-1], ast.Raise) and "ValueError" in ast.unparse(n.body[-1])]
    rep.check(skips, R, site("_CommonFile._load_lines") + " comment rule", "lines whose lstrip() starts with '#' are skipped", "loader's comment rule located")
    rep.check(bool(refuse), R, site("_CommonFile._encode_user") + " comment-like name", "user names whose lstrip() starts with '#' are not refused",
              "a user name that would make its record line look like a comment is refused when it is set",
              witness="HtpasswdFile().set_password('#bob', 'pw'): users() == ['#bob'], but from_string(to_string()).users() == [] -- the record is read back as a comment")


def rule_k(model, rep):
    """the hash field: (1) what is written must be parseable back -- the record parsers split on ':' and strip the line end, so a stored hash
    containing NL/CR/':' or ending in blanks does not round-trip; with the `plaintext` scheme the hash *is* the password;
    (2) HtpasswdFile talks to a context that contains a scheme with an `encoding` context keyword (plaintext) but never passes the file encoding"""
    R = "C16.k-hash-field"
    for cls in ("HtpasswdFile", "HtdigestFile"):
        fn = model.func(AP, cls + ".set_hash")
        validated = any(isinstance(c, ast.Call) and ast.unparse(c.func) in ("self._encode_field", "self._validate_hash", "self._check_hash") and c.args and ast.unparse(c.args[0]) == "hash" for c in walk_no_nested(fn)) \
            or any(isinstance(n, ast.If) and "hash" in ast.unparse(n.test) and n.body and isinstance(n.body[-1], ast.Raise) for n in walk_no_nested(fn))
        if cls == "HtpasswdFile":
            # only HtpasswdFile can be given a scheme whose hash is free text (plaintext is in htpasswd_context)
            if validated:
                rep.hold(R, site(cls + ".set_hash"), "hash field validated before it is stored")
            else:
                rep.violation(R, site(cls + ".set_hash"), "self._set_record(user, hash)  # hash stored without checking for NL / CR / ':' / trailing blanks",
                              "the hash field is written verbatim although the record parser splits on ':' and strips the line end; with the plaintext scheme (part of htpasswd_context) the field is the password itself",
                              witness="HtpasswdFile(default_scheme='plaintext').set_password('alice', 'x\\nroot:owned') exports b'alice:x\\nroot:owned\\n' (a second account appears on reload); "
                                      "password 'a:b' makes the export unloadable; password 'secret ' no longer verifies after reload")
        else:
            rep.hold(R, site(cls + ".set_hash"), "htdigest hashes are hex digests produced by the htdigest handler (no free-text scheme)")
    # encoding forwarded?
    from pv.handlers import HandlerTable
    table = HandlerTable(model)
    pt = table.get("plaintext")
    ck = table.const(pt, "context_kwds") if pt is not None else ()
    calls = []
    for q in ("HtpasswdFile.set_password", "HtpasswdFile.check_password"):
        f2 = model.func(AP, q)
        for c in walk_no_nested(f2):
            if isinstance(c, ast.Call) and ast.unparse(c.func) in ("self.context.hash", "self.context.verify_and_update", "self.context.verify"):
                calls.append((q, c))
    if len(calls) < 2:
        rep.undecided(R, site("HtpasswdFile"), "context calls not found")
    missing = [(q, c) for q, c in calls if not any(k.arg == "encoding" for k in c.keywords)]
    if isinstance(ck, tuple) and "encoding" in ck and missing:
        q, c = missing[0]
        rep.violation(R, site("HtpasswdFile") + " encoding", f"{ast.unparse(c)}  # no encoding=self.encoding, but `plaintext` takes an `encoding` context keyword",
                      "passwords are handed to the context as bytes in the file encoding, but the plaintext scheme decodes bytes as UTF-8 unless it is told the encoding",
                      witness="HtpasswdFile.from_string(b'alice:caf\\xe9\\n', encoding='latin-1').check_password('alice', 'caf\\xe9') raises UnicodeDecodeError instead of answering True")
    else:
        rep.hold(R, site("HtpasswdFile") + " encoding", "file encoding forwarded to the context (or no scheme needs it)")


def rule_h(model, rep):
    """the password reaches the context in the same form when it is set and when it is checked"""
    R = "C16.i-password-form"
    for cls in ("HtpasswdFile", "HtdigestFile"):
        sp, cp = model.func(AP, cls + ".set_password"), model.func(AP, cls + ".check_password")

        def prep(fn):
            out = []
            for x in walk_no_nested(fn):
                if isinstance(x, ast.Assign) and any(ast.unparse(t) == "password" for t in x.targets) and not isinstance(x.value, ast.Name):
                    par = model.unit(AP).parent(x)
                    cond = ast.unparse(par.test) if isinstance(par, ast.If) else ""
                    if "_UNSET" in cond:
                        continue
                    out.append(f"[{cond}] {ast.unparse(x)}")
            enc = [ast.unparse(k.value) for c in walk_no_nested(fn) if isinstance(c, ast.Call) for k in c.keywords if k.arg == "encoding"]
            return out, enc
        a, b = prep(sp), prep(cp)
        rep.check(a == b, R, site(cls + ".set_password") + " ~ check_password", f"set_password prepares {a}; check_password prepares {b}",
                  "a text password is converted to bytes (file encoding) the same way before it is hashed and before it is verified",
                  witness=f"{cls}(encoding='latin-1'): set_password('u', 'p\xe4ss') then check_password('u', 'p\xe4ss') is False (hashed as UTF-8, verified as latin-1)")


def rule_f(model, rep):
    R = "C16.f-order-preservation"
    fn = model.func(AP, "_CommonFile._load_lines")
    loop = next((n for n in walk_no_nested(fn) if isinstance(n, ast.For)), None)
    if loop is None:
        rep.undecided(R, site("_CommonFile._load_lines"), "line loop not found")
        return
    body = [ast.unparse(s) for s in loop.body]
    txt = "\n".join(body)
    # 1 blank/comment lines accumulate
    rep.check("if not tmp or tmp.startswith(_BHASH):\n    skipped += line\n    continue" in txt, R, site("_CommonFile._load_lines"), "blank/comment -> skipped += line", "comments and blank lines are kept verbatim")
    # 2 a later duplicate of a user neither replaces the first entry nor travels into the output
    dup = next((s for s in loop.body if isinstance(s, ast.If) and ast.unparse(s.test) == "key in records"), None)
    ok = dup is not None and isinstance(dup.body[-1], ast.Continue) and not any(isinstance(x, ast.Assign) and ast.unparse(x.targets[0]).startswith("records[") for x in ast.walk(dup))
    rep.check(ok, R, site("_CommonFile._load_lines"), ast.unparse(dup)[:100] if dup else "<none>", "a later duplicate of a user does not replace the first entry (Apache uses the first)",
              witness="a file listing a user twice loads the second hash")
    carried = dup is not None and any(isinstance(x, ast.AugAssign) and ast.unparse(x.target) == "skipped" for x in ast.walk(dup))
    rep.check(not carried, R, site("_CommonFile._load_lines") + " duplicate line", "skipped += line  # in the `key in records` branch",
              "a duplicate line is dropped, not kept as skipped text: kept text is written out again, so the user would appear twice in every export",
              witness="HtpasswdFile.from_string(b'u:A\nu:OLD\n'): delete('u') then to_string() still contains 'u:OLD' -- the deleted user is back, with the old hash, after reload")
    # 3 pending skipped text is flushed before the record
    idx_flush = next((i for i, s in enumerate(loop.body) if isinstance(s, ast.If) and ast.unparse(s.test) == "skipped" and "source.append((_SKIPPED, skipped))" in qtext(s)), None)
    idx_rec = next((i for i, s in enumerate(loop.body) if ast.unparse(s) == "source.append((_RECORD, key))"), None)
    idx_store = next((i for i, s in enumerate(loop.body) if ast.unparse(s) == "records[key] = value"), None)
    rep.check(None not in (idx_flush, idx_rec, idx_store) and idx_flush < idx_rec, R, site("_CommonFile._load_lines"), f"flush@{idx_flush} record@{idx_rec}",
              "skipped text preceding a record is appended to the source list before that record",
              witness="comments move below the record they preceded when the file is saved")
    if idx_flush is not None:
        rep.check("skipped = b''" in qtext(loop.body[idx_flush]), R, site("_CommonFile._load_lines"), "skipped = b''", "flushed text is reset")
    # 4 trailing skipped text appended last; state published at the end
    after = [ast.unparse(s) for s in fn.body[fn.body.index(loop) + 1:]]
    tk = next((s_ for s_ in fn.body[fn.body.index(loop) + 1:] if isinstance(s_, ast.If) and ast.unparse(s_.test) == "skipped.rstrip()"), None)
    rep.check(tk is not None and any(ast.unparse(x) == "source.append((_SKIPPED, skipped))" for x in tk.body), R, site("_CommonFile._load_lines"), "trailing skipped", "trailing comments are kept")
    # 4b the trailing chunk (the only one that can lack a final newline: last line of the file) is newline-terminated,
    #    otherwise a record appended later is written onto the comment's line
    tail_if = next((s for s in fn.body[fn.body.index(loop) + 1:] if isinstance(s, ast.If) and ast.unparse(s.test) == "skipped.rstrip()"), None)
    terminated = tail_if is not None and any(isinstance(x, ast.If) and "endswith" in ast.unparse(x.test) and any(isinstance(y, ast.AugAssign) and ast.unparse(y.target) == "skipped" for y in x.body)
                                             for x in tail_if.body)
    terminated = terminated or any(isinstance(x, ast.If) and "endswith" in ast.unparse(x.test) and any(isinstance(y, (ast.AugAssign, ast.Assign)) and "line" in ast.unparse(y) for y in x.body) for x in loop.body)
    rep.check(terminated, R, site("_CommonFile._load_lines") + " trailing text", "source.append((_SKIPPED, skipped))  # last chunk may lack its newline",
              "kept text always ends with a newline, so that a record appended after it starts on a line of its own",
              witness="HtpasswdFile.from_string(b'u1:A\n# note') ; set_hash('u2','B') ; to_string() == b'u1:A\n# noteu2:B\n' -- u2 is swallowed by the comment and gone after reload")
    rep.check(after[-2:] == ["self._records = records", "self._source = source"], R, site("_CommonFile._load_lines"), " | ".join(after[-2:]),
              "the new table and source list are installed together, after the whole input parsed",
              witness="a malformed line in the middle of a reload leaves half of the new content loaded")
    rep.check("key, value = parse(line, idx + 1)" in txt, R, site("_CommonFile._load_lines"), "parse(line, idx + 1)", "records parsed with 1-based line numbers for errors")


def rule_gh(model, rep):
    R = "C16.g-htdigest-shims"
    for q, last in (("HtdigestFile.set_password", "password"), ("HtdigestFile.set_hash", "hash"), ("HtdigestFile.check_password", "password")):
        fn = model.func(AP, q)
        first = next((s for s in fn.body if not (isinstance(s, ast.Expr) and isinstance(s.value, ast.Constant))), None)
        want = f"if {last} is _UNSET:\n    realm, {last} = (None, realm)"
        rep.check(first is not None and ast.unparse(first) == want, R, site(q), ast.unparse(first)[:90] if first else "<none>",
                  f"two-argument call form: `{last}` taken from the realm position, realm defaulted",
                  witness=f"{q.split('.')[-1]}(user, value) treats the value as a realm")
        txt = qtext(fn)
        rep.check("self._require_realm(realm)" in txt or "self._encode_realm(realm)" in txt or "self._encode_key(user, realm)" in txt, R, site(q),
                  "realm resolved through _require_realm/_encode_realm", "the default realm is applied")
        a = fn.args
        dflt = {ar.arg: ast.unparse(d) for ar, d in zip(a.args[-len(a.defaults):], a.defaults)}
        rep.check(dflt.get(last) == "_UNSET" and dflt.get("realm") == "None", R, site(q), str(dflt), "signature (user, realm=None, <value>=_UNSET)")
    fn = model.func(AP, "HtdigestFile._require_realm")
    txt = qtext(fn)
    rep.check(txt.loose("realm = self.default_realm") and txt.loose("raise TypeError"), R, site("HtdigestFile._require_realm"), "default_realm or TypeError", "missing realm falls back to default_realm, else TypeError")
    R2 = "C16.h-realm-filters"
    fn = model.func(AP, "HtdigestFile.users")
    rets = [ast.unparse(n.value) for n in ast.walk(fn) if isinstance(n, ast.Return)]
    rep.check(rets == ["[self._decode_field(key[0]) for key in self._records if key[1] == realm]"], R2, site("HtdigestFile.users"), "; ".join(rets),
              "users(realm) lists key[0] of records whose key[1] is the encoded realm", witness="users() of one realm lists users of other realms")
    rep.check("realm = self._encode_realm(realm)" in qtext(fn), R2, site("HtdigestFile.users"), "realm encoded", "the filter compares encoded values")
    fn = model.func(AP, "HtdigestFile.delete_realm")
    txt = qtext(fn)
    rep.check("keys = [key for key in records if key[1] == realm]" in txt and "for key in keys:\n        del records[key]" in txt and "return len(keys)" in txt, R2,
              site("HtdigestFile.delete_realm"), "collect keys with key[1]==realm, delete, count", "delete_realm removes exactly the records of that realm",
              witness="delete_realm removes users whose *name* equals the realm, or users of other realms")
    fn = model.func(AP, "HtdigestFile.realms")
    rep.check("set((key[1] for key in self._records))" in qtext(fn), R2, site("HtdigestFile.realms"), "set(key[1] ...)", "realms() collects key[1]")
    fn = model.func(AP, "HtpasswdFile.users")
    rets = [ast.unparse(n.value) for n in ast.walk(fn) if isinstance(n, ast.Return)]
    rep.check(rets == ["[self._decode_field(user) for user in self._records]"], R2, site("HtpasswdFile.users"), "; ".join(rets), "users() lists every key")
    for q in ("HtpasswdFile.delete", "HtdigestFile.delete"):
        fn = model.func(AP, q)
        txt = qtext(fn)
        rep.check("except KeyError:\n        return False" in txt and txt.rstrip().endswith("return True"), R2, site(q), "KeyError -> False; else True", "delete reports whether the user existed")
    fn = model.func(AP, "HtpasswdFile.get_hash")
    rep.check("return self._records[self._encode_user(user)]" in qtext(fn) and "except KeyError:\n        return None" in qtext(fn), R2,
              site("HtpasswdFile.get_hash"), "lookup by encoded user; None when missing", "get_hash validates the name and answers None for unknown users")


from . import c01 as _c01  # noqa: E402
from .shared import Renamed as _Renamed  # noqa: E402


def rule_digest_encoding(model, rep, R16):
    """htdigest's digest is md5(user:realm:password) over the bytes of the requested encoding: each text field is converted with the `encoding` argument"""
    DG = "passlib.handlers.digests"
    fn = model.func(DG, "htdigest.hash")
    conv = {}
    for n in walk_no_nested(fn):
        if isinstance(n, ast.Call) and ast.unparse(n.func) == "to_bytes" and n.args and isinstance(n.args[0], ast.Name):
            conv[n.args[0].id] = ast.unparse(n.args[1]) if len(n.args) > 1 else next((ast.unparse(k.value) for k in n.keywords if k.arg == "encoding"), "<default>")
        if isinstance(n, ast.Call) and isinstance(n.func, ast.Attribute) and n.func.attr == "encode" and isinstance(n.func.value, ast.Name):
            conv[n.func.value.id] = ast.unparse(n.args[0]) if n.args else "<default>"
    for fld in ("secret", "user", "realm"):
        rep.check(conv.get(fld) == "encoding", R16, f"{DG}:htdigest.hash {fld}", f"{fld} converted with {conv.get(fld)!r}", f"`{fld}` is converted to bytes with the `encoding` argument",
                  witness=f"HtdigestFile(encoding='latin-1').set_password('user', 'r\u00e9alm', 'pw') stores a digest that check_password() rejects (and that differs from md5 of the latin-1 bytes): `{fld}` was encoded with another codec")


def run(model, rep):
    rep.explanation = __doc__
    rep.assumptions = ["dict preserves insertion order and `del` removes exactly one key (language semantics)"]
    rule_a(model, rep)
    rule_b(model, rep)
    rule_c(model, rep)
    rule_d(model, rep)
    rule_e(model, rep)
    rule_f(model, rep)
    rule_gh(model, rep)
    rule_h(model, rep)
    rule_j(model, rep)
    rule_k(model, rep)
    # check_password() answers through handler.verify(): verify() must recompute with what hash() was given (user, realm, encoding)
    # the digest is md5(user:realm:password) over the bytes of the *file's* encoding: each of the three text fields is converted with the
    # `encoding` argument (which HtdigestFile passes), never with a fixed or default one
    rule_digest_encoding(model, rep, "C16.m-digest-encoding")
    rule_records_bytes(model, rep)
    from .shared import handler_site_filter
    from pv.handlers import HandlerTable
    only, used = handler_site_filter(model, HandlerTable(model), ("passlib.apache",), extra_names=("htdigest",))
    rep.extra["apache_handlers"] = used
    _c01.rule_d(model, _Renamed(rep, {"C01.d": "C16.l-hash-verify-wiring"}, "C16.x-", only=only))
    rep.minimum("C16.l-hash-verify-wiring", 10)


def rule_records_bytes(model, rep):
    """records hold the hash as bytes in the file's encoding (that is what a reload yields, and what the renderer can write for every
    character): a text hash coming back from the context is encoded with `self.encoding` before it is stored"""
    R = "C16.e-parse-render"
    n = 0
    unit = model.unit(AP)
    for q, fn in unit.functions():
        if not q.startswith(("HtpasswdFile.", "HtdigestFile.")):
            continue
        for st in walk_no_nested(fn):
            stored = None
            if isinstance(st, ast.Assign) and isinstance(st.targets[0], ast.Subscript) and ast.unparse(st.targets[0].value) == "self._records" and isinstance(st.value, ast.Name):
                stored = st.value.id
            if isinstance(st, ast.Call) and ast.unparse(st.func) == "self._set_record" and st.args and isinstance(st.args[-1], ast.Name):
                stored = st.args[-1].id
            if stored is None:
                continue
            n += 1
            pos = (st.lineno, st.col_offset)
            enc = [a for a in walk_no_nested(fn) if isinstance(a, ast.Assign) and ast.unparse(a.targets[0]) == stored and ast.unparse(a.value) == f"{stored}.encode(self.encoding)"
                   and (a.lineno, a.col_offset) < pos]
            rep.check(bool(enc), R, site(q) + " stored hash", f"{ast.unparse(st)[:70]}  # `{stored}` " + ("encoded with self.encoding" if enc else "stored as the context returned it (str)"),
                      "a hash is brought to bytes in the file's encoding before it is stored in a record",
                      witness="utf-8 file, default scheme plaintext, apr_md5_crypt deprecated: check_password('bob', '\\u043f\\u0430\\u0440\\u043e\\u043b\\u044c') upgrades the entry, stores a str, and the autosave "
                              "raises UnicodeEncodeError('latin-1') after truncating the file to the entries before bob")
    if n < 3:
        rep.undecided(R, "<instance-count>", f"only {n} record stores found in HtpasswdFile / HtdigestFile, expected at least 3")
