"""C08 -- malformed or altered hash strings are rejected cleanly and never verify.

Decided: from hostile input, no exception other than the documented ValueError/TypeError families
can escape through the constructs modelled (content asserts, unguarded constant indexing, unguarded
table lookups) on any parser path of any registered hasher or libpass inspector; a str|bytes hash
is normalised before any text operation; base64 decoders map lookup failures to ValueError; verify
compares the whole stored digest; identify() of the generic handler swallows only ValueError from the
parser.  Not decided: that an altered digest differs after recomputation (cryptographic)."""
from __future__ import annotations

import ast

from pv.q import text as qtext
from pv.model import AnalysisError, walk_no_nested, params, UNKNOWN
from pv.handlers import HandlerTable
from pv.taint import Taint
from pv import types as T

UH = "passlib.utils.handlers"
ROOT_METHODS = ("identify", "verify", "needs_update", "from_string", "genhash", "parsehash", "normhash", "enable", "disable", "parse")
HASH_PARAMS = ("hash", "config")


def site(u, f):
    return f"{u}:{f}"


def _roots(model):
    table = HandlerTable(model)
    roots = []
    seen = set()
    for h in table:
        if h.kind == "wrapper":
            continue
        for m in ROOT_METHODS:
            owner, fn = model.method(h.cref, m, required=False)
            if fn is None:
                continue
            tp = [p for p in params(fn) if p in HASH_PARAMS]
            if not tp:
                continue
            key = (owner, m, h.cref if m in ("from_string", "identify", "verify", "needs_update") else None)
            if key in seen:
                continue
            seen.add(key)
            roots.append((h.name, owner[0], fn, h.cref, tp))
        # helpers reached only through getattr()-style dynamic dispatch (scrypt._parse_<ident>_string) or hooks
        for k in model.mro(h.cref):
            if k[0] in model.units and k[1] in model.units[k[0]].classes and k[0].startswith("passlib.handlers"):
                for mname, node in model.class_members(k).items():
                    if isinstance(node, ast.FunctionDef) and (mname.startswith("_parse_") or mname in ("_norm_hash",)):
                        ps = [p for p in params(node) if p not in ("self", "cls")]
                        if ps and (k, mname) not in seen:
                            seen.add((k, mname))
                            roots.append((h.name, k[0], node, h.cref, ps[:1]))
        o2, mixmap = model.lookup(h.cref, "_backend_mixin_map")
        if isinstance(mixmap, ast.Dict):
            for v in mixmap.values:
                r = model.resolve(model.unit(o2[0]), v)
                if r and r[0] == "class":
                    for m in ("verify", "genhash", "hash"):
                        mem = model.class_members((r[1], r[2]))
                        fn = mem.get(m)
                        if isinstance(fn, ast.FunctionDef):
                            tp = [p for p in params(fn) if p in HASH_PARAMS]
                            if tp:
                                roots.append((f"{h.name}[{r[2]}]", r[1], fn, (r[1], r[2]), tp))
    # PrefixWrapper methods
    for m in ("identify", "verify", "needs_update", "genhash", "_unwrap_hash", "_wrap_hash"):
        fn = model.func(UH, "PrefixWrapper." + m)
        tp = [p for p in params(fn) if p in HASH_PARAMS]
        roots.append(("PrefixWrapper", UH, fn, (UH, "PrefixWrapper"), tp))
    # libpass inspectors and hashers
    for un in ("libpass.inspect.bcrypt", "libpass.inspect.pbkdf2", "libpass.inspect.sha_crypt", "libpass.inspect.phc._phc"):
        unit = model.unit(un)
        for fname, fn in unit.funcs.items():
            if fname.startswith("inspect_"):
                roots.append((fname, un, fn, None, ["hash"]))
    for un in ("libpass.hashers.bcrypt", "libpass.hashers.pbkdf2", "libpass.hashers.sha_crypt", "libpass.hashers.argon2"):
        unit = model.unit(un)
        for cn in unit.classes:
            for m in ("verify", "identify", "needs_update"):
                mem = model.class_members((un, cn))
                fn = mem.get(m)
                if isinstance(fn, ast.FunctionDef):
                    roots.append((cn, un, fn, (un, cn), ["hash"]))
    return roots


def rule_a(model, rep):
    R = "C08.a-exception-escape"
    roots = _roots(model)
    tn = Taint(model)
    for name, un, fn, cref, tp in roots:
        before = len(tn.findings)
        tn.analyze(un, fn, cref, set(tp))
        if len(tn.findings) == before:
            rep.hold(R, site(un, model.unit(un).qualname(fn)) + f"<{name}>", "no assert / unguarded index / unguarded lookup reachable from the hash string")
    seen = set()
    for f in tn.findings:
        key = (f.unit, f.qual, f.construct, f.kind)
        if key in seen:
            continue
        seen.add(key)
        if (f.unit, f.qual, f.kind) in TRIAGED:
            rep.hold(R, site(f.unit, f.qual), f"triaged: {TRIAGED[(f.unit, f.qual, f.kind)]}")
            continue
        rep.violation(R, site(f.unit, f.qual), f"{f.kind}: {f.construct}", f.msg + (f" (reached via {' -> '.join(f.chain)})" if f.chain else ""),
                      witness="identify()/verify()/needs_update() of a hostile or truncated hash string raises IndexError / KeyError / AssertionError "
                              "instead of answering or raising ValueError")
    rep.extra["taint_functions"] = sorted(tn.visited)
    rep.extra["taint_roots"] = len(roots)
    rep.minimum(R, 100)


#: findings of the taint engine on today's tree that were read and found harmless, one reason each
TRIAGED = {}


# ----------------------------------------------------------------------------- C08.b
def rule_b(model, rep):
    R = "C08.b-hash-normalised"
    W = "PrefixWrapper."
    for m, p in (("verify", "hash"), ("identify", "hash"), ("needs_update", "hash"), ("genhash", "config")):
        fn = model.func(UH, W + m)
        # the statement calling _unwrap_hash must be preceded (same or enclosing block) by a normaliser of the same name
        unit = model.unit(UH)
        calls = [n for n in walk_no_nested(fn) if isinstance(n, ast.Call) and ast.unparse(n.func) == "self._unwrap_hash"]
        if len(calls) != 1:
            rep.undecided(R, site(UH, W + m), "_unwrap_hash call not found")
            continue
        ok = False
        node = calls[0]
        while node is not fn and node is not None:
            par = unit.parent(node)
            for fld in ("body", "orelse"):
                blk = getattr(par, fld, None)
                if isinstance(blk, list) and node in blk:
                    for prev in blk[: blk.index(node)]:
                        t = qtext(prev)
                        if t.startswith(f"{p} = to_unicode({p}") or t.startswith(f"{p} = to_unicode_for_identify({p}") or \
                                t.startswith(f"{p} = to_native_str({p}"):
                            ok = True
            node = par
        rep.check(ok, R, site(UH, W + m), ast.unparse(calls[0]), f"`{p}` is normalised to text before the prefix is stripped",
                  witness=f"PrefixWrapper.{m}(b'{{CRYPT}}$1$...') raises TypeError (bytes.startswith(str))")
    # type flow with hash = str|bytes over every parser root: text operations on a possibly-bytes hash
    an = T.Analyzer(model)
    roots = _roots(model)
    for name, un, fn, cref, tp in roots:
        if un.startswith("libpass.") or un == UH and fn.name in ("_unwrap_hash", "_wrap_hash"):
            continue
        if fn.name.startswith("_parse_") or fn.name == "_norm_hash":
            continue  # helpers behind a normalising entry point (their callers pass text); roots for the taint rule only
        before = len(an.findings)
        an.analyze(un, fn, cref, {p: T.EITHER for p in tp})
        new = [f for f in an.findings[before:]]
        if not new:
            rep.hold(R, site(un, model.unit(un).qualname(fn)) + f"<{name}>", "hash is normalised before text operations")
    seen = set()
    for f in an.findings:
        if f.kind == "str-reaches-bytes-sink":
            continue  # secret-side findings belong to C01
        key = (f.unit, f.qual, f.construct, f.kind)
        if key in seen:
            continue
        seen.add(key)
        rep.violation(R, site(f.unit, f.qual), f"{f.kind}: {f.construct}", f.msg + (f" (via {' -> '.join(f.chain)})" if f.chain else ""),
                      witness="a bytes hash raises TypeError/AttributeError instead of being parsed or rejected with ValueError")
    rep.minimum(R, 60)


# ----------------------------------------------------------------------------- C08.c
def rule_c(model, rep):
    R = "C08.c-decoder-errors"
    B = "passlib.utils.binary"
    unit = model.unit(B)
    n = 0
    for q, fn in unit.functions():
        if not q.startswith("Base64Engine."):
            continue
        aliases = {ast.unparse(a.targets[0]) for a in walk_no_nested(fn) if isinstance(a, ast.Assign) and ast.unparse(a.value) == "self._decode64" and isinstance(a.targets[0], ast.Name)}
        # lookups through the decode map: subscript `<something>[...]` where base name is decode64/_decode64/dmap
        for node in walk_no_nested(fn):
            if isinstance(node, ast.Subscript) and isinstance(node.ctx, ast.Load) and not isinstance(node.slice, ast.Slice):
                b = ast.unparse(node.value)
                if b in ("self._decode64", "decode64", "dmap", "_decode64"):
                    n += 1
                    t = unit.enclosing(node, ast.Try)
                    ok = False
                    while t is not None:
                        if any(h.type is not None and "KeyError" in qtext(h.type) and
                               any(isinstance(x, ast.Raise) and "ValueError" in qtext(x) for x in h.body) for h in t.handlers):
                            ok = True
                        t = unit.enclosing(t, ast.Try)
                    # map(next_value) style handled below
                    rep.check(ok, R, site(B, q), ast.unparse(node), "decode-map lookup is inside try/except KeyError -> ValueError",
                              witness="decoding a string with a character outside the alphabet raises KeyError")
            # direct calls: `_decode64` is the decode table's __getitem__, so calling it raises KeyError just the same
            if isinstance(node, ast.Call) and (ast.unparse(node.func) == "self._decode64" or
                                               (isinstance(node.func, ast.Name) and node.func.id in aliases)):
                n += 1
                t = unit.enclosing(node, ast.Try)
                ok = False
                while t is not None:
                    if any(h.type is not None and qtext(h.type).loose("KeyError") and
                           any(isinstance(x, ast.Raise) and qtext(x).loose("ValueError") for x in h.body) for h in t.handlers):
                        ok = True
                    t = unit.enclosing(t, ast.Try)
                rep.check(ok, R, site(B, q), ast.unparse(node), "decode-table call is inside try/except KeyError -> ValueError",
                          witness="a byte outside the alphabet raises KeyError instead of ValueError (e.g. h64.check_repair_unused(b'ab!'))")
            if isinstance(node, ast.Call) and ast.unparse(node.func) in ("map",) and node.args and ast.unparse(node.args[0]) in (
                    "self._decode64", "decode64"):
                n += 1
                t = unit.enclosing(node, ast.Try)
                ok = False
                while t is not None:
                    if any(h.type is not None and "KeyError" in qtext(h.type) and
                           any(isinstance(x, ast.Raise) and "ValueError" in qtext(x) for x in h.body) for h in t.handlers):
                        ok = True
                    t = unit.enclosing(t, ast.Try)
                if not ok:
                    # the generator is consumed by a callee inside a try in the same function
                    ok = any(isinstance(t2, ast.Try) and any(h.type is not None and "KeyError" in qtext(h.type) for h in t2.handlers)
                             for t2 in walk_no_nested(fn))
                rep.check(ok, R, site(B, q), ast.unparse(node)[:80], "lazy decode-map lookups are consumed under except KeyError -> ValueError",
                          witness="decoding a string with a character outside the alphabet raises KeyError")
    rep.minimum(R, 4)
    # wrong length -> ValueError in decode_bytes
    fn = model.func(B, "Base64Engine.decode_bytes")
    txt = qtext(fn)
    ok = txt.loose("tail == 1") and txt.loose("ValueError")
    rep.check(ok, R, site(B, "Base64Engine.decode_bytes"), "tail == 1 -> ValueError", "a length of 1 mod 4 is refused with ValueError",
              witness="truncated encodings decode to garbage instead of being refused")
    for f in ("b64s_decode", "ab64_decode"):
        fn = model.func(B, f)
        txt = qtext(fn)
        ok = txt.loose("except _BinAsciiError") or txt.loose("except (_BinAsciiError") or txt.loose("ValueError")
        rep.check(ok, R, site(B, f), "binascii error mapped", f"{f} maps decoding errors to a value/type error")
    # GenericHandler.identify: parse-to-identify swallows exactly ValueError
    fn = model.func(UH, "GenericHandler.identify")
    tries = [n for n in walk_no_nested(fn) if isinstance(n, ast.Try)]
    ok = len(tries) == 1 and len(tries[0].handlers) == 1 and ast.unparse(tries[0].handlers[0].type) == "ValueError" and \
        [ast.unparse(x) for x in tries[0].handlers[0].body] == ["return False"]
    rep.check(ok, R, site(UH, "GenericHandler.identify"), ast.unparse(tries[0].handlers[0]) if tries else "<none>",
              "identify() by parsing answers False for exactly the documented ValueError family")
    fn = model.func(UH, "to_unicode_for_identify")
    txt = qtext(fn)
    rep.check(txt.loose("except UnicodeDecodeError") and txt.loose("decode('latin-1')"), R, site(UH, "to_unicode_for_identify"), "latin-1 fallback",
              "identify() never fails on non-UTF-8 bytes")


# ----------------------------------------------------------------------------- C08.d
def rule_f(model, rep):
    """passlib.exc builds several of its errors through factory *functions* (MalformedHashError(...) returns a ValueError);
    `raise exc.MalformedHashError` without the call raises TypeError('exceptions must derive from BaseException')"""
    R = "C08.f-raise-factory"
    ex = model.unit("passlib.exc")
    factories = set(ex.funcs)
    n = 0
    for un, unit in model.units.items():
        if not un.startswith(("passlib.", "libpass.")):
            continue
        for q, fn in unit.functions():
            for r in walk_no_nested(fn):
                if not isinstance(r, ast.Raise) or r.exc is None:
                    continue
                e = r.exc
                target = e.func if isinstance(e, ast.Call) else e
                name = target.attr if isinstance(target, ast.Attribute) else (target.id if isinstance(target, ast.Name) else None)
                if name not in factories:
                    continue
                # is it really passlib.exc's function?
                base = ast.unparse(target)
                if not (base.endswith("exc." + name) or model.dotted(unit, target) == "passlib.exc." + name or (isinstance(target, ast.Name) and unit.imports.get(name, (None, None))[0] == "passlib.exc")):
                    continue
                n += 1
                rep.check(isinstance(e, ast.Call), R, site(un, q), f"raise {ast.unparse(e)}  # a factory function, not an exception class: must be called",
                          f"`{name}` is a function that builds the exception; it is raised as `{name}(...)`",
                          witness=f"the malformed input reaching this line raises TypeError('exceptions must derive from BaseException') instead of ValueError "
                                  f"(e.g. scrypt.verify('pw', '$7$C6..../....ab$cd$' + 'x'*43))")
    if n < 40:
        rep.undecided(R, "<instance-count>", f"only {n} raises of passlib.exc factories found, expected at least 40")


def rule_d(model, rep):
    R = "C08.d-whole-digest"
    # settings parsed from a *full* hash are validated strictly; only config strings (no digest) may be clipped / truncated
    RS = "C08.d-strict-settings"
    ns = 0
    for un, unit in model.units.items():
        if not un.startswith("passlib."):
            continue
        for q, f0 in unit.functions():
            short = q.split(".")[-1]
            if short not in ("_parse_salt", "_parse_rounds", "_parse_ident", "_parse_checksum"):
                continue
            for c in walk_no_nested(f0):
                if isinstance(c, ast.Call) and isinstance(c.func, ast.Attribute) and c.func.attr.startswith("_norm_"):
                    rel = next((k.value for k in c.keywords if k.arg == "relaxed"), None)
                    ns += 1
                    ok = rel is None or ast.unparse(rel) == "self.checksum is None"
                    rep.check(ok, RS, site(un, q), ast.unparse(c), "a setting parsed from a hash string is normalised strictly unless the string carries no digest (config string)",
                              witness="a full hash whose salt was lengthened (or whose rounds lie outside the limits) is silently repaired while parsing and still verifies: "
                                      "an altered hash string is accepted instead of refused")
    if ns < 4:
        rep.undecided(RS, "<instance-count>", f"only {ns} parse-time normaliser calls found, expected at least 4")
    # _norm_checksum: size and charset enforced
    fn = model.func(UH, "GenericHandler._norm_checksum")
    txt = qtext(fn)
    ok = txt.loose("if cc and len(checksum) != cc:") and txt.loose("ChecksumSizeError")
    rep.check(ok, R, site(UH, "GenericHandler._norm_checksum"), "if cc and len(checksum) != cc: raise ChecksumSizeError",
              "a stored digest of the wrong length is refused when parsed", witness="a truncated digest is accepted and compared")
    ok = "any((c not in cs for c in checksum))" in txt
    rep.check(ok, R, site(UH, "GenericHandler._norm_checksum"), "any(c not in cs for c in checksum)", "digest characters outside the alphabet are refused")
    # constructor runs checksum through _norm_checksum
    fn = model.func(UH, "GenericHandler.__init__")
    ok = "self.checksum = self._norm_checksum(checksum)" in qtext(fn)
    rep.check(ok, R, site(UH, "GenericHandler.__init__"), "self.checksum = self._norm_checksum(checksum)", "every parsed digest is validated")
    # verify compares whole checksum (no slicing) except mssql2000 (documented half compare)
    for un, unit in model.units.items():
        if not un.startswith("passlib."):
            continue
        for q, fn in unit.functions():
            if q.split(".")[-1] != "verify" or unit.enclosing_class(fn) is None:
                continue
            for n in walk_no_nested(fn):
                if isinstance(n, ast.Call) and ast.unparse(n.func) in ("consteq", "uh.consteq") and len(n.args) == 2:
                    sliced = [a for a in n.args if isinstance(a, ast.Subscript) and isinstance(a.slice, ast.Slice)]
                    if q == "mssql2000.verify":
                        ok = len(sliced) == 1 and ast.unparse(sliced[0]) == "chk[20:]"
                        rep.check(ok, R, site(un, q), ast.unparse(n), "mssql2000 compares the upper-case half (bytes 20..39) by design")
                    else:
                        rep.check(not sliced, R, site(un, q), ast.unparse(n), "the whole stored digest is compared",
                                  witness="altering the un-compared part of the digest still verifies")
    # consteq: length mismatch -> False, compares all positions
    fn = model.func("passlib.utils", "consteq", required=False)
    u = model.unit("passlib.utils")
    if fn is None:
        v = u.assigns.get("consteq")
        r = u.imports.get("consteq")
        ok = (r is not None and r == ("hmac", "compare_digest")) or (v and "compare_digest" in qtext(v[-1]))
        rep.check(bool(ok), R, site("passlib.utils", "consteq"), str(r or (ast.unparse(v[-1]) if v else None)), "consteq is hmac.compare_digest")
    else:
        txt = qtext(fn)
        rep.check(txt.loose("compare_digest") or (txt.loose("result |=") or txt.loose("result |")), R, site("passlib.utils", "consteq"), "constant-time compare",
                  "consteq compares every position")
    rep.minimum(R, 8)


def run(model, rep):
    rep.explanation = __doc__
    rep.assumptions = ["values returned by library calls are not tainted sequences", "ValueError subclasses (UnicodeError, binascii.Error) count as documented errors",
                       "tuple-unpacking arity errors raise ValueError (documented family)"]
    rule_a(model, rep)
    rule_b(model, rep)
    rule_c(model, rep)
    rule_d(model, rep)
    rule_f(model, rep)
    from . import shared
    shared.falsy_zero_lint(model, rep, "C08.e-zero-is-a-value", lambda un: un.startswith(("passlib.handlers", "passlib.utils.handlers")),
                           lambda un, q: q.split(".")[-1] in ("__init__", "from_string", "parse") or q.split(".")[-1].startswith(("_parse", "_norm")),
                           witness="a stored hash whose numeric setting was altered to 0 is parsed as if the field were absent: it takes the class default and verifies")
    rep.minimum("C08.e-zero-is-a-value", 5)
