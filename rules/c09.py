"""C09 -- using() gives a hasher that honours its settings; the original is untouched.

Decided: every using() (all definitions in the tree) creates a fresh subclass, writes only to it,
stores only sanitised values, validates against the values it has just set (no stale reads of the
parent), stores attributes that the hash-making path actually reads; the clamp helpers have the
strict-raises / relaxed-clamps shape for both bounds; generated rounds are drawn inside the clipped
window and overrides of the generator stay inside it; wrappers write through only to a subclass they
created.  Not decided: the numeric behaviour over all option combinations."""
from __future__ import annotations

import ast

from pv.q import text as qtext, has_stmt, has_if, find_if
from pv.model import AnalysisError, walk_no_nested, params, UNKNOWN
from pv.norm import single_defs

UH = "passlib.utils.handlers"
SKIP = {("passlib.context", "CryptContext.using"), ("passlib.ifc", "PasswordHash.using"), ("passlib.totp", "TOTP.using"),
        (UH, "PrefixWrapper.using"), (UH, "MinimalHandler.using")}
SANITISER_PREFIXES = ("_norm_", "_clip_")
SANITISER_FUNCS = {"norm_integer", "uh.norm_integer", "as_bool", "norm_param"}


def site(u, f):
    return f"{u}:{f}"


def _using_defs(model):
    out = []
    for un, unit in model.units.items():
        for q, fn in unit.functions():
            if q.split(".")[-1] == "using" and unit.enclosing_class(fn) is not None and (un, q) not in SKIP:
                out.append((un, q, fn))
    return out


def _attr_stores(fn):
    for n in walk_no_nested(fn):
        tgts = []
        if isinstance(n, ast.Assign):
            tgts = n.targets
        elif isinstance(n, (ast.AugAssign, ast.AnnAssign)):
            tgts = [n.target]
        for t in tgts:
            for tt in (t.elts if isinstance(t, (ast.Tuple, ast.List)) else [t]):
                if isinstance(tt, ast.Attribute):
                    yield n, tt
        if isinstance(n, ast.Call) and isinstance(n.func, ast.Name) and n.func.id == "setattr" and len(n.args) >= 2:
            yield n, n.args[0]


def rule_ab(model, rep):
    RA, RB = "C09.a-fresh-subclass", "C09.b-write-target"
    fn = model.func(UH, "MinimalHandler.using")
    rets = [n for n in walk_no_nested(fn) if isinstance(n, ast.Return)]
    ok = len(rets) == 1 and isinstance(rets[0].value, ast.Call) and ast.unparse(rets[0].value.func) == "type" and \
        len(rets[0].value.args) == 3 and ast.unparse(rets[0].value.args[1]) == "(cls,)"
    rep.check(ok, RA, site(UH, "MinimalHandler.using"), ast.unparse(rets[0])[:100] if rets else "<none>",
              "base using() returns a brand-new subclass type(name, (cls,), {...})",
              witness="using() returns (and later mutates) the original hasher: passlib.hash.<x> changes behaviour for every user")
    if ok:
        d = rets[0].value.args[2]
        rep.check("_configured=True" in qtext(d), RA, site(UH, "MinimalHandler.using"), ast.unparse(d), "the subclass is flagged _configured")
    rep.check(not list(_attr_stores(fn)), RB, site(UH, "MinimalHandler.using"), "no attribute stores", "base using() stores nothing on cls")
    for un, q, fn in _using_defs(model):
        s = site(un, q)
        # subcls = super().using(...)
        creates = [n for n in walk_no_nested(fn) if isinstance(n, ast.Assign) and isinstance(n.targets[0], ast.Name)
                   and n.targets[0].id == "subcls"]
        ok = len(creates) == 1 and isinstance(creates[0].value, ast.Call) and ast.unparse(creates[0].value.func) == "super().using"
        rep.check(ok, RA, s, "; ".join(ast.unparse(c)[:80] for c in creates) or "<none>", "subcls comes from super().using(...) exactly once",
                  witness="options are written onto an object that is not a fresh subclass")
        rets = [n for n in walk_no_nested(fn) if isinstance(n, ast.Return)]
        ok = bool(rets) and all(isinstance(r.value, ast.Name) and r.value.id == "subcls" for r in rets)
        rep.check(ok, RA, s, "; ".join(ast.unparse(r) for r in rets), "every return hands back the new subclass",
                  witness="using() returns the parent (settings silently ignored) on some path")
        # kwds forwarded
        if ok and creates:
            c = creates[0].value
            fw = any(k.arg is None and ast.unparse(k.value) == "kwds" for k in c.keywords)
            has_kwds = fn.args.kwarg is not None
            rep.check(fw or not has_kwds, RA, s, ast.unparse(c), "remaining keywords are forwarded to the next using() in the MRO",
                      witness="options handled by other mixins (rounds, salt_size, relaxed ...) are dropped")
        for node, tgt in _attr_stores(fn):
            base = ast.unparse(tgt.value) if isinstance(tgt, ast.Attribute) else ast.unparse(tgt)
            rep.check(base == "subcls", RB, s, ast.unparse(node)[:120], "attribute stores inside using() target the new subclass only",
                      witness="customising a hasher changes the hasher it was derived from (and the global in passlib.hash)")
    rep.minimum(RA, 30)
    rep.minimum(RB, 15)


def _stored_attrs(model):
    """attributes any using() stores on subcls"""
    out = set()
    for un, q, fn in _using_defs(model):
        for node, tgt in _attr_stores(fn):
            if isinstance(tgt, ast.Attribute) and ast.unparse(tgt.value) == "subcls":
                out.add(tgt.attr)
    return out


def rule_c(model, rep):
    R = "C09.c-stale-receiver"
    stored = _stored_attrs(model)
    for un, q, fn in _using_defs(model):
        unit = model.unit(un)
        s = site(un, q)
        create_idx = None
        for i, st in enumerate(fn.body):
            if isinstance(st, ast.Assign) and ast.unparse(st.targets[0]) == "subcls":
                create_idx = i
        if create_idx is None:
            continue
        found = False
        for st in fn.body[create_idx + 1:]:
            for n in ast.walk(st):
                if isinstance(n, ast.Attribute) and isinstance(n.ctx, ast.Load) and isinstance(n.value, ast.Name) and n.value.id == "cls" \
                        and n.attr in stored:
                    par = unit.parent(n)
                    if isinstance(par, ast.Call) and par.func is n:
                        continue  # method call, not a data read
                    # inherit-default idiom:  if P is None: ... P = cls.A   (and subcls.A stored only in the else branch)
                    asg = par if isinstance(par, ast.Assign) else None
                    inherit = False
                    if asg is not None and isinstance(asg.targets[0], ast.Name):
                        iff = unit.parent(asg)
                        if isinstance(iff, ast.If) and asg in iff.body and ast.unparse(iff.test) == f"{asg.targets[0].id} is None":
                            store_in_if = any(isinstance(t, ast.Attribute) and t.attr == n.attr for x in iff.body for _, t in _attr_stores_block(x))
                            inherit = not store_in_if
                    found = True
                    rep.check(inherit, R, s, f"cls.{n.attr}  # in `{ast.unparse(unit.enclosing(n, ast.stmt) or n)[:90]}`",
                              f"after subcls exists, `cls.{n.attr}` is the parent's (stale) value although using() may have stored subcls.{n.attr}",
                              witness="an invalid combination of new settings is accepted (or a valid one refused) because validation looks at the parent's values")
        if not found:
            rep.hold(R, s, "no data read through cls after the subclass exists")
    rep.minimum(R, 12)


def _attr_stores_block(st):
    for n in ast.walk(st):
        if isinstance(n, ast.Assign):
            for t in n.targets:
                if isinstance(t, ast.Attribute):
                    yield n, t


def rule_d(model, rep):
    R = "C09.d-sanitised-store"
    for un, q, fn in _using_defs(model):
        unit = model.unit(un)
        s = site(un, q)
        for node, tgt in _attr_stores(fn):
            if not isinstance(node, ast.Assign) or not isinstance(tgt, ast.Attribute):
                continue
            v = node.value
            ok, why = _sanitised(unit, fn, node, v)
            rep.check(ok, R, s, ast.unparse(node)[:140], why,
                      witness=f"using({tgt.attr}=<out-of-range or wrong-typed value>) is stored unchecked and yields hashes outside the format's limits")
    rep.minimum(R, 16)


def _sanitised(unit, fn, node, v):
    if isinstance(v, ast.Call):
        name = ast.unparse(v.func)
        short = name.split(".")[-1]
        if short.startswith(SANITISER_PREFIXES) or name in SANITISER_FUNCS:
            return True, f"value passes through {name}()"
        if name == "staticmethod" and v.args and isinstance(v.args[0], ast.Lambda):
            body = v.args[0].body
            if isinstance(body, ast.Name):
                # the captured name must have been assigned from a sanitiser
                for n in walk_no_nested(fn):
                    if isinstance(n, ast.Assign) and isinstance(n.targets[0], ast.Name) and n.targets[0].id == body.id \
                            and isinstance(n.value, ast.Call) and ast.unparse(n.value.func).split(".")[-1].startswith(SANITISER_PREFIXES):
                        return True, f"fixed value `{body.id}` was normalised by {ast.unparse(n.value.func)}()"
            return False, "fixed generator value is not normalised"
        if name == "staticmethod":
            return True, "callable hook"
        if name == "AppWallet":
            return True, "constructed object"
    if isinstance(v, ast.Attribute) and isinstance(v.value, ast.Call) and ast.unparse(v.value.func) == "cls":
        return True, "value normalised by constructing a throw-away instance (runs _norm_ident)"
    if isinstance(v, ast.Name):
        # dominated by a raising guard mentioning the name, or assigned from a sanitiser
        for n in walk_no_nested(fn):
            if isinstance(n, ast.Assign) and isinstance(n.targets[0], ast.Name) and n.targets[0].id == v.id and isinstance(n.value, ast.Call):
                nm = ast.unparse(n.value.func)
                if nm.split(".")[-1].startswith(SANITISER_PREFIXES) or nm in SANITISER_FUNCS:
                    return True, f"`{v.id}` assigned from {nm}()"
            if isinstance(n, ast.If) and any(isinstance(x, ast.Raise) for x in ast.walk(n)) and \
                    any(isinstance(x, ast.Name) and x.id == v.id for x in ast.walk(n.test)) and n.lineno < node.lineno:
                return True, f"`{v.id}` is checked by a raising guard `{ast.unparse(n.test)[:60]}` before the store"
        return False, f"`{v.id}` stored without normalisation or a validating guard"
    if isinstance(v, ast.Constant):
        return True, "constant"
    return False, "stored value is not recognisably sanitised"


def rule_e(model, rep):
    R = "C09.e-clamp-shape"
    for un, q, var, lo, hi in ((UH, "norm_integer", "value", "min", "max"),
                               (UH, "HasSalt._clip_to_valid_salt_size", "salt_size", "mn", "mx")):
        fn = model.func(un, q)
        s = site(un, q)
        for bound, op, label in ((lo, ast.Lt, "below-min"), (hi, ast.Gt, "above-max")):
            blocks = []
            for n in walk_no_nested(fn):
                if isinstance(n, ast.If):
                    for c in ast.walk(n.test):
                        if isinstance(c, ast.Compare) and len(c.ops) == 1 and isinstance(c.ops[0], op) and ast.unparse(c.left) == var \
                                and ast.unparse(c.comparators[0]) == bound:
                            blocks.append(n)
            if len(blocks) != 1:
                rep.violation(R, s, f"{label}: {len(blocks)} guards `{var} {'<' if op is ast.Lt else '>'} {bound}`", f"exactly one {label} guard expected",
                              witness="values outside the hard limit are accepted unchanged")
                continue
            b = blocks[0]
            inner = [n for n in ast.walk(b) if isinstance(n, ast.If) and ast.unparse(n.test) == "relaxed"]
            ok = len(inner) == 1
            if ok:
                rel, strict = inner[0].body, inner[0].orelse
                ok_rel = any(isinstance(x, ast.Assign) and ast.unparse(x) == f"{var} = {bound}" for x in rel)
                ok_strict = any(isinstance(x, ast.Raise) and qtext(x).loose("ValueError") for x in strict)
                rep.check(ok_rel, R, s, f"{label}: relaxed branch", f"relaxed=True clamps to the limit (`{var} = {bound}`)",
                          witness="relaxed=True keeps an out-of-range value (hash outside the format's limits)")
                rep.check(ok_strict, R, s, f"{label}: strict branch", "relaxed=False raises ValueError",
                          witness="an out-of-range setting is silently accepted")
            elif not any(isinstance(x, ast.Raise) for x in ast.walk(b)):
                rep.violation(R, s, f"{label}: branch `{ast.unparse(b.test)}` contains no raise",
                              "relaxed=False must raise ValueError for an out-of-range value", witness="an out-of-range setting is silently clamped / accepted in strict mode")
            else:
                rep.undecided(R, s, f"{label}: relaxed/strict split not recognised")
        rets = [n for n in fn.body if isinstance(n, ast.Return)]
        rep.check(bool(rets) and ast.unparse(rets[-1].value) == var, R, s, ast.unparse(rets[-1]) if rets else "<none>", "the (possibly clamped) value is returned")
    # _norm_rounds passes the class's hard limits
    fn = model.func(UH, "HasRounds._norm_rounds")
    rets = [ast.unparse(n.value) for n in walk_no_nested(fn) if isinstance(n, ast.Return)]
    rep.check(rets == ["norm_integer(cls, rounds, cls.min_rounds, cls.max_rounds, param=param, relaxed=relaxed)"], R, site(UH, "HasRounds._norm_rounds"),
              "; ".join(rets), "rounds are validated against (min_rounds, max_rounds) in that order",
              witness="rounds above max_rounds accepted / min and max swapped")
    # _norm_salt size checks
    fn = model.func(UH, "HasSalt._norm_salt")
    txt = qtext(fn)
    rep.check("if mn and len(salt) < mn:" in txt and "if mx and len(salt) > mx:" in txt, R, site(UH, "HasSalt._norm_salt"), "len(salt) < mn / > mx",
              "salt length is checked against both limits")
    rep.check("salt = cls._truncate_salt(salt, mx)" in txt, R, site(UH, "HasSalt._norm_salt"), "relaxed: truncate to mx", "relaxed=True truncates an over-long salt to the maximum")
    rep.check("any((c not in sc for c in salt))" in txt, R, site(UH, "HasSalt._norm_salt"), "charset check", "salt characters are validated")
    # _clip_to_desired_rounds
    fn = model.func(UH, "HasRounds._clip_to_desired_rounds")
    body = [ast.unparse(x) for x in fn.body if not (isinstance(x, ast.Expr) and isinstance(x.value, ast.Constant))]
    want = ["mnd = cls.min_desired_rounds or 0", "if rounds < mnd:\n    return mnd", "mxd = cls.max_desired_rounds",
            "if mxd is not None and rounds > mxd:\n    return mxd", "return rounds"]
    rep.check(body == want, R, site(UH, "HasRounds._clip_to_desired_rounds"), " | ".join(body), "clip(r) = max(min_desired, min(max_desired, r))",
              witness="the default cost is not clipped into the configured window")


def rule_f(model, rep):
    R = "C09.f-wrapper-ownership"
    fn = model.func(UH, "PrefixWrapper.__setattr__")
    iffs = [n for n in walk_no_nested(fn) if isinstance(n, ast.If)]
    ok = bool(iffs) and ast.unparse(iffs[0].test) == "attr in self._proxy_attrs and self._derived_from"
    rep.check(ok, R, site(UH, "PrefixWrapper.__setattr__"), ast.unparse(iffs[0].test) if iffs else "<none>",
              "attribute writes are forwarded to the wrapped class only when this wrapper owns it (created by using())",
              witness="setting passlib.hash.ldap_md5_crypt.default_salt_size rewrites passlib.hash.md5_crypt")
    rets = [n for n in fn.body if isinstance(n, ast.Return)]
    rep.check(bool(rets) and ast.unparse(rets[-1].value) == "object.__setattr__(self, attr, value)", R, site(UH, "PrefixWrapper.__setattr__"),
              ast.unparse(rets[-1]) if rets else "<none>", "otherwise the write stays on the wrapper")
    fn = model.func(UH, "PrefixWrapper.using")
    body = [ast.unparse(x) for x in fn.body]
    ok = "subcls = self.wrapped.using(**kwds)" in body and any(b.startswith("wrapper = PrefixWrapper(self.name, subcls,") for b in body) \
        and "wrapper._derived_from = self" in body and body[-1] == "return wrapper"
    rep.check(ok, R, site(UH, "PrefixWrapper.using"), " | ".join(body), "using() wraps a NEW subclass of the wrapped hasher in a NEW wrapper",
              witness="customising an ldap_/django_ wrapper customises the shared inner hasher")
    ok = any("prefix=self.prefix, orig_prefix=self.orig_prefix" in b for b in body)
    rep.check(ok, R, site(UH, "PrefixWrapper.using"), "prefix=self.prefix, orig_prefix=self.orig_prefix", "the derived wrapper keeps both prefixes")
    d = model.class_const((UH, "PrefixWrapper"), "_derived_from")
    rep.check(d is None, R, site(UH, "PrefixWrapper._derived_from"), repr(d), "wrappers that were not created by using() own nothing")


def rule_chain(model, rep):
    """a window made of an inherited maximum and an explicit minimum must be checked like one made of two explicit values"""
    R = "C09.g-rounds-window"
    fn = model.func(UH, "HasRounds.using")
    inh = find_if(fn, "max_desired_rounds is None")
    if not inh:
        rep.undecided(R, site(UH, "HasRounds.using") + " inherited max", "branch for an inherited maximum not found")
        return
    body_txt = " ".join(ast.unparse(x) for x in inh[-1].body)
    compares = "min_desired_rounds" in body_txt and ("<" in body_txt or ">" in body_txt)
    if compares:
        rep.hold(R, site(UH, "HasRounds.using") + " inherited max", "an inherited maximum is compared with the new minimum")
    else:
        rep.violation(R, site(UH, "HasRounds.using") + " inherited max", "max_desired_rounds = cls.max_desired_rounds  # never compared with an explicit min_desired_rounds",
                      "the `max below min` check runs only when the maximum is passed explicitly; an inherited maximum is taken as is",
                      witness="pbkdf2_sha256.using(max_rounds=10).using(min_rounds=20) has min=20, max=10, default=20: every fresh hash is flagged by its own needs_update() "
                              "(the same two settings in one call raise ValueError)")


def rule_zero_max(model, rep):
    """0 is a legal cost (sun_md5_crypt has min_rounds = 0), so an upper limit of 0 is a limit: `if max and rounds > max` treats it as unset"""
    R = "C09.i-zero-is-a-value"
    n = 0
    for q in ("HasRounds._clip_to_desired_rounds", "HasRounds._calc_needs_update", "HasRounds.using", "HasRounds._calc_vary_rounds_range"):
        fn = model.func(UH, q)
        alias = {"max_desired_rounds", "default_rounds"}
        for a in walk_no_nested(fn):
            if isinstance(a, ast.Assign) and isinstance(a.targets[0], ast.Name) and ast.unparse(a.value) in ("cls.max_desired_rounds", "self.max_desired_rounds"):
                alias.add(a.targets[0].id)
        for node in walk_no_nested(fn):
            tests = []
            if isinstance(node, ast.BoolOp) and isinstance(node.op, ast.And):
                tests = [v for v in node.values[:-1]]
            elif isinstance(node, ast.Assert):
                tests = [node.test]
            for v in tests:
                nm = v.id if isinstance(v, ast.Name) else (v.attr if isinstance(v, ast.Attribute) else None)
                if nm in alias and nm != "default_rounds" or (nm == "default_rounds" and isinstance(node, ast.Assert)):
                    n += 1
                    rep.violation(R, site(UH, q), f"{ast.unparse(node)[:70]}  # truthiness of `{nm}`",
                                  f"`{nm}` is tested by truthiness although 0 is a legal cost for formats whose min_rounds is 0 (sun_md5_crypt)",
                                  witness="sun_md5_crypt.using(max_rounds=0).hash('pw') carries rounds=34000 and needs_update('$md5,rounds=7$...') is False; "
                                          "CryptContext(['sun_md5_crypt'], sun_md5_crypt__rounds=0, vary_rounds=0.1).hash() raises AssertionError")
    if not n:
        rep.hold(R, site(UH, "HasRounds"), "upper limit and default are compared with `is not None`")


def rule_falsy_option(model, rep):
    """using(): an option is `given` when it is not None.  A truthiness test around the statements that store / pin the option drops
    the legal falsy values (cisco_type7's salt 0, a cost of 0, an empty ident list ...) without a word"""
    R = "C09.i-zero-is-a-value"
    n = 0
    for un, unit in model.units.items():
        if not un.startswith(("passlib.", "libpass.")):
            continue
        for q, fn in unit.functions():
            if q.split(".")[-1] != "using":
                continue
            ps = {a.arg for a in fn.args.args + fn.args.kwonlyargs} - {"cls", "self"}
            for node in walk_no_nested(fn):
                if not isinstance(node, ast.If):
                    continue
                t = node.test
                kind = p = None
                if isinstance(t, ast.Name) and t.id in ps:
                    kind, p, region = "truthy", t.id, node.body
                elif isinstance(t, ast.UnaryOp) and isinstance(t.op, ast.Not) and isinstance(t.operand, ast.Name) and t.operand.id in ps:
                    kind, p, region = "truthy", t.operand.id, node.orelse
                elif isinstance(t, ast.Compare) and isinstance(t.left, ast.Name) and t.left.id in ps and len(t.ops) == 1 and ast.unparse(t.comparators[0]) == "None":
                    kind, p = "none", t.left.id
                    region = node.body if isinstance(t.ops[0], ast.IsNot) else node.orelse
                if kind is None:
                    continue
                # does the guarded region store / pin the option?
                stores = False
                for st in region:
                    for x in ast.walk(st):
                        if isinstance(x, ast.Assign) and any(isinstance(tg, ast.Attribute) for tg in x.targets) and any(isinstance(y, ast.Name) and y.id == p for y in ast.walk(x.value)):
                            stores = True
                        if isinstance(x, ast.Assign) and any(isinstance(tg, ast.Name) and tg.id == p for tg in x.targets) and isinstance(x.value, ast.Call) and "_norm_" in ast.unparse(x.value.func):
                            stores = True
                if not stores:
                    continue
                n += 1
                rep.check(kind == "none", R, site(un, q) + f" {p}", f"if {ast.unparse(t)}:  # guards the statements that store `{p}`",
                          f"the option `{p}` is stored whenever it was given (`is not None`), whatever its value",
                          witness="cisco_type7.using(salt=0).hash('password') starts with a random offset instead of '00': the legal value 0 is treated as not given")
    if n < 8:
        rep.undecided(R, "<instance-count>", f"only {n} guarded option stores found in using() methods, expected at least 8")


def rule_single_exit(model, rep):
    """using() derives the class, stores the options one after the other and finishes with cross-option validation; an early `return` skips
    whatever follows it (the scrypt n/r/p combination check, re-clipping of the default against new limits, ...)"""
    R = "C09.j-no-early-return"
    n = 0
    for un, unit in model.units.items():
        if not un.startswith(("passlib.", "libpass.")):
            continue
        for q, fn in unit.functions():
            if q.split(".")[-1] != "using" or unit.enclosing_class(fn) is None:
                continue
            rets = [r for r in walk_no_nested(fn) if isinstance(r, ast.Return)]
            if not rets:
                continue
            n += 1
            early = [r for r in rets if r is not fn.body[-1]]
            rep.check(not early, R, site(un, q), "; ".join(f"line {r.lineno}: {ast.unparse(r)}" for r in early) or "single return, last statement",
                      "using() leaves only through its final return, after every option has been stored and validated",
                      witness="scrypt.using(block_size=1, default_rounds=8).using(default_rounds=16) is accepted although n >= 2**(16*r): the early return skipped the parameter-combination check; the derived hasher cannot hash")
    if n < 15:
        rep.undecided(R, "<instance-count>", f"only {n} using() methods with a return found, expected at least 15")
    # the cross-option validation itself is unconditional: whichever of the options a call sets (or none -- a chain inherits the rest),
    # the combination the derived class ends up with is checked
    SC = "passlib.handlers.scrypt"
    fn = model.func(SC, "scrypt.using")
    unit = model.unit(SC)
    vals = [c for c in walk_no_nested(fn) if isinstance(c, ast.Call) and ast.unparse(c.func).endswith("validate")]
    if len(vals) != 1:
        rep.violation(R, site(SC, "scrypt.using") + " combination check", f"{len(vals)} calls of _scrypt.validate", "the derived n / r / p combination is validated once",
                      witness="scrypt.using(block_size=1, rounds=8).using(rounds=20) is accepted; the derived hasher cannot hash")
    else:
        cond = unit.enclosing(vals[0], ast.If)
        args = [ast.unparse(a) for a in vals[0].args]
        ok = cond is None and args == ["1 << subcls.default_rounds", "subcls.block_size", "subcls.parallelism"]
        rep.check(ok, R, site(SC, "scrypt.using") + " combination check", f"_scrypt.validate({', '.join(args)})" + (f" under `if {ast.unparse(cond.test)}`" if cond is not None else ""),
                  "the n / r / p combination of the derived class is validated on every call of using(), whatever options it sets",
                  witness="scrypt.using(block_size=1, rounds=8).using(rounds=20) and scrypt.using(parallelism=2**27+1) are accepted: the check only runs when block_size is given")


def rule_gh(model, rep):
    R = "C09.g-rounds-window"
    fn = model.func(UH, "HasRounds._generate_rounds")
    txt = qtext(fn)
    ok = "lower, upper = cls._calc_vary_rounds_range(rounds)" in txt and "rounds = rng.randint(lower, upper)" in txt
    rep.check(ok, R, site(UH, "HasRounds._generate_rounds"), "rng.randint(lower, upper) from _calc_vary_rounds_range", "varied rounds are drawn between the computed bounds",
              witness="vary_rounds produces costs outside the configured window")
    rep.check("rounds = cls.default_rounds" in txt, R, site(UH, "HasRounds._generate_rounds"), "rounds = cls.default_rounds", "generation starts from the (clipped) default")
    fn = model.func(UH, "HasRounds._calc_vary_rounds_range")
    rets = [ast.unparse(n.value) for n in walk_no_nested(fn) if isinstance(n, ast.Return)]
    clipped = {e for e in ("lower", "upper") if f"cls._clip_to_desired_rounds({e})" in qtext(fn)}
    rep.check(clipped == {"lower", "upper"}, R, site(UH, "HasRounds._calc_vary_rounds_range"),
              "; ".join(rets), "both ends of the variation range are clipped to the desired window",
              witness="default_rounds=max with vary_rounds>0 yields hashes above max_rounds (flagged for update at once)")
    # the desired window may be unset (then _clip_to_desired_rounds only enforces >= 0): the range must also respect the format's own limits
    hard_lo = has_stmt(fn, "lower = max(lower, cls.min_rounds)") or has_stmt(fn, "lower = max(cls.min_rounds, lower)")
    hard_hi = any(isinstance(n, ast.If) and "cls.max_rounds" in ast.unparse(n.test) and any(ast.unparse(x) in ("upper = min(upper, cls.max_rounds)", "upper = min(cls.max_rounds, upper)") for x in n.body) for n in walk_no_nested(fn))
    rep.check(hard_lo and hard_hi, R, site(UH, "HasRounds._calc_vary_rounds_range") + " hard limits", "; ".join(rets) + ("" if hard_lo else "  # lower end not raised to cls.min_rounds") + ("" if hard_hi else "  # upper end not capped at cls.max_rounds"),
              "the variation range is also clamped to the format's hard min_rounds / max_rounds",
              witness="sha256_crypt.using(default_rounds=1000, vary_rounds=0.1).hash('pw') raises ValueError('rounds (9xx) is too low, must be at least 1000') on about half of the calls; bcrypt.using(default_rounds=31, vary_rounds=1.0) draws from (0, 32)")
    rep.check("lower = linear_to_native(default_rounds - vary_rounds, False)" in qtext(fn) and
              "upper = linear_to_native(default_rounds + vary_rounds, True)" in qtext(fn), R, site(UH, "HasRounds._calc_vary_rounds_range"),
              "default -/+ vary", "range is default_rounds -/+ vary_rounds")
    # using(): default clipped to new limits after all three are set
    fn = model.func(UH, "HasRounds.using")
    txt = qtext(fn)
    rep.check("subcls.default_rounds = subcls._clip_to_desired_rounds(subcls.default_rounds)" in txt, R, site(UH, "HasRounds.using"),
              "subcls.default_rounds = subcls._clip_to_desired_rounds(subcls.default_rounds)", "the default cost is re-clipped into the new window",
              witness="min_rounds raised above the inherited default: new hashes are made below the minimum and flagged at once")
    # order: clip statement comes after the stores of min/max/default
    idx = {k: None for k in ("min", "max", "default", "clip")}
    for i, st in enumerate(fn.body):
        t = qtext(st)
        if "subcls.min_desired_rounds = " in t:
            idx["min"] = i
        if "subcls.max_desired_rounds = " in t:
            idx["max"] = i
        if "subcls.default_rounds = subcls._norm_rounds(" in t:
            idx["default"] = i
        if "subcls.default_rounds = subcls._clip_to_desired_rounds(" in t:
            idx["clip"] = i
    ok = None not in idx.values() and idx["clip"] > max(idx["min"], idx["max"], idx["default"])
    rep.check(ok, R, site(UH, "HasRounds.using"), str(idx), "clipping happens after min, max and default have been stored")
    rep.check("min_desired_rounds = rounds" in txt and "max_desired_rounds = rounds" in txt and "default_rounds = rounds" in txt, R, site(UH, "HasRounds.using"),
              "rounds= alias", "`rounds=` fills min, max and default")
    # overrides of _generate_rounds that alter super's value must stay in the window
    for un, unit in model.units.items():
        for cn in unit.classes:
            mem = model.class_members((un, cn))
            g = mem.get("_generate_rounds")
            if isinstance(g, ast.FunctionDef) and (un, cn) != (UH, "HasRounds"):
                s = site(un, f"{cn}._generate_rounds")
                rets = [n for n in walk_no_nested(g) if isinstance(n, ast.Return)]
                sup = any(isinstance(n, ast.Call) and ast.unparse(n.func) == "super()._generate_rounds" for n in ast.walk(g))
                modifies = any(isinstance(r.value, ast.BinOp) for r in rets) or any(isinstance(n, ast.AugAssign) for n in walk_no_nested(g))
                if sup and modifies:
                    t = qtext(g)
                    guarded = (t.loose("max_desired_rounds") or t.loose("max_rounds") or t.loose("_clip_to_desired_rounds"))
                    rep.check(guarded, R, s, "; ".join(ast.unparse(r) for r in rets),
                              "a generator that alters the value from super()._generate_rounds() must keep it inside the configured window",
                              witness="max_rounds=5000 (even): a fresh bsdi_crypt hash has 5001 rounds and needs_update() is True on every login")
                else:
                    rep.hold(R, s, "override does not alter the generated value")
    # constructor paths store rounds only through _parse_rounds / _generate_rounds
    fn = model.func(UH, "HasRounds.__init__")
    txt = qtext(fn)
    rep.check("rounds = self._parse_rounds(rounds)" in txt and "rounds = self._generate_rounds()" in txt and "self.rounds = rounds" in txt, R,
              site(UH, "HasRounds.__init__"), "parse or generate", "instance rounds come from _parse_rounds (explicit) or _generate_rounds (default)")
    fn = model.func(UH, "HasSalt.__init__")
    txt = qtext(fn)
    rep.check("salt = self._parse_salt(salt)" in txt and "salt = self._generate_salt()" in txt and "self.salt = salt" in txt, R,
              site(UH, "HasSalt.__init__"), "parse or generate", "instance salt comes from _parse_salt (explicit) or _generate_salt (default)")
    fn = model.func(UH, "HasManyIdents.__init__")
    txt = qtext(fn)
    rep.check("ident = self.default_ident" in txt and "ident = self._norm_ident(ident)" in txt, R, site(UH, "HasManyIdents.__init__"), "default_ident",
              "default ident is read from the attribute using() stores")
    # H: every attribute stored by a using() is read on some hash-making path
    R2 = "C09.h-stored-is-read"
    loads = set()
    for un, unit in model.units.items():
        for n in ast.walk(unit.tree):
            if isinstance(n, ast.Attribute) and isinstance(n.ctx, ast.Load) and (
                    (isinstance(n.value, ast.Name) and n.value.id in ("self", "cls", "subcls", "handler", "wrapped", "mixin_cls")) or
                    ast.unparse(n.value) in ("type(self)",)):
                fnn = unit.enclosing_func(n)
                if fnn is not None and getattr(fnn, "name", "") == "using":
                    continue
                loads.add(n.attr)
            if isinstance(n, ast.Call) and isinstance(n.func, ast.Name) and n.func.id == "getattr" and len(n.args) >= 2 and isinstance(n.args[1], ast.Constant):
                loads.add(n.args[1].value)
    for un, q, fn in _using_defs(model):
        for node, tgt in _attr_stores(fn):
            if isinstance(tgt, ast.Attribute) and ast.unparse(tgt.value) == "subcls":
                rep.check(tgt.attr in loads, R2, site(un, q), ast.unparse(tgt), f"`{tgt.attr}` is read through self/cls somewhere outside using()",
                          witness=f"using() stores `{tgt.attr}` but the hash-making path reads another attribute: the setting has no effect")
    rep.minimum(R2, 14)


def run(model, rep):
    rep.explanation = __doc__
    rep.assumptions = ["`subcls` names the object returned by super().using() (checked)", "class attributes are copied on write by Python's type()"]
    rule_ab(model, rep)
    rule_c(model, rep)
    rule_d(model, rep)
    rule_e(model, rep)
    rule_f(model, rep)
    rule_gh(model, rep)
    rule_zero_max(model, rep)
    rule_falsy_option(model, rep)
    rule_single_exit(model, rep)
    rule_type7_salt_range(model, rep)
    from . import c05 as _c05
    from .shared import Renamed as _Renamed
    _c05.rule_a(model, _Renamed(rep, {"C05.a": "C09.k-truncate-error-honoured"}, "C09.x-"))
    rule_chain(model, rep)
    from . import shared, c04
    c04.rule_d(model, shared.Renamed(rep, {"C04.d": "C09.g-generator-inside-window"}))
    shared.falsy_zero_lint(model, rep, "C09.i-zero-is-a-value", lambda un: un.startswith(("passlib.handlers", "passlib.utils.handlers")),
                           lambda un, q: q.split(".")[-1] == "using",
                           witness="using(<option>=0) is silently ignored: the derived hasher keeps the inherited setting")
    rep.minimum("C09.i-zero-is-a-value", 8)
    # boolean options pass through as_bool() before using() stores them: 0 is a value there too
    shared.rule_as_bool(model, rep, "C09.i-zero-is-a-value")


def rule_type7_salt_range(model, rep):
    """cisco_type7's salt is an integer offset into the 53-character key: the accepted range, the clamp of the relaxed mode and the declared
    maximum are one and the same bound (0..52)"""
    R = "C09.l-offset-range"
    H7 = "passlib.handlers.cisco"
    fn = model.func(H7, "cisco_type7._norm_salt")
    unit = model.unit(H7)
    s = site(H7, "cisco_type7._norm_salt")
    # every comparison of `salt` in the function, split into binary relations `salt OP other` (whatever the shape of the test: a chained
    # acceptance test, or a negated rejection test)
    FLIP = {ast.Lt: ast.Gt, ast.Gt: ast.Lt, ast.LtE: ast.GtE, ast.GtE: ast.LtE, ast.Eq: ast.Eq, ast.NotEq: ast.NotEq}
    rels = []
    for c in walk_no_nested(fn):
        if not isinstance(c, ast.Compare):
            continue
        terms = [c.left] + list(c.comparators)
        for l, o, r in zip(terms, c.ops, terms[1:]):
            if isinstance(l, ast.Name) and l.id == "salt":
                rels.append((type(o), ast.unparse(r)))
            elif isinstance(r, ast.Name) and r.id == "salt" and type(o) in FLIP:
                rels.append((FLIP[type(o)], ast.unparse(l)))
    upper = [(o, t) for o, t in rels if t not in ("0", "cls.min_salt_value")]
    lower = [(o, t) for o, t in rels if t in ("0", "cls.min_salt_value")]
    if not upper or not lower:
        rep.undecided(R, s, f"no range test on `salt` found (relations: {[(o.__name__, t) for o, t in rels]})")
        return
    bad_u = [(o.__name__, t) for o, t in upper if t != "cls.max_salt_value" or o not in (ast.LtE, ast.Gt)]
    bad_l = [(o.__name__, t) for o, t in lower if o not in (ast.GtE, ast.Lt)]
    rep.check(not bad_u and not bad_l, R, s, "; ".join(f"salt {o.__name__} {t}" for o, t in rels), "a salt is accepted exactly when 0 <= salt <= cls.max_salt_value (tests may be written as acceptance or as rejection)",
              witness="cisco_type7.using(salt=53) is accepted and produces '53...' strings outside the format's 0..52 range; relaxed=True neither clamps nor warns")
    clamp = [ast.unparse(r.value) for r in walk_no_nested(fn) if isinstance(r, ast.Return) and r.value is not None and ast.unparse(r.value) != "salt"]
    flat = set()
    for t in clamp:
        flat |= {x.strip() for x in t.replace(" if salt < 0 else ", "|").split("|")}
    rep.check(flat == {"0", "cls.max_salt_value"}, R, s + " clamp", "; ".join(clamp), "relaxed mode clamps to the same bounds (0 and cls.max_salt_value)")
    mx = model.fold(unit, ast.Attribute(value=ast.Name(id="cisco_type7", ctx=ast.Load()), attr="max_salt_value", ctx=ast.Load()))
    key = model.fold(unit, ast.Attribute(value=ast.Name(id="cisco_type7", ctx=ast.Load()), attr="_key", ctx=ast.Load()))
    rep.check(isinstance(mx, int) and isinstance(key, str) and mx == len(key) - 1, R, site(H7, "cisco_type7.max_salt_value"), f"max_salt_value={mx!r}, len(_key)={len(key) if isinstance(key, str) else '?'}",
              "the largest offset is the last index of the key table")
