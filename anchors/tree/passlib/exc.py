"""passlib.exc -- exceptions & warnings raised by passlib"""


class UnknownBackendError(ValueError):
    """
    Error raised if multi-backend handler doesn't recognize backend name.
    Inherits from :exc:`ValueError`.

    .. versionadded:: 1.7
    """

    def __init__(self, hasher, backend):
        self.hasher = hasher
        self.backend = backend
        message = f"{hasher.name}: unknown backend: {backend!r}"
        ValueError.__init__(self, message)


# XXX: add a PasslibRuntimeError as base for Missing/Internal/Security runtime errors?


class MissingBackendError(RuntimeError):
    """Error raised if multi-backend handler has no available backends;
    or if specifically requested backend is not available.

    :exc:`!MissingBackendError` derives
    from :exc:`RuntimeError`, since it usually indicates
    lack of an external library or OS feature.
    This is primarily raised by handlers which depend on
    external libraries (which is currently just
    :class:`~passlib.hash.bcrypt`).
    """


class InternalBackendError(RuntimeError):
    """
    Error raised if something unrecoverable goes wrong with backend call;
    such as if ``crypt.crypt()`` returning a malformed hash.

    .. versionadded:: 1.7.3
    """


class PasswordValueError(ValueError):
    """
    Error raised if a password can't be hashed / verified for various reasons.
    This exception derives from the builtin :exc:`!ValueError`.

    May be thrown directly when password violates internal invariants of hasher
    (e.g. some don't support NULL characters).  Hashers may also throw more specific subclasses,
    such as :exc:`!PasswordSizeError`.

    .. versionadded:: 1.7.3
    """


class PasswordSizeError(PasswordValueError):
    """
    Error raised if a password exceeds the maximum size allowed
    by Passlib (by default, 4096 characters); or if password exceeds
    a hash-specific size limitation.

    This exception derives from :exc:`PasswordValueError` (above).

    Many password hash algorithms take proportionately larger amounts of time and/or
    memory depending on the size of the password provided. This could present
    a potential denial of service (DOS) situation if a maliciously large
    password is provided to an application. Because of this, Passlib enforces
    a maximum size limit, but one which should be *much* larger
    than any legitimate password. :exc:`PasswordSizeError` derives
    from :exc:`!ValueError`.

    .. note::
        Applications wishing to use a different limit should set the
        ``PASSLIB_MAX_PASSWORD_SIZE`` environmental variable before
        Passlib is loaded. The value can be any large positive integer.

    .. attribute:: max_size

        indicates the maximum allowed size.

    .. versionadded:: 1.6
    """

    max_size = None

    def __init__(self, max_size, msg=None):
        self.max_size = max_size
        if msg is None:
            msg = "password exceeds maximum allowed size"
        PasswordValueError.__init__(self, msg)

    # this also prevents a glibc crypt segfault issue, detailed here ...
    # http://www.openwall.com/lists/oss-security/2011/11/15/1


class PasswordTruncateError(PasswordSizeError):
    """
    Error raised if password would be truncated by hash.
    This derives from :exc:`PasswordSizeError` (above).

    Hashers such as :class:`~passlib.hash.bcrypt` can be configured to raises
    this error by setting ``truncate_error=True``.

    .. attribute:: max_size

        indicates the maximum allowed size.

    .. versionadded:: 1.7
    """

    def __init__(self, cls, msg=None):
        if msg is None:
            msg = "Password too long (%s truncates to %d characters)" % (
                cls.name,
                cls.truncate_size,
            )
        PasswordSizeError.__init__(self, cls.truncate_size, msg)


class PasslibSecurityError(RuntimeError):
    """
    Error raised if critical security issue is detected
    (e.g. an attempt is made to use a vulnerable version of a bcrypt backend).

    .. versionadded:: 1.6.3
    """


class TokenError(ValueError):
    """
    Base error raised by v:mod:`passlib.totp` when
    a token can't be parsed / isn't valid / etc.
    Derives from :exc:`!ValueError`.

    Usually one of the more specific subclasses below will be raised:

    * :class:`MalformedTokenError` -- invalid chars, too few digits
    * :class:`InvalidTokenError` -- no match found
    * :class:`UsedTokenError` -- match found, but token already used

    .. versionadded:: 1.7
    """

    #: default message to use if none provided -- subclasses may fill this in
    _default_message = "Token not acceptable"

    def __init__(self, msg=None, *args, **kwds):
        if msg is None:
            msg = self._default_message
        ValueError.__init__(self, msg, *args, **kwds)


class MalformedTokenError(TokenError):
    """
    Error raised by :mod:`passlib.totp` when a token isn't formatted correctly
    (contains invalid characters, wrong number of digits, etc)
    """

    _default_message = "Unrecognized token"


class InvalidTokenError(TokenError):
    """
    Error raised by :mod:`passlib.totp` when a token is formatted correctly,
    but doesn't match any tokens within valid range.
    """

    _default_message = "Token did not match"


class UsedTokenError(TokenError):
    """
    Error raised by :mod:`passlib.totp` if a token is reused.
    Derives from :exc:`TokenError`.

    .. autoattribute:: expire_time

    .. versionadded:: 1.7
    """

    _default_message = "Token has already been used, please wait for another."

    #: optional value indicating when current counter period will end,
    #: and a new token can be generated.
    expire_time = None

    def __init__(self, *args, **kwds):
        self.expire_time = kwds.pop("expire_time", None)
        TokenError.__init__(self, *args, **kwds)


class UnknownHashError(ValueError):
    """
    Error raised by :class:`~passlib.crypto.lookup_hash` if hash name is not recognized.
    This exception derives from :exc:`!ValueError`.

    As of version 1.7.3, this may also be raised if hash algorithm is known,
    but has been disabled due to FIPS mode (message will include phrase "disabled for fips").

    As of version 1.7.4, this may be raised if a :class:`~passlib.context.CryptContext`
    is unable to identify the algorithm used by a password hash.

    .. versionadded:: 1.7

    .. versionchanged: 1.7.3
        added 'message' argument.

    .. versionchanged:: 1.7.4
        altered call signature.
    """

    def __init__(self, message=None, value=None):
        self.value = value
        if message is None:
            message = f"unknown hash algorithm: {value!r}"
        self.message = message
        ValueError.__init__(self, message, value)

    def __str__(self):
        return self.message


class PasslibWarning(UserWarning):
    """base class for Passlib's user warnings,
    derives from the builtin :exc:`UserWarning`.

    .. versionadded:: 1.6
    """


# XXX: there's only one reference to this class, and it will go away in 2.0;
#      so can probably remove this along with this / roll this into PasslibHashWarning.
class PasslibConfigWarning(PasslibWarning):
    """Warning issued when non-fatal issue is found related to the configuration
    of a :class:`~passlib.context.CryptContext` instance.

    This occurs primarily in one of two cases:

    * The CryptContext contains rounds limits which exceed the hard limits
      imposed by the underlying algorithm.
    * An explicit rounds value was provided which exceeds the limits
      imposed by the CryptContext.

    In both of these cases, the code will perform correctly & securely;
    but the warning is issued as a sign the configuration may need updating.

    .. versionadded:: 1.6
    """


class PasslibHashWarning(PasslibWarning):
    """Warning issued when non-fatal issue is found with parameters
    or hash string passed to a passlib hash class.

    This occurs primarily in one of two cases:

    * A rounds value or other setting was explicitly provided which
      exceeded the handler's limits (and has been clamped
      by the :ref:`relaxed<relaxed-keyword>` flag).

    * A malformed hash string was encountered which (while parsable)
      should be re-encoded.

    .. versionadded:: 1.6
    """


class PasslibRuntimeWarning(PasslibWarning):
    """Warning issued when something unexpected happens during runtime.

    The fact that it's a warning instead of an error means Passlib
    was able to correct for the issue, but that it's anomalous enough
    that the developers would love to hear under what conditions it occurred.

    .. versionadded:: 1.6
    """


class PasslibSecurityWarning(PasslibWarning):
    """Special warning issued when Passlib encounters something
    that might affect security.

    .. versionadded:: 1.6
    """


# =============================================================================
# error constructors
#
# note: these functions are used by the hashes in Passlib to raise common
# error messages. They are currently just functions which return ValueError,
# rather than subclasses of ValueError, since the specificity isn't needed
# yet; and who wants to import a bunch of error classes when catching
# ValueError will do?
# =============================================================================


def _get_name(handler):
    return handler.name if handler else "<unnamed>"


# ------------------------------------------------------------------------
# generic helpers
# ------------------------------------------------------------------------
def type_name(value):
    """return pretty-printed string containing name of value's type"""
    cls = value.__class__
    if cls.__module__ and cls.__module__ not in ["__builtin__", "builtins"]:
        return f"{cls.__module__}.{cls.__name__}"
    if value is None:
        return "None"
    return cls.__name__


def ExpectedTypeError(value, expected, param):
    """error message when param was supposed to be one type, but found another"""
    # NOTE: value is never displayed, since it may sometimes be a password.
    name = type_name(value)
    return TypeError(f"{param} must be {expected}, not {name}")


def ExpectedStringError(value, param):
    """error message when param was supposed to be str or bytes"""
    return ExpectedTypeError(value, "str or bytes", param)


# ------------------------------------------------------------------------
# hash/verify parameter errors
# ------------------------------------------------------------------------
def MissingDigestError(handler=None):
    """raised when verify() method gets passed config string instead of hash"""
    name = _get_name(handler)
    return ValueError(f"expected {name} hash, got {name} config string instead")


def NullPasswordError(handler=None):
    """raised by OS crypt() supporting hashes, which forbid NULLs in password"""
    name = _get_name(handler)
    return PasswordValueError(f"{name} does not allow NULL bytes in password")


# ------------------------------------------------------------------------
# errors when parsing hashes
# ------------------------------------------------------------------------
def InvalidHashError(handler=None):
    """error raised if unrecognized hash provided to handler"""
    return ValueError(f"not a valid {_get_name(handler)} hash")


def MalformedHashError(handler=None, reason=None):
    """error raised if recognized-but-malformed hash provided to handler"""
    text = f"malformed {_get_name(handler)} hash"
    if reason:
        text = f"{text} ({reason})"
    return ValueError(text)


def ZeroPaddedRoundsError(handler=None):
    """error raised if hash was recognized but contained zero-padded rounds field"""
    return MalformedHashError(handler, "zero-padded rounds")


# ------------------------------------------------------------------------
# settings / hash component errors
# ------------------------------------------------------------------------
def ChecksumSizeError(handler, raw=False):
    """error raised if hash was recognized, but checksum was wrong size"""
    # TODO: if handler.use_defaults is set, this came from app-provided value,
    # not from parsing a hash string, might want different error msg.
    checksum_size = handler.checksum_size
    unit = "bytes" if raw else "chars"
    reason = "checksum must be exactly %d %s" % (checksum_size, unit)
    return MalformedHashError(handler, reason)


#: global flag, set temporarily by UTs to allow debug_only_repr() to display sensitive values.
ENABLE_DEBUG_ONLY_REPR = False


def debug_only_repr(value, param="hash"):
    """
    helper used to display sensitive data (hashes etc) within error messages.
    currently returns placeholder test UNLESS unittests are running,
    in which case the real value is displayed.

    mainly useful to prevent hashes / secrets from being exposed in production tracebacks;
    while still being visible from test failures.

    NOTE: api subject to change, may formalize this more in the future.
    """
    if ENABLE_DEBUG_ONLY_REPR or value is None or isinstance(value, bool):
        return repr(value)
    return f"<{param} {type(value)} value omitted>"


def CryptBackendError(
    handler,
    config,
    hash,  # *
    source="crypt.crypt()",
):
    """
    helper to generate standard message when ``crypt.crypt()`` returns invalid result.
    takes care of automatically masking contents of config & hash outside of UTs.
    """
    name = _get_name(handler)
    msg = f"{source} returned invalid {name} hash: config={debug_only_repr(config)} hash={debug_only_repr(hash)}"
    raise InternalBackendError(msg)
