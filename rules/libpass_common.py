"""Rules shared by C01 and C20: libpass hashers render with the class they parse with;
variant slots are not bypassed by a literal."""
from __future__ import annotations

import ast

from pv.model import AnalysisError, walk_no_nested, UNKNOWN

LIBPASS_HASHERS = [
    ("libpass.hashers.sha_crypt", "SHA256Hasher"),
    ("libpass.hashers.sha_crypt", "SHA512Hasher"),
    ("libpass.hashers.pbkdf2", "PBKDF2SHA256Handler"),
    ("libpass.hashers.pbkdf2", "PBKDF2SHA512Handler"),
    ("libpass.hashers.bcrypt", "BcryptHasher"),
    ("libpass.hashers.bcrypt", "BcryptSHA256Hasher"),
]


def site(u, f):
    return f"{u}:{f}"


def _resolve_class_expr(model, cref, unit, e):
    """resolve an expression naming an info class, through `self.SLOT` if needed -> class ref or None"""
    if isinstance(e, ast.Attribute) and isinstance(e.value, ast.Name) and e.value.id in ("self", "cls"):
        owner, node = model.lookup(cref, e.attr)
        if node is None or isinstance(node, ast.FunctionDef):
            return None
        ou = model.unit(owner[0])
        r = model.resolve(ou, node)
        return (r[1], r[2]) if r and r[0] == "class" else None
    r = model.resolve(unit, e)
    return (r[1], r[2]) if r and r[0] == "class" else None


def info_classes_used(model, cref, method):
    """info classes a method of concrete hasher `cref` renders with / parses with.
    render: X(...).as_str() ; parse: inspect_*(…, cls=X) / inspect_*(hash, X) / self._inspect -> its body"""
    owner, fn = model.method(cref, method, required=False)
    if fn is None:
        return set(), set()
    unit = model.unit(owner[0])
    render, parse = set(), set()
    for n in walk_no_nested(fn):
        if not isinstance(n, ast.Call):
            continue
        f = n.func
        if isinstance(f, ast.Attribute) and f.attr == "as_str" and isinstance(f.value, ast.Call):
            c = _resolve_class_expr(model, cref, unit, f.value.func)
            if c:
                render.add(c)
        name = ast.unparse(f)
        if name.split(".")[-1].startswith("inspect_"):
            cand = [k.value for k in n.keywords if k.arg in ("cls", "definition")] + list(n.args[1:2])
            for c_ in cand:
                c = _resolve_class_expr(model, cref, unit, c_)
                if c:
                    parse.add(c)
        if name in ("self._inspect", "cls._inspect"):
            r2, p2 = info_classes_used(model, cref, "_inspect")
            parse |= p2
    return render, parse


def rule_render_parse_agreement(model, rep, R):
    for cref in LIBPASS_HASHERS:
        model.cls(*cref)
        render, _ = info_classes_used(model, cref, "hash")
        parse = set()
        for m in ("verify", "identify", "needs_update"):
            _, p = info_classes_used(model, cref, m)
            parse |= p
        s = site(cref[0], cref[1] + ".hash")
        if not render:
            # BcryptHasher returns the library's string; nothing rendered through an info class
            rep.hold(R, s, f"no info class rendered (library string); parses with {sorted(c[1] for c in parse)}")
            continue
        if not parse:
            rep.undecided(R, s, "parse-side info class not found")
            continue
        # bcrypt-sha256 parses the inner bcrypt string it just produced with the bcrypt regex too: restrict to classes
        # that are rendered or used by verify/identify
        ok = render <= parse
        rep.check(ok, R, s, f"renders {sorted(c[1] for c in render)}; verify/identify/needs_update parse {sorted(c[1] for c in parse)}",
                  "hash() must render through the same info class its own verify()/identify() parse with",
                  witness=f"{cref[1]}().verify(h.hash('pw'), 'pw') is False: the hasher emits a string in another format's shape")


def rule_variant_slot_bypass(model, rep, R, packages=("libpass", "passlib")):
    """In a base class whose >=2 subclasses bind a class-level slot to distinct classes/functions, no method of the
    base may name one of those values directly."""
    n = 0
    for un, unit in model.units.items():
        if not un.startswith(packages):
            continue
        for cn in unit.classes:
            base = (un, cn)
            subs = model.subclasses(base)
            if len(subs) < 2:
                continue
            slots = {}
            for sc in subs:
                su = model.unit(sc[0])
                for attr, node in model.class_members(sc).items():
                    if isinstance(node, (ast.Name, ast.Attribute)):
                        r = model.resolve(su, node)
                        if r and r[0] in ("class", "func"):
                            slots.setdefault(attr, {})[sc] = r
                        elif r and r[0] == "ext" and not attr.startswith("__"):
                            slots.setdefault(attr, {})[sc] = r
            for attr, binds in slots.items():
                vals = set(binds.values())
                if len(vals) < 2:
                    continue
                # the base declares the slot (annotation or None default) or simply uses self.<attr>
                uses_slot = any(isinstance(x, ast.Attribute) and x.attr == attr and isinstance(x.value, ast.Name)
                                and x.value.id in ("self", "cls") for x in ast.walk(unit.classes[cn]))
                if not uses_slot and attr not in model.class_members(base) and not _annotated(unit.classes[cn], attr):
                    continue
                n += 1
                bad = []
                for st in unit.classes[cn].body:
                    if not isinstance(st, ast.FunctionDef):
                        continue
                    for x in walk_no_nested(st):
                        if isinstance(x, (ast.Name, ast.Attribute)) and isinstance(getattr(x, "ctx", None), ast.Load):
                            if isinstance(x, ast.Attribute) and isinstance(x.value, ast.Name) and x.value.id in ("self", "cls"):
                                continue
                            r = model.resolve(unit, x)
                            if r in vals and not isinstance(unit.parent(x), ast.Attribute):
                                # annotation positions do not count
                                par = unit.parent(x)
                                if isinstance(par, ast.arg) or _in_annotation(unit, x):
                                    continue
                                bad.append((st.name, ast.unparse(x)))
                s = site(un, cn)
                if bad:
                    for mname, txt in bad:
                        rep.violation(R, site(un, f"{cn}.{mname}"), f"{txt}  # instead of self.{attr}",
                                      f"method of base class names `{txt}` directly although subclasses select it through the slot `{attr}` "
                                      f"({', '.join(sorted(k[1] for k in binds))})",
                                      witness=f"every subclass except the one bound to {txt} behaves as that variant")
                else:
                    rep.hold(R, s, f"slot {attr}: {len(vals)} variants, base methods go through the slot")
    return n


def _annotated(c, attr):
    return any(isinstance(st, ast.AnnAssign) and isinstance(st.target, ast.Name) and st.target.id == attr for st in c.body)


def _in_annotation(unit, x):
    p = unit.parent(x)
    child = x
    while p is not None and not isinstance(p, (ast.stmt,)):
        if isinstance(p, ast.arg):
            return True
        child, p = p, unit.parent(p)
    if isinstance(p, ast.AnnAssign) and p.annotation is child:
        return True
    if isinstance(p, ast.FunctionDef) and p.returns is child:
        return True
    return False
