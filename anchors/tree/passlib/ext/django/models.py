"""passlib.ext.django.models -- monkeypatch django hashing framework"""

from passlib.ext.django.utils import DjangoContextAdapter

# local
__all__ = ["password_context"]


#: adapter instance used to drive most of this
adapter = DjangoContextAdapter()

# the context object which this patches contrib.auth to use for password hashing.
# configuration controlled by ``settings.PASSLIB_CONFIG``.
password_context = adapter.context

#: hook callers should use if context is changed
context_changed = adapter.reset_hashers


# load config & install monkeypatch
adapter.load_model()
