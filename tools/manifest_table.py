"""Per-property claims.  A property appears either in CLAIMED or in NOT_APPLICABLE."""
STATIC_NOTE = ("Trusted base: CPython's ast / re._parser and the pv engine. Import aliases, class hierarchy (C3 MRO) and constants are "
               "resolved statically; a construct the rules cannot recognise is reported as ANALYSIS-ERROR (exit 2), never as a pass or a violation. "
               "Only the structural clauses named in level_claimed.text are decided, not the behaviour over all inputs.")
CLAIMED = {
 "C06": dict(
  text="Decides structural necessary conditions of uniform generation at every site: (a) every random draw in passlib/libpass originates from "
       "passlib.utils.rng (= random.SystemRandom()), an rng parameter, secrets.*, os.urandom or bcrypt.gensalt; (b) getrandbytes/getrandstr split the "
       "drawn integer into non-overlapping digits of the declared radix (mask+1 == radix == 256 / len(charset), bits drawn == 8*count, range == "
       "letters**count, trip count == count); (c) salt/key generators pass the class's declared size and alphabet; (d) entropy->length formulas are "
       "ceil(E/log2 N) with short lengths raised; (e) 'salt' is refused as a context option before any store. Not decided: quality of the OS source, "
       "statistical uniformity of outputs.",
  note=STATIC_NOTE,
  technique="who-may-call + polynomial-normalised radix/mask/shift agreement on the extraction loops + must-precede on context option stores"),
}
NOT_APPLICABLE = {p: "check under construction in this session (will be claimed once its rules are built and validated on the clean tree)"
                  for p in ["C%02d" % i for i in range(1, 21)] if p not in CLAIMED}
NOTES = ("All checks are static: ./check <ID> parses /repo's working tree on every run (81 units), evaluates the property's rules at every site and "
         "writes /verif/evidence/<ID>.json. exit 0 = all obligations hold (KNOWN-FINDING lines allowed), 1 = VIOLATION line(s), 2 = ANALYSIS-ERROR "
         "(anchor vanished / idiom not recognised). known_findings.json lists recorded and fixed defects.")
