from __future__ import annotations

from typing import TYPE_CHECKING

if TYPE_CHECKING:
    from collections.abc import Iterator

B64_CHARS = "./0123456789ABCDEFGHIJKLMNOPQRSTUVWXYZabcdefghijklmnopqrstuvwxyz"


def _encode_bytes_big(next_value, chunks: int, tail: int) -> Iterator[int]:
    """helper used by encode_bytes() to handle big-endian encoding"""
    #
    # output bit layout:
    #
    # first byte:   v1 765432
    #
    # second byte:  v1 10....
    #              +v2 ..7654
    #
    # third byte:   v2 3210..
    #              +v3 ....76
    #
    # fourth byte:  v3 543210
    #
    idx = 0
    while idx < chunks:
        v1 = next_value()
        v2 = next_value()
        v3 = next_value()
        yield v1 >> 2
        yield ((v1 & 0x03) << 4) | (v2 >> 4)
        yield ((v2 & 0x0F) << 2) | (v3 >> 6)
        yield v3 & 0x3F
        idx += 1
    if tail:
        v1 = next_value()
        if tail == 1:
            # note: 4 lsb of last byte are padding
            yield v1 >> 2
            yield (v1 & 0x03) << 4
        else:
            assert tail == 2
            # note: 2 lsb of last byte are padding
            v2 = next_value()
            yield v1 >> 2
            yield ((v1 & 0x03) << 4) | (v2 >> 4)
            yield ((v2 & 0x0F) << 2)


def _encode_bytes_little(next_value, chunks, tail):
    """helper used by encode_bytes() to handle little-endian encoding"""
    #
    # output bit layout:
    #
    # first byte:   v1 543210
    #
    # second byte:  v1 ....76
    #              +v2 3210..
    #
    # third byte:   v2 ..7654
    #              +v3 10....
    #
    # fourth byte:  v3 765432
    #
    idx = 0
    while idx < chunks:
        v1 = next_value()
        v2 = next_value()
        v3 = next_value()
        yield v1 & 0x3F
        yield ((v2 & 0x0F) << 2) | (v1 >> 6)
        yield ((v3 & 0x03) << 4) | (v2 >> 4)
        yield v3 >> 2
        idx += 1
    if tail:
        v1 = next_value()
        if tail == 1:
            # note: 4 msb of last byte are padding
            yield v1 & 0x3F
            yield v1 >> 6
        else:
            assert tail == 2
            # note: 2 msb of last byte are padding
            v2 = next_value()
            yield v1 & 0x3F
            yield ((v2 & 0x0F) << 2) | (v1 >> 6)
            yield v2 >> 4


class Base64Engine:
    def __init__(
        self,
        charmap: str,
        big: bool,
    ) -> None:
        if len(charmap) != 64:
            raise ValueError

        self._charmap = charmap.encode("latin-1")
        self._big = big

    def _encode64(self, i: int) -> int:
        return self._charmap[i]

    @property
    def _encode_bytes(self):
        if self._big:
            return _encode_bytes_big
        return _encode_bytes_little

    def encode_bytes(self, source: bytes) -> bytes:
        """encode bytes to base64 string.

        :arg source: byte string to encode.
        :returns: byte string containing encoded data.
        """
        chunks, tail = divmod(len(source), 3)
        next_value = iter(source).__next__
        gen = self._encode_bytes(next_value, chunks, tail)
        return bytes(map(self._encode64, gen))

    def encode_transposed_bytes(self, source: bytes, offsets: tuple[int, ...]) -> bytes:
        """encode byte string, first transposing source using offset list"""
        tmp = bytes(source[off] for off in offsets)
        return self.encode_bytes(tmp)


h64_engine = Base64Engine(B64_CHARS, big=False)
