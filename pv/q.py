"""Small AST query helpers used by the rule modules (indentation-independent statement matching)."""
from __future__ import annotations

import ast

from .model import walk_no_nested


def stmts(fn):
    """every statement inside fn (any depth, nested defs excluded)"""
    return [n for n in walk_no_nested(fn) if isinstance(n, ast.stmt)]


def has_stmt(fn, text):
    """is there a statement whose own unparse (dedented) equals text?"""
    return any(ast.unparse(s) == text for s in stmts(fn))


def find_if(fn, test, body=None, orelse=None):
    """If-statements with the given test text (and optionally exact body / orelse statement texts)"""
    out = []
    for s in stmts(fn):
        if isinstance(s, ast.If) and ast.unparse(s.test) == test:
            if body is not None and [ast.unparse(x) for x in s.body] != body:
                continue
            if orelse is not None and [ast.unparse(x) for x in s.orelse] != orelse:
                continue
            out.append(s)
    return out


def has_if(fn, test, body=None, orelse=None):
    return bool(find_if(fn, test, body, orelse))


def returns(fn):
    return [ast.unparse(n.value) if n.value is not None else "None" for n in walk_no_nested(fn) if isinstance(n, ast.Return)]


def body_texts(fn):
    return [ast.unparse(s) for s in fn.body if not (isinstance(s, ast.Expr) and isinstance(s.value, ast.Constant))]


def order_of(fn, texts):
    """positions (in pre-order) of the first statement equal to each text; None if missing"""
    seq = [ast.unparse(s) for s in _preorder(fn)]
    out = []
    for t in texts:
        out.append(seq.index(t) if t in seq else None)
    return out


def _preorder(node):
    for fld in ("body", "orelse", "finalbody"):
        for st in getattr(node, fld, []) or []:
            if isinstance(st, (ast.FunctionDef, ast.ClassDef)):
                continue
            yield st
            yield from _preorder(st)
    for h in getattr(node, "handlers", []) or []:
        for st in h.body:
            yield st
            yield from _preorder(st)


# ----------------------------------------------------------------------------- boundary-aware source text
import string as _string

_ID = set(_string.ascii_letters + _string.digits + "_")
_CLOSERS = "\n),]:}"


class Text(str):
    """unparsed source of a node.  `fragment in text` holds only where the fragment ends at an expression boundary:
    what follows must close or separate (newline, `)`, `]`, `,`, `:`, `}`), never continue the expression
    (`len(secret)` is not contained in `len(secret) - 1`, `chk` not in `chk or None`, `x` not in `xs`).
    Use .loose(fragment) for a deliberate prefix/partial match."""

    def loose(self, frag):
        return str.__contains__(self, frag)

    def __contains__(self, frag):
        if not isinstance(frag, str) or not frag:
            return str.__contains__(self, frag)
        s = str(self)
        start = 0
        while True:
            i = s.find(frag, start)
            if i < 0:
                return False
            j = i + len(frag)
            before = s[i - 1] if i else "\n"
            after = s[j] if j < len(s) else "\n"
            ok = True
            if frag[0] in _ID and (before in _ID or before == "."):
                ok = False
            last = frag[-1]
            if ok and (last in _ID or last in ")]'\"}"):
                if after not in _CLOSERS:
                    ok = False
            if ok:
                return True
            start = i + 1


def text(node):
    return Text(ast.unparse(node))
