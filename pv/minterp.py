"""Constant propagation over straight-line code (module bodies and small builder functions):
assignments, list/set/dict mutation calls, `if` with a foldable test, for-loops over folded
iterables, return.  Calls listed in `oracle` (by unparsed text) take the supplied value --
used for host-dependent inputs such as registry.get_supported_os_crypt_schemes().
Never executes repository code: every value comes from the folder."""
from __future__ import annotations

import ast
import copy

from .model import UNKNOWN

MUTATORS = {"append", "extend", "insert", "remove", "update", "clear", "add", "discard", "sort", "reverse", "pop", "setdefault"}


class Return(Exception):
    def __init__(self, value):
        self.value = value


class Interp:
    def __init__(self, model, unit, oracle=None, env=None):
        self.model, self.unit = model, unit
        self.oracle = oracle or {}
        self.env = dict(env or {})

    def fold(self, e):
        txt = None
        # oracle substitution anywhere inside the expression
        if self.oracle:
            class T(ast.NodeTransformer):
                def visit_Call(inner, node):
                    t = ast.unparse(node)
                    if t in self.oracle:
                        return ast.Name(id="__oracle_%d" % list(self.oracle).index(t), ctx=ast.Load())
                    return inner.generic_visit(node)
            e = T().visit(copy.deepcopy(e))
            ast.fix_missing_locations(e)
        env = dict(self.env)
        for i, k in enumerate(self.oracle):
            env["__oracle_%d" % i] = copy.deepcopy(self.oracle[k])
        v = self._special(e, env)
        if v is not UNKNOWN:
            return v
        return self.model.fold(self.unit, e, env=env)

    def _special(self, e, env):
        # sorted(set(x), key=y.index)
        if isinstance(e, ast.Call) and isinstance(e.func, ast.Name) and e.func.id == "sorted":
            key = next((k.value for k in e.keywords if k.arg == "key"), None)
            if key is not None and isinstance(key, ast.Attribute) and key.attr == "index" and e.args:
                seq = self.model.fold(self.unit, e.args[0], env=env)
                ref = self.model.fold(self.unit, key.value, env=env)
                if seq is not UNKNOWN and ref is not UNKNOWN:
                    try:
                        return sorted(seq, key=ref.index)
                    except ValueError:
                        return UNKNOWN
            if key is not None and isinstance(key, ast.Lambda) and len(key.args.args) == 1 and e.args:
                seq = self.model.fold(self.unit, e.args[0], env=env)
                if seq is not UNKNOWN:
                    keyed = []
                    for x in seq:
                        env2 = dict(env)
                        env2[key.args.args[0].arg] = x
                        k = self.model.fold(self.unit, key.body, env=env2)
                        if k is UNKNOWN:
                            return UNKNOWN
                        keyed.append((k, x))
                    try:
                        rev = next((self.model.fold(self.unit, k.value, env=env) for k in e.keywords if k.arg == "reverse"), False)
                        return [x for _, x in sorted(keyed, key=lambda t: t[0], reverse=bool(rev))]
                    except TypeError:
                        return UNKNOWN
            if key is None and e.args and not e.keywords:
                seq = self.model.fold(self.unit, e.args[0], env=env)
                if seq is not UNKNOWN:
                    try:
                        return sorted(seq)
                    except TypeError:
                        return UNKNOWN
        if isinstance(e, ast.Call) and ast.unparse(e.func) in ("chain", "itertools.chain"):
            out = []
            for a in e.args:
                v = self.fold(a)
                if v is UNKNOWN:
                    return UNKNOWN
                out.extend(v)
            return out
        if isinstance(e, ast.Call) and isinstance(e.func, ast.Name) and e.func.id in self.unit.funcs and not e.args and not e.keywords:
            # zero-argument builder function of the same module
            sub = Interp(self.model, self.unit, self.oracle)
            return sub.run_function(self.unit.funcs[e.func.id])
        return UNKNOWN

    def fold_arg(self, a):
        """an argument that is itself a list method call on a tracked name (`xs.pop(xs.index(v))`) is evaluated on the tracked value, in
        argument order, with its effect (pop) applied"""
        if isinstance(a, ast.Call) and isinstance(a.func, ast.Attribute) and isinstance(a.func.value, ast.Name) and a.func.attr in ("pop", "index", "count") \
                and not a.keywords and isinstance(self.env.get(a.func.value.id, UNKNOWN), list):
            inner = [self.fold_arg(x) for x in a.args]
            if any(x is UNKNOWN for x in inner):
                return UNKNOWN
            try:
                return getattr(self.env[a.func.value.id], a.func.attr)(*inner)
            except Exception:
                return UNKNOWN
        return self.fold(a)

    def run_function(self, fn):
        try:
            self.block(fn.body)
        except Return as r:
            return r.value
        return None

    def block(self, stmts):
        for st in stmts:
            self.stmt(st)

    def stmt(self, st):
        if isinstance(st, ast.Expr):
            if isinstance(st.value, ast.Constant):
                return
            c = st.value
            if isinstance(c, ast.Call) and isinstance(c.func, ast.Attribute) and c.func.attr in MUTATORS and isinstance(c.func.value, ast.Name):
                name = c.func.value.id
                if name in self.env and self.env[name] is not UNKNOWN:
                    args = [self.fold_arg(a) for a in c.args]
                    if any(a is UNKNOWN for a in args):
                        self.env[name] = UNKNOWN
                        return
                    obj = self.env[name]
                    if isinstance(obj, tuple):
                        self.env[name] = UNKNOWN
                        return
                    try:
                        getattr(obj, c.func.attr)(*args)
                    except Exception:
                        self.env[name] = UNKNOWN
            return
        if isinstance(st, ast.Assign):
            v = self.fold(st.value)
            for t in st.targets:
                self.bind(t, v)
            return
        if isinstance(st, ast.AnnAssign):
            if st.value is not None:
                self.bind(st.target, self.fold(st.value))
            return
        if isinstance(st, ast.AugAssign) and isinstance(st.target, ast.Name):
            v = self.fold(ast.BinOp(left=ast.Name(id=st.target.id, ctx=ast.Load()), op=st.op, right=st.value))
            self.env[st.target.id] = v
            return
        if isinstance(st, ast.Return):
            raise Return(self.fold(st.value) if st.value is not None else None)
        if isinstance(st, ast.If):
            t = self.fold(st.test)
            if t is UNKNOWN:
                # both branches: values assigned in either become UNKNOWN unless equal
                before = dict(self.env)
                a = Interp(self.model, self.unit, self.oracle, before)
                b = Interp(self.model, self.unit, self.oracle, before)
                a.block(st.body)
                b.block(st.orelse)
                for k in set(a.env) | set(b.env):
                    va, vb = a.env.get(k, UNKNOWN), b.env.get(k, UNKNOWN)
                    try:
                        self.env[k] = va if (va is not UNKNOWN and vb is not UNKNOWN and va == vb) else UNKNOWN
                    except Exception:
                        self.env[k] = UNKNOWN
                return
            self.block(st.body if t else st.orelse)
            return
        if isinstance(st, ast.For):
            it = self.fold(st.iter)
            if it is UNKNOWN:
                for n in ast.walk(st):
                    if isinstance(n, ast.Name) and isinstance(n.ctx, ast.Store):
                        self.env[n.id] = UNKNOWN
                return
            for item in it:
                self.bind(st.target, item)
                try:
                    self.block(st.body)
                except _Break:
                    break
            return
        if isinstance(st, ast.Break):
            raise _Break()
        if isinstance(st, (ast.Import, ast.ImportFrom)):
            if isinstance(st, ast.ImportFrom) and st.module:
                for a in st.names:
                    r = self.model.resolve_import(st.module, a.name)
                    if r and r[0] == "value":
                        self.env[a.asname or a.name] = self.model.fold(self.model.units[r[1]], ast.Name(id=r[2], ctx=ast.Load()))
            return
        if isinstance(st, (ast.FunctionDef, ast.ClassDef, ast.Pass, ast.Global, ast.Assert, ast.Delete)):
            return
        # anything else: names stored inside become unknown
        for n in ast.walk(st):
            if isinstance(n, ast.Name) and isinstance(n.ctx, ast.Store):
                self.env[n.id] = UNKNOWN

    def bind(self, t, v):
        if isinstance(t, ast.Name):
            self.env[t.id] = copy.deepcopy(v) if isinstance(v, (list, dict, set)) else v
        elif isinstance(t, (ast.Tuple, ast.List)):
            try:
                vs = list(v)
                if len(vs) == len(t.elts):
                    for a, b in zip(t.elts, vs):
                        self.bind(a, b)
                    return
            except Exception:
                pass
            for a in t.elts:
                self.bind(a, UNKNOWN)


class _Break(Exception):
    pass


def module_env(model, unitname, oracle=None):
    """constant-propagate the module body; -> Interp (env holds folded module-level names)"""
    unit = model.unit(unitname)
    it = Interp(model, unit, oracle)
    it.block(unit.tree.body)
    return it
