"""Rules about the built-in primitives that more than one property depends on (HMAC key preparation,
PBKDF1 loop).  Each caller passes its own rule id."""
from __future__ import annotations

import ast

from pv.q import text as qtext
from pv.model import walk_no_nested, UNKNOWN
from pv.q import has_stmt, find_if, returns

D = "passlib.crypto.digest"


def site(f):
    return f"{D}:{f}"


def rule_hmac(model, rep, R):
    unit = model.unit(D)
    fn = model.func(D, "compile_hmac")
    s = site("compile_hmac")
    # pad tables
    for name, c in (("_TRANS_36", 0x36), ("_TRANS_5C", 0x5C)):
        v = model.fold(unit, ast.Name(id=name, ctx=ast.Load()))
        rep.check(v == bytes(x ^ c for x in range(256)), R, site(name), f"{name} folds to {'the 256-entry xor table' if isinstance(v, bytes) else v!r}",
                  f"{name} is the byte-wise XOR with {c:#x} (RFC 2104 ipad/opad)", witness="HMAC differs from RFC 2104 for every key")
    # key preparation: under which condition is the key replaced by its digest?
    hs = [n for n in walk_no_nested(fn) if isinstance(n, ast.Assign) and ast.unparse(n) == "key = const(key).digest()"]
    if len(hs) != 1:
        rep.undecided(R, s, "statement hashing an over-long key not found")
    else:
        conds = []
        node = hs[0]
        while node is not fn:
            par = unit.parent(node)
            if isinstance(par, ast.If):
                c = _canon_cmp(par.test)
                if c is not None:
                    conds.append(c if node in par.body else _NEG[c])
                else:
                    conds.append("?" + ast.unparse(par.test))
            node = par
        rep.check(conds == [">"], R, s, f"key = H(key) executes when klen {' and klen '.join(conds) or '<always>'} block_size",
                  "a key is replaced by its digest exactly when it is *longer* than the block size (RFC 2104 section 2)",
                  witness="keys of exactly block-size length (64 bytes for SHA-1/SHA-256) are hashed first: HMAC, TOTP tokens and sha1_crypt digests differ from the standard for those keys")
        # zero padding up to the block size must also apply to the hashed key
        blk = unit.parent(hs[0])
        body = blk.body if hs[0] in getattr(blk, "body", []) else blk.orelse
        after = body[body.index(hs[0]) + 1:]
        resync = any(ast.unparse(x) in ("klen = digest_size", "klen = len(key)") for x in after)
        padded_here = any("b'\\x00'" in qtext(x) and ("block_size - digest_size" in qtext(x) or "block_size - len(key)" in qtext(x)) for x in after)
        pads = [n for n in walk_no_nested(fn) if isinstance(n, (ast.AugAssign, ast.Assign)) and qtext(n).loose("b'\\x00'")]
        pad_if = [n for n in walk_no_nested(fn) if isinstance(n, ast.If) and any(x in pads for x in n.body)]
        pad_uses_len = any("len(key)" in qtext(p_.test) for p_ in pad_if)
        reaches_pad = any(p_ in fn.body and blk in fn.body and fn.body.index(blk) < fn.body.index(p_) for p_ in pad_if) if isinstance(blk, ast.If) else False
        ok = padded_here or ((resync or pad_uses_len) and reaches_pad)
        rep.check(ok, R, s, "; ".join(ast.unparse(x) for x in [hs[0]] + after) or ast.unparse(hs[0]),
                  "a hashed key is zero-padded to the block size like any short key (its length for that purpose is the digest size)",
                  witness="a key longer than the block is hashed but not zero-padded to the block size: HMAC differs from RFC 2104 for all long keys")
        for p_ in pad_if:
            c = _canon_cmp(p_.test)
            node = p_
            rep.check(c == "<", R, s, f"if {ast.unparse(p_.test)}: pad", "keys shorter than the block are zero-padded up to it")
            rep.check(any(ast.unparse(x) in ("key += b'\\x00' * (block_size - klen)", "key += b'\\x00' * (block_size - len(key))") for x in p_.body), R, s,
                      "; ".join(ast.unparse(x) for x in p_.body), "padding is block_size - len(key) zero bytes")
        if not pad_if:
            rep.undecided(R, s, "zero-padding statement not found")
    rep.check(has_stmt(fn, "_inner_copy = const(key.translate(_TRANS_36)).copy") and has_stmt(fn, "_outer_copy = const(key.translate(_TRANS_5C)).copy"), R, s,
              "inner = H(key ^ ipad), outer = H(key ^ opad)", "inner pad is 0x36, outer pad 0x5C",
              witness="inner and outer pads swapped: HMAC differs from the RFC for every input")
    # single-shot body
    inner_fn = [n for n in ast.walk(fn) if isinstance(n, ast.FunctionDef) and n.name == "hmac" and n.args.args]
    if inner_fn:
        body = [ast.unparse(x) for x in inner_fn[0].body if not (isinstance(x, ast.Expr) and isinstance(x.value, ast.Constant))]
        rep.check(body == ["inner = _inner_copy()", "inner.update(msg)", "outer = _outer_copy()", "outer.update(inner.digest())", "return outer.digest()"], R, s,
                  " | ".join(body), "hmac(msg) = H(opad-key || H(ipad-key || msg))")
    fin = [n for n in ast.walk(fn) if isinstance(n, ast.FunctionDef) and n.name == "finalize"]
    if fin:
        body = [ast.unparse(x) for x in fin[0].body]
        rep.check(body == ["outer = _outer_copy()", "outer.update(inner.digest())", "return outer.digest()"], R, s, " | ".join(body), "multipart finalize = H(opad-key || inner digest)")
    rep.check(has_stmt(fn, "const, digest_size, block_size = digest_info"), R, s, "const, digest_size, block_size = digest_info", "sizes come from the digest's info record")


_NEG = {">": "<=", "<=": ">", "<": ">=", ">=": "<", "==": "!=", "!=": "=="}
_FLIP = {">": "<", "<": ">", ">=": "<=", "<=": ">=", "==": "==", "!=": "!="}
_OPS = {ast.Gt: ">", ast.Lt: "<", ast.GtE: ">=", ast.LtE: "<=", ast.Eq: "==", ast.NotEq: "!="}


def _canon_cmp(t):
    """canonical operator of a comparison between the key length and block_size, key length on the left"""
    if isinstance(t, ast.UnaryOp) and isinstance(t.op, ast.Not):
        c = _canon_cmp(t.operand)
        return _NEG[c] if c else None
    if not (isinstance(t, ast.Compare) and len(t.ops) == 1 and type(t.ops[0]) in _OPS):
        return None
    l, r = ast.unparse(t.left), ast.unparse(t.comparators[0])
    op = _OPS[type(t.ops[0])]
    if l in ("klen", "len(key)") and r == "block_size":
        return op
    if r in ("klen", "len(key)") and l == "block_size":
        return _FLIP[op]
    return None


def rule_pbkdf(model, rep, R):
    fn = model.func(D, "pbkdf1")
    s = site("pbkdf1")
    t = qtext(fn)
    rep.check(has_stmt(fn, "block = secret + salt"), R, s, "block = secret + salt", "PBKDF1 starts from password || salt")
    loop = [n for n in walk_no_nested(fn) if isinstance(n, ast.For)]
    ok = len(loop) == 1 and ast.unparse(loop[0].iter) == "range(rounds)" and [ast.unparse(x) for x in loop[0].body] == ["block = const(block).digest()"]
    rep.check(ok, R, s, ast.unparse(loop[0])[:80] if loop else "<none>", "digest applied `rounds` times", witness="PBKDF1 iterates rounds±1 times")
    rep.check(returns(fn) == ["block[:keylen]"], R, s, "; ".join(returns(fn)), "output = first keylen bytes")
    rep.check(len(find_if(fn, "keylen > digest_size")) == 1 and len(find_if(fn, "rounds < 1")) == 1, R, s, "bounds", "keylen <= digest size, rounds >= 1 enforced")
    fn = model.func(D, "pbkdf2_hmac")
    rep.check(returns(fn) == ["hashlib.pbkdf2_hmac(digest_info.name, secret, salt, rounds, keylen)"], R, site("pbkdf2_hmac"), "; ".join(returns(fn)),
              "PBKDF2 delegates to hashlib with (name, secret, salt, rounds, keylen) in that order",
              witness="salt and secret (or rounds and keylen) swapped")
    rep.check(has_stmt(fn, "secret = to_bytes(secret, param='secret')") and has_stmt(fn, "salt = to_bytes(salt, param='salt')"), R, site("pbkdf2_hmac"),
              "to_bytes(secret), to_bytes(salt)", "text inputs are UTF-8 encoded")


#: IANA "Hash Function Textual Names" registry (RFC 3279 / RFC 4055 / RFC 6920 era entries that hashlib also provides): hashlib name -> registered name
IANA_HASH_NAMES = {"md2": "md2", "md5": "md5", "sha1": "sha-1", "sha224": "sha-224", "sha256": "sha-256", "sha384": "sha-384", "sha512": "sha-512"}
#: FIPS 180-4 / RFC 1321 (digest size, block size) in bytes
HASH_SIZES = {"md4": (16, 64), "md5": (16, 64), "sha1": (20, 64), "sha224": (28, 64), "sha256": (32, 64), "sha384": (48, 128), "sha512": (64, 128)}


def rule_hash_names(model, rep, R):
    """the digest-name table that lookup_hash(), scram's algorithm labels and the pbkdf2 hasher names are built on: column 0 is the
    hashlib name, column 1 the IANA-registered name, the rest aliases; no name occurs twice"""
    unit = model.unit(D)
    tab = model.fold(unit, ast.Name(id="_known_hash_names", ctx=ast.Load()))
    s = site("_known_hash_names")
    if tab is UNKNOWN or not isinstance(tab, (list, tuple)) or not all(isinstance(r, tuple) and len(r) >= 2 and all(isinstance(x, str) for x in r) for r in tab):
        rep.undecided(R, s, "table does not fold to a list of string tuples")
        return
    rows = {r[0]: r for r in tab}
    for h, iana in IANA_HASH_NAMES.items():
        r = rows.get(h)
        rep.check(r is not None and r[1] == iana, R, s + f" {h}", repr(r), f"row of {h}: (hashlib name {h!r}, IANA name {iana!r}, aliases...)",
                  witness="scram records label their sha-384 digest 'sha2-384' and a well-formed '$scram$...sha-384=...' string no longer parses")
    flat = [x for r in tab for x in r]
    dup = sorted({x for x in flat if flat.count(x) > 1 and not any(r.count(x) == flat.count(x) and r[0] == x and r[1] == x for r in tab)})
    rep.check(not dup, R, s + " unique", f"duplicates: {dup}", "a name or alias belongs to one row only")
    fb = model.fold(unit, ast.Name(id="_fallback_info", ctx=ast.Load()))
    if isinstance(fb, dict):
        for h, want in HASH_SIZES.items():
            if h in fb:
                rep.check(fb[h] == want, R, site("_fallback_info") + f" {h}", repr(fb[h]), f"(digest size, block size) of {h} is {want}",
                          witness="HMAC pads to the wrong block size / pbkdf2 emits blocks of the wrong length when the hash is only known through the fallback table")


def rule_name_cache(model, rep, R):
    """lookup_hash() files a caller-supplied constructor under a digest *name* only when that name resolves to the very same constructor
    (or to nothing): anything else would make every later lookup by name -- HMAC, PBKDF1/2, scram -- run the caller's function"""
    fn = model.func(D, "lookup_hash")
    s = site("lookup_hash") + " cache_by_name"
    unit = model.unit(D)
    offs = [a for a in walk_no_nested(fn) if isinstance(a, ast.Assign) and ast.unparse(a.targets[0]) == "cache_by_name" and ast.unparse(a.value) == "False"]
    ons = [a for a in walk_no_nested(fn) if isinstance(a, ast.Assign) and ast.unparse(a.targets[0]) == "cache_by_name" and ast.unparse(a.value) != "False"]
    if len(offs) != 1:
        rep.violation(R, s, f"{len(offs)} `cache_by_name = False` statements", "a foreign constructor is kept out of the by-name cache",
                      witness="after lookup_hash(lambda d=b'': hashlib.blake2b(d, digest_size=32)), compile_hmac('blake2b', key) returns a 32-byte MAC")
        return
    # the chain of tests that lead *away* from the `cache_by_name = False` branch
    chain, node = [], unit.enclosing(offs[0], ast.If)
    top = node
    while node is not None and (offs[0] in node.orelse or any(offs[0] is x for st in node.orelse for x in ast.walk(st))):
        chain.append(ast.unparse(node.test))
        top = node
        node = unit.enclosing(node, ast.If)
        if node is None or not (len(node.orelse) == 1 and node.orelse[0] is top):
            break
    allowed = {"other_const is None", "other_const is const", "const is other_const"}
    ok = bool(chain) and all(t in allowed for t in chain) and len(ons) == 1 and ast.unparse(ons[0].value) == "True"
    rep.check(ok, R, s, f"kept by name when: {chain}", "a callable digest stays cacheable by name only if the name resolves to nothing or to the identical constructor (`is`)",
              witness="a wrapper that merely reports the same .name (blake2b with digest_size=32) is cached as 'blake2b': compile_hmac('blake2b', key) and pbkdf1('blake2b', ...) then run the truncated digest")
    # the by-name fill is conditional on the flag
    fills = [n for n in walk_no_nested(fn) if isinstance(n, ast.If) and ast.unparse(n.test) == "cache_by_name"]
    rep.check(len(fills) == 1 and any("cache" in ast.unparse(x) and "name" in ast.unparse(x) for x in ast.walk(fills[0])), R, site("lookup_hash") + " by-name fill",
              f"{len(fills)} `if cache_by_name:` blocks", "names are filed only under `if cache_by_name:`")


def rule_hash_const(model, rep, R):
    """_get_hash_const() resolves a *digest* name: an attribute of hashlib is taken as the constructor only for names hashlib lists as
    algorithms -- hashlib also has attributes that are no digests (scrypt, pbkdf2_hmac, file_digest, algorithms_available)"""
    fn = model.func(D, "_get_hash_const")
    unit = model.unit(D)
    s = site("_get_hash_const")
    gets = [c for c in walk_no_nested(fn) if isinstance(c, ast.Call) and ast.unparse(c.func) == "getattr" and len(c.args) >= 2 and ast.unparse(c.args[0]) == "hashlib"]
    if len(gets) != 1:
        rep.undecided(R, s, f"{len(gets)} getattr(hashlib, ...) calls")
        return
    guards = []
    cur = gets[0]
    while cur is not None and cur is not fn:
        par = unit.parent(cur)
        if isinstance(par, ast.If) and any(cur is x or any(cur is y for y in ast.walk(x)) for x in par.body):
            guards.append(ast.unparse(par.test))
        cur = par
    ok = any("hashlib.algorithms_guaranteed" in g or "hashlib.algorithms_available" in g for g in guards)
    rep.check(ok, R, s, f"getattr(hashlib, name) under {guards or ['no test']}", "hashlib attributes are used as constructors only for names in hashlib.algorithms_guaranteed / algorithms_available",
              witness="lookup_hash('scrypt') / compile_hmac('file_digest', k) raise TypeError; scram.verify(pw, '$scram$6400$<salt>$sha-1=<d>,scrypt=YWJjZA') raises TypeError('scrypt() missing required argument') "
                      "where an unknown name such as 'foo=' answers False")
