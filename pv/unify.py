"""Sibling unifier: normalise two functions that implement the same algorithm and compare them
statement by statement.  Normalisation: docstrings and asserts dropped; prologue skipped up to an
anchor assignment; single-definition temps that are method aliases (x.update), len(...) of a name or
concatenations of names are inlined at any nesting depth; `+` re-associated; locals alpha-renamed in
order of first appearance (a consistent bijection between the two functions falls out of equality)."""
from __future__ import annotations

import ast
import copy

KEEP = {"len", "divmod", "repeat_string", "range", "bytes", "str", "int", "tuple", "list", "zip", "enumerate"}


def _strip(body):
    out = []
    for st in body:
        if isinstance(st, ast.Assert):
            continue
        if isinstance(st, ast.Expr) and isinstance(st.value, ast.Constant):
            continue
        for f in ("body", "orelse"):
            if hasattr(st, f) and isinstance(getattr(st, f), list):
                setattr(st, f, _strip(getattr(st, f)))
        out.append(st)
    return out


class _Subst(ast.NodeTransformer):
    def __init__(self, m):
        self.m = m

    def visit_Name(self, n):
        if isinstance(n.ctx, ast.Load) and n.id in self.m:
            return copy.deepcopy(self.m[n.id])
        return n


def _stores(body):
    c = {}
    for st in body:
        for n in ast.walk(st):
            if isinstance(n, ast.Name) and isinstance(n.ctx, ast.Store):
                c[n.id] = c.get(n.id, 0) + 1
            if isinstance(n, ast.AugAssign) and isinstance(n.target, ast.Name):
                c[n.target.id] = c.get(n.target.id, 0) + 1
    return c


def _inline(body, cnt=None, m=None):
    cnt = _stores(body) if cnt is None else cnt
    m = {} if m is None else m
    out = []
    for st in body:
        st = _Subst(m).visit(st)
        for f in ("body", "orelse"):
            if hasattr(st, f) and isinstance(getattr(st, f), list):
                setattr(st, f, _inline(getattr(st, f), cnt, m))
        if isinstance(st, ast.Assign) and len(st.targets) == 1 and isinstance(st.targets[0], ast.Name) and cnt.get(st.targets[0].id) == 1:
            v = st.value
            simple = (isinstance(v, ast.Attribute) and v.attr == "update" and isinstance(v.value, ast.Name)) \
                or (isinstance(v, ast.Call) and ast.unparse(v.func) == "len" and len(v.args) == 1 and isinstance(v.args[0], ast.Name)) \
                or (isinstance(v, ast.BinOp) and isinstance(v.op, ast.Add) and all(isinstance(x, ast.Name) for x in (v.left, v.right)))
            if simple:
                m[st.targets[0].id] = v
                continue
        out.append(st)
    return out


def _flatten_add(e):
    if isinstance(e, ast.BinOp) and isinstance(e.op, ast.Add):
        return _flatten_add(e.left) + _flatten_add(e.right)
    return [e]


class _Assoc(ast.NodeTransformer):
    def visit_BinOp(self, n):
        self.generic_visit(n)
        if isinstance(n.op, ast.Add):
            parts = _flatten_add(n)
            e = parts[0]
            for p in parts[1:]:
                e = ast.BinOp(e, ast.Add(), p)
            return e
        return n


def _alpha(body, keep_globals):
    names = {}

    class R(ast.NodeTransformer):
        def visit_Name(self, n):
            if n.id in KEEP or n.id in keep_globals:
                return n
            names.setdefault(n.id, f"v{len(names)}")
            return ast.Name(id=names[n.id], ctx=n.ctx)
    return [R().visit(s) for s in body], names


def normalize(fn, anchor_target, pre_alias=None, keep_globals=()):
    """-> (list of normalised statements (AST), name map); raises LookupError if the anchor assignment vanished"""
    body = _strip(copy.deepcopy(fn.body))
    start = None
    pre = {}
    for i, st in enumerate(body):
        if isinstance(st, ast.Assign) and len(st.targets) == 1 and isinstance(st.targets[0], ast.Name):
            if st.targets[0].id == anchor_target:
                start = i
                break
            # prologue aliases of the form  x = len(y)
            v = st.value
            if isinstance(v, ast.Call) and ast.unparse(v.func) == "len" and len(v.args) == 1 and isinstance(v.args[0], ast.Name):
                pre[st.targets[0].id] = v
    if start is None:
        raise LookupError(f"anchor assignment `{anchor_target} = ...` not found")
    body = body[start:]
    body = [_Subst(pre).visit(s) for s in body]
    body = [_Assoc().visit(s) for s in _inline(body)]
    for s in body:
        ast.fix_missing_locations(s)
    return _alpha(body, set(keep_globals))


def flatten(stmts):
    """pre-order list of (depth, header-text) for every statement, so that diffs point at the innermost difference"""
    out = []

    def rec(sts, d):
        for s in sts:
            if isinstance(s, (ast.If, ast.While, ast.For)):
                hdr = {ast.If: "if ", ast.While: "while ", ast.For: "for "}[type(s)]
                if isinstance(s, ast.For):
                    out.append((d, f"for {ast.unparse(s.target)} in {ast.unparse(s.iter)}:"))
                else:
                    out.append((d, hdr + ast.unparse(s.test) + ":"))
                rec(s.body, d + 1)
                if s.orelse:
                    out.append((d, "else:"))
                    rec(s.orelse, d + 1)
            else:
                out.append((d, ast.unparse(s)))
    rec(stmts, 0)
    return out


def compare(fa, fb):
    """-> ('equal', n) | ('differ', index, a_text, b_text) | ('shape', len_a, len_b)"""
    a, b = flatten(fa), flatten(fb)
    if len(a) != len(b) or [d for d, _ in a] != [d for d, _ in b]:
        # find first divergence for the message
        for i, (x, y) in enumerate(zip(a, b)):
            if x != y:
                return ("shape", i, x[1], y[1])
        return ("shape", min(len(a), len(b)), a[min(len(a), len(b)) - 1][1] if a else "", b[min(len(a), len(b)) - 1][1] if b else "")
    for i, (x, y) in enumerate(zip(a, b)):
        if x != y:
            return ("differ", i, x[1], y[1])
    return ("equal", len(a))
