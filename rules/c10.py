"""C10 -- context config survives export/import; a failed change changes nothing.

Decided: CryptContext.load() has a single commit point -- nothing observable is written (and no
self-mutating method is called) before the new _CryptConfig is fully built, and after it every piece
of live state is re-bound unconditionally by statements that cannot raise; only load() writes the
live state and every other entry point reaches it through load(); building the new configuration
copies instead of sharing (update overlays onto a fresh dict made from the *resolved* handlers, list
values are copied, records are fresh subclasses); key rendering/parsing are inverse on their three
shapes and every value type is rendered losslessly for the coercer of the same key.
Not decided: equality of decisions after a round trip as executed."""
from __future__ import annotations

import ast

from pv.q import text as qtext, find_if
from pv.model import AnalysisError, walk_no_nested, params, UNKNOWN

CTX = "passlib.context"
LIVE = ["_config", "_get_record", "_identify_record", "_strip_unused_context_kwds"]


def site(f):
    return f"{CTX}:{f}"


def _self_effects(st):
    """stores to self.* / self.__dict__ mutations / calls of self methods inside statement st"""
    out = []
    for n in ast.walk(st):
        if isinstance(n, (ast.Assign, ast.AugAssign, ast.AnnAssign, ast.Delete)):
            tg = n.targets if isinstance(n, (ast.Assign, ast.Delete)) else [n.target]
            for t in tg:
                for tt in (t.elts if isinstance(t, (ast.Tuple, ast.List)) else [t]):
                    if isinstance(tt, ast.Attribute) and isinstance(tt.value, ast.Name) and tt.value.id == "self":
                        out.append(("store", tt.attr, n))
                    if isinstance(tt, ast.Subscript) and ast.unparse(tt.value).startswith("self."):
                        out.append(("store", ast.unparse(tt.value), n))
        if isinstance(n, ast.Call):
            f = ast.unparse(n.func)
            if f.startswith("self.__dict__."):
                out.append(("dictop", f, n))
            elif f.startswith("self.") and f.count(".") == 1:
                out.append(("selfcall", f[5:], n))
            elif f.startswith("type(self)."):
                out.append(("selfcall", f, n))
            elif f in ("setattr", "delattr") and n.args and ast.unparse(n.args[0]) == "self":
                out.append(("store", "setattr", n))
    return out


PURE_SELF_CALLS = {"_parse_ini_stream", "_parse_config_key"}   # static helpers without side effects on self


def rule_a(model, rep):
    R = "C10.a-commit-point"
    fn = model.func(CTX, "CryptContext.load")
    body = [s for s in fn.body if not (isinstance(s, ast.Expr) and isinstance(s.value, ast.Constant))]
    idx = None
    for i, st in enumerate(body):
        if isinstance(st, ast.Assign) and isinstance(st.value, ast.Call) and ast.unparse(st.value.func) == "_CryptConfig":
            idx = i
            cfg = ast.unparse(st.targets[0])
            src_arg = ast.unparse(st.value.args[0]) if st.value.args else ""
    if idx is None:
        rep.undecided(R, site("CryptContext.load"), "`config = _CryptConfig(source)` not found at the top level of load()")
        return
    # before the commit point: no effect on self
    for st in body[:idx]:
        for kind, what, node in _self_effects(st):
            if kind == "selfcall" and what in PURE_SELF_CALLS:
                continue
            if kind == "selfcall" and what == "_config.iter_config":
                continue
            rep.violation(R, site("CryptContext.load"), f"{kind} {what}: {ast.unparse(node)[:80]}",
                          "the context is modified before the new configuration object has been built (it can still fail: unknown scheme, bad option, hasher raising)",
                          witness="a load()/update() that fails afterwards leaves the context changed: e.g. the dummy-verify cache is dropped or an attribute is rebound, "
                                  "while _config still is the old one")
    rep.hold(R, site("CryptContext.load"), f"{idx} statements precede the commit point `{cfg} = _CryptConfig({src_arg})`")
    # after: only non-raising rebinding statements
    tail = body[idx + 1:]
    allowed_prefix = ("self._config = ", "self._get_record = ", "self._identify_record = ", "self._strip_unused_context_kwds = ",
                      "self._reset_dummy_verify()", "self.__dict__.pop(")
    for st in tail:
        stmts = [st] if not isinstance(st, ast.If) else st.body + st.orelse
        for s2 in stmts:
            t = qtext(s2)
            rep.check(t.startswith(allowed_prefix), R, site("CryptContext.load"), t[:90],
                      "after the commit point only plain rebinding statements that cannot raise",
                      witness="an exception after `self._config = config` leaves the new config installed with the old bound shortcuts")
    # every piece of live state is refreshed unconditionally
    top = [ast.unparse(s) for s in tail]
    want = {"_config": f"self._config = {cfg}", "_get_record": f"self._get_record = {cfg}.get_record",
            "_identify_record": f"self._identify_record = {cfg}.identify_record", "dummy": "self._reset_dummy_verify()"}
    for k, w in want.items():
        rep.check(w in top, R, site("CryptContext.load"), w, f"`{w}` is executed unconditionally after the commit point",
                  witness={"dummy": "after replacing the policy, verify(pw, None) still uses the previous context's dummy hash (UnknownHashError / stale cost)",
                           }.get(k, f"after load() the shortcut {k} still points into the previous configuration: decisions come from the old policy"))
    # the strip-kwds switch is set on both branches
    last = tail[-1] if tail else None
    ok = isinstance(last, ast.If) and ast.unparse(last.test) == f"{cfg}.context_kwds" and \
        any(qtext(x).loose("_strip_unused_context_kwds") for x in last.body) and any(qtext(x).loose("_strip_unused_context_kwds") for x in last.orelse)
    rep.check(ok, R, site("CryptContext.load"), ast.unparse(last)[:160] if last is not None else "<none>",
              "the per-instance `_strip_unused_context_kwds` override is cleared when the new config has context keywords and set to None when it has none",
              witness="a context that once had no contextual keywords keeps the None override after loading a config with e.g. postgres_md5: "
                      "hash(..., user=...) on another scheme raises TypeError")
    if ok:
        rep.check("self.__dict__.pop('_strip_unused_context_kwds', None)" in qtext(last.body[0]), R, site("CryptContext.load"), ast.unparse(last.body[0]),
                  "re-enable = remove the instance attribute with pop(..., None) (cannot raise)")
    # _CryptConfig(source) gets the merged dict, merge copies resolved handlers
    upd = [s for s in body[:idx] if isinstance(s, ast.If) and ast.unparse(s.test).startswith("update and")]
    if len(upd) != 1:
        rep.undecided(R, site("CryptContext.load"), "update-merge block not found")
    else:
        t = qtext(upd[0])
        rep.check("source = dict(self._config.iter_config(resolve=True))" in t and "source.update(tmp)" in t, R, site("CryptContext.load"),
                  "source = dict(self._config.iter_config(resolve=True)); source.update(tmp)",
                  "update() overlays the given keys onto a fresh dict built from the current config with handler *objects* (resolve=True)",
                  witness="update(x=...) on a context holding a customised or unregistered hasher silently swaps it for the registry's hasher of that name (or raises KeyError)")
        rep.check("if not source:\n        return" in t, R, site("CryptContext.load"), "if not source: return", "an empty update is a no-op")
    t = qtext(fn)
    rep.check("source = dict(source._config.iter_config(resolve=True))" in t, R, site("CryptContext.load"), "dict(source._config.iter_config(resolve=True))",
              "loading from another context copies its resolved configuration",
              witness="copy() of a context with a custom hasher re-resolves it by name")


def rule_b(model, rep):
    R = "C10.b-who-may-write"
    unit = model.unit(CTX)
    for q, fn in unit.functions():
        if not q.startswith(("CryptContext.", "LazyCryptContext.")):
            continue
        for kind, what, node in _self_effects(fn):
            if kind == "store" and what in LIVE:
                rep.check(q == "CryptContext.load", R, site(q), ast.unparse(node)[:80], f"live state `{what}` is written only by CryptContext.load()",
                          witness="another method rebinds part of the live state: config and bound shortcuts disagree")
            if kind == "dictop" and qtext(node).loose("_strip_unused_context_kwds"):
                rep.check(q == "CryptContext.load", R, site(q), ast.unparse(node)[:80], "instance override removed only by load()")
    # entry points reach state through load()
    for q, want in (("CryptContext.update", ["self.load(args[0], update=True)", "self.load(kwds, update=True)"]),
                    ("CryptContext.copy", ["other.load(self)", "other.load(kwds, update=True)"]),
                    ("CryptContext.load_path", ["self.load(kwds, update=update)"]),
                    ("CryptContext.from_string", ["self.load(source, section=section, encoding=encoding)"]),
                    ("CryptContext.__init__", ["self.load(kwds)"]),
                    ("CryptContext.using", ["self.copy(**kwds)"])):
        fn = model.func(CTX, q)
        calls = [ast.unparse(n) for n in walk_no_nested(fn) if isinstance(n, ast.Call) and ast.unparse(n.func).endswith((".load", ".copy"))]
        rep.check(all(w in calls for w in want), R, site(q), "; ".join(calls), f"{q.split('.')[-1]}() changes state only through {want}",
                  witness="an entry point bypasses load()'s commit discipline")
    fn = model.func(CTX, "CryptContext.copy")
    rep.check("other = CryptContext(_autoload=False)" in qtext(fn), R, site("CryptContext.copy"), "other = CryptContext(_autoload=False)", "copy() builds a new object")
    fn = model.func(CTX, "CryptContext._reset_dummy_verify")
    rep.check("type(self)._dummy_hash.clear_cache(self)" in qtext(fn), R, site("CryptContext._reset_dummy_verify"), "clear_cache(self)", "dummy hash cache is per instance")
    rep.minimum(R, 10)


def rule_c(model, rep):
    R = "C10.c-no-shared-mutation"
    fn = model.func(CTX, "_CryptConfig._create_record")
    t = qtext(fn)
    rep.check("subcls = handler.using(relaxed=True, **settings)" in t, R, site("_CryptConfig._create_record"), "subcls = handler.using(relaxed=True, **settings)",
              "records are fresh subclasses made by using()")
    stores = [ast.unparse(n.targets[0]) for n in walk_no_nested(fn) if isinstance(n, ast.Assign) and isinstance(n.targets[0], ast.Attribute)]
    rep.check(all(s_.startswith("subcls.") for s_ in stores), R, site("_CryptConfig._create_record"), ", ".join(stores), "only the fresh subclass is annotated (deprecated flag, origin)",
              witness="building a context marks the *shared* handler class as deprecated")
    rep.check("assert subcls is not handler" in t, R, site("_CryptConfig._create_record"), "assert subcls is not handler", "sanity check kept")
    fn = model.func(CTX, "_CryptConfig.iter_config")
    t = qtext(fn)
    rep.check(any(isinstance(n, ast.If) and ast.unparse(n.test) == "isinstance(value, list)" and [ast.unparse(x) for x in n.body] == ["value = list(value)"]
                  for n in walk_no_nested(fn)), R, site("_CryptConfig.iter_config"), "value = list(value)",
              "list-valued options are copied on export", witness="mutating an exported `deprecated` list changes the live context")
    rep.check("list(value)" in t and "yield ((None, None, 'schemes'), list(value))" in t, R, site("_CryptConfig.iter_config"), "schemes copied", "scheme list is copied on export")
    # lookups by key presence, not truthiness (empty per-category values must survive)
    tries = [n for n in walk_no_nested(fn) if isinstance(n, ast.Try)]
    ok = len(tries) == 2 and all(len(x.handlers) == 1 and ast.unparse(x.handlers[0].type) == "KeyError" and x.orelse for x in tries)
    rep.check(ok, R, site("_CryptConfig.iter_config"), f"{len(tries)} try/except KeyError lookups",
              "per-category options are exported whenever the key exists (try/except KeyError), also when the value is empty or zero",
              witness="a category override `deprecated=[]` (or vary_rounds=0) disappears on copy()/update()/to_dict(): the category inherits the global list again")
    # _CryptConfig stores only on self / fresh locals
    unit = model.unit(CTX)
    for q, f2 in unit.functions():
        if not q.startswith("_CryptConfig."):
            continue
        for n in walk_no_nested(f2):
            if isinstance(n, ast.Assign):
                for tt in n.targets:
                    if isinstance(tt, ast.Attribute) and not (isinstance(tt.value, ast.Name) and tt.value.id in ("self", "subcls")):
                        rep.violation(R, site(q), ast.unparse(n)[:80], "_CryptConfig writes an attribute of a foreign object", witness="building a config mutates shared objects")
    # source dict is not mutated by _CryptConfig
    fn = model.func(CTX, "_CryptConfig._init_options")
    muts = [ast.unparse(n)[:60] for n in walk_no_nested(fn) if isinstance(n, ast.Call) and ast.unparse(n.func) in ("source.pop", "source.update", "source.clear", "source.setdefault")]
    rep.check(not muts, R, site("_CryptConfig._init_options"), "; ".join(muts) or "source only read", "the caller's source mapping is only read")


def rule_d(model, rep):
    R = "C10.d-key-value-codecs"
    fn = model.func(CTX, "CryptContext._render_config_key")
    t = qtext(fn)
    rep.check("return '{}__{}__{}'.format(cat, scheme or 'context', option)" in t, R, site("CryptContext._render_config_key"), "cat__scheme|context__option",
              "category keys render as cat__scheme__option with 'context' standing for no scheme")
    rep.check("return f'{scheme}__{option}'" in t and t.rstrip().endswith("return option"), R, site("CryptContext._render_config_key"), "scheme__option / option", "two- and one-part keys")
    fn = model.func(CTX, "CryptContext._parse_config_key")
    t = qtext(fn)
    facts = ["parts = ckey.replace('.', '__').split('__')", "cat, scheme, key = (None, None, parts[0])", "scheme, key = parts", "cat, scheme, key = parts",
             "if cat == 'default':\n        cat = None", "if scheme == 'context':\n        scheme = None", "return (cat, scheme, key)"]
    for f in facts:
        rep.check(f in t, R, site("CryptContext._parse_config_key"), f.replace("\n", " "), "parser inverts the renderer (1/2/3 parts, 'default' and 'context' placeholders)",
                  witness="an exported key is re-imported under another category/scheme")
    # value rendering
    fn = model.func(CTX, "CryptContext._render_ini_value")
    t = qtext(fn)
    rep.check("value = ', '.join(value)" in t, R, site("CryptContext._render_ini_value"), "', '.join(value)", "lists are comma-joined (splitcomma on import)")
    rep.check("return value.replace('%', '%%')" in t, R, site("CryptContext._render_ini_value"), "percent escaped", "percent signs are escaped for ConfigParser")
    # floats: lossless
    fl = [n for n in walk_no_nested(fn) if isinstance(n, ast.If) and qtext(n.test).loose("isinstance(value, float)")]
    if len(fl) != 1:
        rep.undecided(R, site("CryptContext._render_ini_value"), "float branch not found")
    else:
        asg = [x for x in fl[0].body if isinstance(x, ast.Assign)]
        txt = qtext(asg[0].value) if asg else ""
        def leaves(e, conds):
            if isinstance(e, ast.IfExp):
                return leaves(e.body, conds + [(ast.unparse(e.test), True)]) + leaves(e.orelse, conds + [(ast.unparse(e.test), False)])
            return [(e, conds)]
        # every alternative renders through repr()/str() of the float itself; the one exception is the text '0' for a falsy value
        # (0 and 0.0 mean the same: no variation) -- an integer-valued float such as 1.0 (= 100%) must keep its '.0' or it re-imports as the int 1
        lossless = bool(asg)
        for leaf, conds in (leaves(asg[0].value, []) if asg else []):
            lt = ast.unparse(leaf)
            ok = lt in ("repr(value)", "str(value)", "float.__repr__(value)") or (lt == "'0'" and conds in ([("value", False)], [("not value", True)], [("value == 0", True)], [("value != 0", False)]))
            lossless = lossless and ok
        rep.check(lossless, R, site("CryptContext._render_ini_value"), txt, "a float vary_rounds is rendered with a text that parses back to the same float (and stays a float)",
                  witness="vary_rounds=0.125 is exported as 0.12 (or 1.0 as '1' -> re-imported as the integer 1): the re-imported context differs")
        rep.check("str(value)" in qtext(fl[0].orelse[0]) if fl[0].orelse else False, R, site("CryptContext._render_ini_value"), "else: str(value)", "other numbers via str()")
    # booleans: the writer spells them str(True)/str(False); the reader must fold case for *text* and know both words
    U = "passlib.utils"
    ab = model.func(U, "as_bool")
    uu = model.unit(U)
    ts, fs = model.fold(uu, ast.Name(id="_true_set", ctx=ast.Load())), model.fold(uu, ast.Name(id="_false_set", ctx=ast.Load()))
    br = find_if(ab, "isinstance(value, unicode_or_bytes)")
    first = [ast.unparse(x) for x in br[0].body[:1]] if br else []
    rep.check(first == ["clean = value.lower().strip()"] and isinstance(ts, (set, frozenset)) and "true" in ts and isinstance(fs, (set, frozenset)) and "false" in fs, R, site("as_bool").replace(CTX, U) if False else f"{U}:as_bool",
              f"text branch starts {first}; 'true' in _true_set={isinstance(ts, (set, frozenset)) and 'true' in ts}; 'false' in _false_set={isinstance(fs, (set, frozenset)) and 'false' in fs}",
              "as_bool() lower-cases every text value before the table lookup, so the 'True'/'False' that to_string() writes for boolean options are read back",
              witness="CryptContext.from_string(ctx.to_string()) raises ValueError('unrecognized ... value: True') for a context with truncate_error=True")
    from . import shared as _shared
    _shared.rule_as_bool(model, rep, R)
    # None ("unset this option", the idiom copy(opt=None) uses) has no INI spelling: the writer must skip it rather than fail
    wp = model.func(CTX, "CryptContext._write_to_parser")
    skips_none = any(isinstance(n, ast.If) and ast.unparse(n.test) in ("v is None", "value is None") and n.body and isinstance(n.body[-1], ast.Continue) for n in walk_no_nested(wp))
    rv = model.func(CTX, "CryptContext._render_ini_value")
    handles_none = any(isinstance(n, ast.If) and "value is None" in ast.unparse(n.test) for n in walk_no_nested(rv))
    rep.check(skips_none or handles_none, R, f"{CTX}:CryptContext._write_to_parser", "None values are handed to _render_ini_value(), which asserts a str",
              "an option set to None (accepted by load/copy/update and exported by to_dict()) is left out of the INI text",
              witness="ctx.copy(sha256_crypt__max_rounds=None).to_string() raises AssertionError('expected string for key ...')")
    # numbers: INI text hands every value back as a string; a numeric option is either in the context's coercion table or its
    # sanitiser accepts numeric text (int() / norm_integer()); otherwise the context cannot load its own export
    from .shared import NUMERIC_OPTION_NAMES
    from pv.handlers import HandlerTable
    table = HandlerTable(model)
    cnode = model.unit(CTX).assigns.get("_coerce_scheme_options")
    coerced = {k.arg for k in cnode[0].keywords} if cnode and isinstance(cnode[0], ast.Call) else set()
    if not coerced:
        rep.undecided(R, f"{CTX}:_coerce_scheme_options", "coercion table not found")
    nn = 0
    seen = set()
    for h in table:
        if h.kind not in ("class", "factory") or h.cref is None:
            continue
        for k in model.mro(h.cref):
            if k[0] not in model.units or k[1] not in model.units[k[0]].classes or k in seen:
                continue
            seen.add(k)
            mem = model.class_members(k)
            us = mem.get("using")
            if not isinstance(us, ast.FunctionDef):
                continue
            for prm in params(us):
                if prm not in NUMERIC_OPTION_NAMES or prm in ("relaxed", "truncate_error"):
                    continue
                # sanitiser the value goes through
                calls = [c for c in walk_no_nested(us) if isinstance(c, ast.Call) and isinstance(c.func, ast.Attribute) and c.func.attr.startswith("_norm_") and c.args and ast.unparse(c.args[0]) == prm]
                if not calls:
                    continue
                nn += 1
                o, nf = model.method(k, calls[0].func.attr, required=False)
                txt = ast.unparse(nf) if nf is not None else ""
                tolerant = prm in coerced or "norm_integer(" in txt or "int(" in txt or "_norm_integer" in txt or f"isinstance({prm}, str)" in txt
                rep.check(tolerant, R, f"{k[0]}:{k[1]}.{calls[0].func.attr}", f"`{prm}`: not in _coerce_scheme_options {sorted(coerced)} and {calls[0].func.attr}() does not convert text",
                          f"numeric option `{prm}` survives the INI round trip (coerced by the context or by its sanitiser)",
                          witness=f"CryptContext(['{h.name}'], {h.name}__{prm}=1): from_string(ctx.to_string()) raises ValueError -- the exported '1' is compared with integers")
    if nn < 4:
        rep.undecided(R, "<instance-count>", f"only {nn} numeric option sanitisers found, expected at least 4")
    # ... but skipping is lossy when the None *overrides* an inherited value (a narrower scope un-setting a broader one): the INI text then
    # describes another configuration. Only a spelling for None that the loader maps back (an empty value, a sentinel) keeps the decisions.
    if skips_none and not handles_none:
        loads_none = any(isinstance(n_, ast.Compare) and ("''" in ast.unparse(n_) or '""' in ast.unparse(n_)) and "value" in ast.unparse(n_)
                         for n_ in walk_no_nested(model.func(CTX, "_CryptConfig._norm_scheme_option")))
        if not loads_none:
            rep.violation(R, f"{CTX}:CryptContext._write_to_parser None override", "if v is None: continue  # an option set to None in a narrower scope is left out of the INI text",
                          "a None value that un-sets an inherited option (category or scheme scope over a broader one) has no INI spelling: it is dropped and the broader value applies again after the round trip",
                          witness="CryptContext(['sha256_crypt'], sha256_crypt__min_rounds=200000, admin__sha256_crypt__min_rounds=None): needs_update(<5000-round hash>, category='admin') is False, "
                                  "and True after from_string(to_string())")
    # bytes: several hashers take their `ident` as bytes (HasManyIdents._norm_ident); such an option needs an INI spelling too
    rv2 = model.func(CTX, "CryptContext._render_ini_value")
    ns = model.func(CTX, "_CryptConfig._norm_scheme_option")
    byt = any(isinstance(n_, ast.If) and "isinstance(value, bytes)" in ast.unparse(n_.test) and any(isinstance(x, ast.Assign) and ".decode(" in ast.unparse(x.value) for x in ast.walk(n_))
              for f_ in (rv2, ns) for n_ in walk_no_nested(f_))
    rep.check(byt, R, f"{CTX}:CryptContext._render_ini_value bytes", "bytes values decoded before rendering" if byt else "a bytes value reaches `assert isinstance(value, str)`",
              "a bytes-valued option is decoded to text before it is written (or when it is stored)",
              witness="CryptContext(['phpass'], phpass__ident=b'H').to_string() raises AssertionError although the context hashes, copies and exports to a dict")
    # coercers
    from . import shared as _shared3
    _shared3.rule_no_bool_coercer(model, rep, R)
    co = model.fold(model.unit(CTX), ast.Name(id="_coerce_scheme_options", ctx=ast.Load()))
    u = model.unit(CTX)
    v = u.assigns.get("_coerce_scheme_options")
    keys = [k.arg for k in v[0].keywords] if v and isinstance(v[0], ast.Call) else []
    rep.check(set(keys) >= {"min_rounds", "max_rounds", "default_rounds", "vary_rounds", "salt_size"}, R, site("_coerce_scheme_options"), str(keys),
              "string values of the numeric options are coerced on import")
    fn = model.func(CTX, "_coerce_vary_rounds")
    t = qtext(fn)
    rep.check("if value.endswith('%'):\n        return float(value.rstrip('%')) * 0.01" in t and "return int(value)" in t and "return float(value)" in t, R, site("_coerce_vary_rounds"),
              "percent / int / float", "vary_rounds text: percent -> fraction, integer text -> int, else float")
    # to_dict / to_string go through iter_config
    fn = model.func(CTX, "CryptContext.to_dict")
    rep.check("self._config.iter_config(resolve)" in qtext(fn) and "render_key(key), value" in qtext(fn), R, site("CryptContext.to_dict"), "iter_config + render_key", "dict export renders every config item")
    fn = model.func(CTX, "CryptContext._write_to_parser")
    t = qtext(fn)
    rep.check("for k, v in self._config.iter_config():" in t and "v = render_value(k, v)" in t and "k = render_key(k)" in t and "parser.set(section, k, v)" in t, R,
              site("CryptContext._write_to_parser"), "render value then key", "INI export renders value with the *unrendered* key tuple, then the key")
    fn = model.func(CTX, "CryptContext._parse_ini_stream")
    rep.check("return dict(p.items(section))" in qtext(fn), R, site("CryptContext._parse_ini_stream"), "dict(p.items(section))", "INI import reads the section")


def rule_case(model, rep):
    """category names are free-form strings and part of every key; ConfigParser lower-cases option names unless told otherwise"""
    R = "C10.d-key-value-codecs"
    unit = model.unit(CTX)
    sites = []
    for q, fn in unit.functions():
        for n in walk_no_nested(fn):
            if isinstance(n, ast.Assign) and isinstance(n.value, ast.Call) and ast.unparse(n.value.func) == "ConfigParser" and isinstance(n.targets[0], ast.Name):
                name = n.targets[0].id
                keeps = any(isinstance(x, ast.Assign) and ast.unparse(x.targets[0]) == f"{name}.optionxform" for x in walk_no_nested(fn))
                sites.append((q, name, keeps))
    if len(sites) < 2:
        rep.undecided(R, f"{CTX}:ConfigParser", f"only {len(sites)} ConfigParser instances found, expected 2 (writer and reader)")
    for q, name, keeps in sites:
        if keeps:
            rep.hold(R, f"{CTX}:{q} option case", "optionxform set: keys keep their case")
        else:
            rep.violation(R, f"{CTX}:{q} option case", f"{name} = ConfigParser()  # default optionxform lower-cases every key",
                          "keys are written to / read from INI text through a parser that lower-cases option names, but the category part of a key is a free-form, case-sensitive string",
                          witness="CryptContext(schemes=['sha256_crypt','md5_crypt'], Admin__context__default='md5_crypt'): after from_string(ctx.to_string()) "
                                  "default_scheme(category='Admin') is 'sha256_crypt' (the key came back as 'admin__context__default'); categories 'Admin' and 'admin' collapse")


def rule_lazy(model, rep):
    """a failed *first* load of a LazyCryptContext leaves it as it was: still unloaded, with its pending options intact"""
    R = "C10.e-lazy-first-load"
    fn = model.func(CTX, "LazyCryptContext._lazy_init")
    tries = [n for n in walk_no_nested(fn) if isinstance(n, ast.Try)]
    clears = [n for n in walk_no_nested(fn) if isinstance(n, ast.Assign) and ast.unparse(n.targets[0]) == "self._lazy_kwds" and isinstance(n.value, ast.Constant) and n.value.value is None]
    restores = [h for t in tries for h in t.handlers if any(isinstance(x, ast.Assign) and ast.unparse(x.targets[0]) == "self._lazy_kwds" and not (isinstance(x.value, ast.Constant) and x.value.value is None) for x in h.body)
                and any(isinstance(x, ast.Raise) and x.exc is None for x in h.body)]
    rep.check(len(clears) == 1, R, f"{CTX}:LazyCryptContext._lazy_init", f"{len(clears)} stores clearing the pending options", "the pending options are consumed once")
    rep.check(bool(restores), R, f"{CTX}:LazyCryptContext._lazy_init restore", "pending options are cleared before onload()/__init__ run and never restored when they raise",
              "when the first load raises, the pending options are put back (and the exception re-raised), so the context is still the unloaded lazy context",
              witness="LazyCryptContext(['sha256_crypt'], bogus_option=1): the first access raises KeyError; every later call raises AttributeError / "
                      "TypeError: 'NoneType' object is not callable -- onload is never retried")
    # "intact" includes the scheme list: a one-shot iterator (passlib.apps.ldap_context passes itertools.chain(list, generator)) that the failed
    # attempt consumed is empty -- or half empty -- on the retry, unless it was turned into a list in the pending options first
    unit = model.unit(CTX)
    mats = [a for a in walk_no_nested(fn) if isinstance(a, ast.Assign) and isinstance(a.targets[0], ast.Subscript) and ast.unparse(a.targets[0].slice) == "'schemes'"
            and isinstance(a.value, ast.Call) and ast.unparse(a.value.func) in ("list", "tuple") and unit.enclosing(a, ast.Try) is None]
    one_shot = []
    for un2, u2 in model.units.items():
        if not un2.startswith("passlib."):
            continue
        for c in ast.walk(u2.tree):
            if isinstance(c, ast.Call) and ast.unparse(c.func).split(".")[-1] == "LazyCryptContext" and c.args and not isinstance(c.args[0], (ast.List, ast.Tuple, ast.Name, ast.Constant)):
                one_shot.append(f"{un2}: LazyCryptContext({ast.unparse(c.args[0])[:40]}, ...)")
    rep.check(bool(mats) or not one_shot, R, f"{CTX}:LazyCryptContext._lazy_init schemes", "; ".join(one_shot) + ("  # restored as the same, consumed iterator" if one_shot and not mats else ""),
              "a scheme source that can be iterated only once is stored as a list before the first attempt, so a retry sees all of it",
              witness="make the first use of passlib.apps.ldap_context raise (a scheme whose module fails to import), repair the cause, use it again: it loads without its first three schemes, "
                      "hashes with ldap_salted_md5 and no longer identifies {SSHA} / {SSHA256} / {SSHA512} hashes")
    pops = [c for c in walk_no_nested(fn) if isinstance(c, ast.Call) and ast.unparse(c.func).endswith(".pop") and c.args and ast.unparse(c.args[0]) == "'onload'"]
    if pops:
        recv = ast.unparse(pops[0].func.value)
        copied = any(isinstance(n, ast.Assign) and ast.unparse(n.targets[0]) == recv and isinstance(n.value, ast.Call) and ast.unparse(n.value.func) in ("dict", f"{recv}.copy") for n in walk_no_nested(fn)) or \
            any(isinstance(n, ast.Assign) and ast.unparse(n.targets[0]) == recv and ast.unparse(n.value).endswith(".copy()") for n in walk_no_nested(fn))
        rep.check(copied, R, f"{CTX}:LazyCryptContext._lazy_init onload", f"{ast.unparse(pops[0])} mutates the stored options", "`onload` is popped from a copy, so a retry after a failure still has it")


def run(model, rep):
    rep.explanation = __doc__
    rep.assumptions = ["attribute assignment and dict.pop(k, None) cannot raise", "memoized_property.clear_cache(self) cannot raise"]
    rule_a(model, rep)
    rule_b(model, rep)
    rule_c(model, rep)
    rule_d(model, rep)
    rule_case(model, rep)
    # update() / copy(key=...) hand the old configuration and the new keywords to one option store: the slot a key names (bare or `all__`
    # spelling) must end up holding the last value given (rule shared with C05.f)
    from . import c05 as _c05
    from .shared import Renamed as _Ren
    _c05.rule_f(model, _Ren(rep, {"C05.f": "C10.f-option-slot-last-wins"}, "C10.x-"))
    rule_lazy(model, rep)
