"""
passlib.crypto._md4 -- fallback implementation of MD4

Helper implementing insecure and obsolete md4 algorithm.
used for NTHASH format, which is also insecure and broken,
since it's just md4(password).

Implementated based on rfc at http://www.faqs.org/rfcs/rfc1320.html

.. note::

    This shouldn't be imported directly, it's merely used conditionally
    by ``passlib.crypto.lookup_hash()`` when a native implementation can't be found.
"""

import struct
from binascii import hexlify

from passlib.utils.compat import bascii_to_str

# local
__all__ = ["md4"]


def F(x, y, z):
    return (x & y) | ((~x) & z)


def G(x, y, z):
    return (x & y) | (x & z) | (y & z)


##def H(x,y,z):
##    return x ^ y ^ z

MASK_32 = 2**32 - 1


class md4:
    """pep-247 compatible implementation of MD4 hash algorithm

    .. attribute:: digest_size

        size of md4 digest in bytes (16 bytes)

    .. method:: update

        update digest by appending additional content

    .. method:: copy

        create clone of digest object, including current state

    .. method:: digest

        return bytes representing md4 digest of current content

    .. method:: hexdigest

        return hexadecimal version of digest
    """

    # FIXME: make this follow hash object PEP better.
    # FIXME: this isn't threadsafe

    name = "md4"
    digest_size = digestsize = 16
    block_size = 64

    _count = 0  # number of 64-byte blocks processed so far (not including _buf)
    _state = None  # list of [a,b,c,d] 32 bit ints used as internal register
    _buf = (
        None  # data processed in 64 byte blocks, this holds leftover from last update
    )

    def __init__(self, content=None):
        self._count = 0
        self._state = [0x67452301, 0xEFCDAB89, 0x98BADCFE, 0x10325476]
        self._buf = b""
        if content:
            self.update(content)

    # round 1 table - [abcd k s]
    _round1 = [
        [0, 1, 2, 3, 0, 3],
        [3, 0, 1, 2, 1, 7],
        [2, 3, 0, 1, 2, 11],
        [1, 2, 3, 0, 3, 19],
        [0, 1, 2, 3, 4, 3],
        [3, 0, 1, 2, 5, 7],
        [2, 3, 0, 1, 6, 11],
        [1, 2, 3, 0, 7, 19],
        [0, 1, 2, 3, 8, 3],
        [3, 0, 1, 2, 9, 7],
        [2, 3, 0, 1, 10, 11],
        [1, 2, 3, 0, 11, 19],
        [0, 1, 2, 3, 12, 3],
        [3, 0, 1, 2, 13, 7],
        [2, 3, 0, 1, 14, 11],
        [1, 2, 3, 0, 15, 19],
    ]

    # round 2 table - [abcd k s]
    _round2 = [
        [0, 1, 2, 3, 0, 3],
        [3, 0, 1, 2, 4, 5],
        [2, 3, 0, 1, 8, 9],
        [1, 2, 3, 0, 12, 13],
        [0, 1, 2, 3, 1, 3],
        [3, 0, 1, 2, 5, 5],
        [2, 3, 0, 1, 9, 9],
        [1, 2, 3, 0, 13, 13],
        [0, 1, 2, 3, 2, 3],
        [3, 0, 1, 2, 6, 5],
        [2, 3, 0, 1, 10, 9],
        [1, 2, 3, 0, 14, 13],
        [0, 1, 2, 3, 3, 3],
        [3, 0, 1, 2, 7, 5],
        [2, 3, 0, 1, 11, 9],
        [1, 2, 3, 0, 15, 13],
    ]

    # round 3 table - [abcd k s]
    _round3 = [
        [0, 1, 2, 3, 0, 3],
        [3, 0, 1, 2, 8, 9],
        [2, 3, 0, 1, 4, 11],
        [1, 2, 3, 0, 12, 15],
        [0, 1, 2, 3, 2, 3],
        [3, 0, 1, 2, 10, 9],
        [2, 3, 0, 1, 6, 11],
        [1, 2, 3, 0, 14, 15],
        [0, 1, 2, 3, 1, 3],
        [3, 0, 1, 2, 9, 9],
        [2, 3, 0, 1, 5, 11],
        [1, 2, 3, 0, 13, 15],
        [0, 1, 2, 3, 3, 3],
        [3, 0, 1, 2, 11, 9],
        [2, 3, 0, 1, 7, 11],
        [1, 2, 3, 0, 15, 15],
    ]

    def _process(self, block):
        """process 64 byte block"""
        # unpack block into 16 32-bit ints
        X = struct.unpack("<16I", block)

        # clone state
        orig = self._state
        state = list(orig)

        # round 1 - F function - (x&y)|(~x & z)
        for a, b, c, d, k, s in self._round1:
            t = (state[a] + F(state[b], state[c], state[d]) + X[k]) & MASK_32
            state[a] = ((t << s) & MASK_32) + (t >> (32 - s))

        # round 2 - G function
        for a, b, c, d, k, s in self._round2:
            t = (
                state[a] + G(state[b], state[c], state[d]) + X[k] + 0x5A827999
            ) & MASK_32
            state[a] = ((t << s) & MASK_32) + (t >> (32 - s))

        # round 3 - H function - x ^ y ^ z
        for a, b, c, d, k, s in self._round3:
            t = (
                state[a] + (state[b] ^ state[c] ^ state[d]) + X[k] + 0x6ED9EBA1
            ) & MASK_32
            state[a] = ((t << s) & MASK_32) + (t >> (32 - s))

        # add back into original state
        for i in range(4):
            orig[i] = (orig[i] + state[i]) & MASK_32

    def update(self, content):
        if not isinstance(content, bytes):
            raise TypeError("expected bytes")
        buf = self._buf
        if buf:
            content = buf + content
        idx = 0
        end = len(content)
        while True:
            next = idx + 64
            if next <= end:
                self._process(content[idx:next])
                self._count += 1
                idx = next
            else:
                self._buf = content[idx:]
                return

    def copy(self):
        other = md4()
        other._count = self._count
        other._state = list(self._state)
        other._buf = self._buf
        return other

    def digest(self):
        # NOTE: backing up state so we can restore it after _process is called,
        #       in case object is updated again (this is only attr altered by this method)
        orig = list(self._state)

        # final block: buf + 0x80,
        # then 0x00 padding until congruent w/ 56 mod 64 bytes
        # then last 8 bytes = msg length in bits
        buf = self._buf
        msglen = self._count * 512 + len(buf) * 8
        block = (
            buf
            + b"\x80"
            + b"\x00" * ((119 - len(buf)) % 64)
            + struct.pack("<2I", msglen & MASK_32, (msglen >> 32) & MASK_32)
        )
        if len(block) == 128:
            self._process(block[:64])
            self._process(block[64:])
        else:
            assert len(block) == 64
            self._process(block)

        # render digest & restore un-finalized state
        out = struct.pack("<4I", *self._state)
        self._state = orig
        return out

    def hexdigest(self):
        return bascii_to_str(hexlify(self.digest()))
