from __future__ import annotations

from abc import ABC, abstractmethod

from passlib.utils.decor import deprecated_method

# local
__all__ = [
    "PasswordHash",
]


class PasswordHash(ABC):
    """This class describes an abstract interface which all password hashes
    in Passlib adhere to. Under Python 2.6 and up, this is an actual
    Abstract Base Class built using the :mod:`!abc` module.

    See the Passlib docs for full documentation.
    """

    # ---------------------------------------------------------------
    # general information
    # ---------------------------------------------------------------
    ##name
    ##setting_kwds
    ##context_kwds

    #: flag which indicates this hasher matches a "disabled" hash
    #: (e.g. unix_disabled, or django_disabled); and doesn't actually
    #: depend on the provided password.
    is_disabled = False

    #: Should be None, or a positive integer indicating hash
    #: doesn't support secrets larger than this value.
    #: Whether hash throws error or silently truncates secret
    #: depends on .truncate_error and .truncate_verify_reject flags below.
    #: NOTE: calls may treat as boolean, since value will never be 0.
    #: .. versionadded:: 1.7
    #: .. TODO: passlib 1.8: deprecate/rename this attr to "max_secret_size"?
    truncate_size: int | None = None

    # NOTE: these next two default to the optimistic "ideal",
    #       most hashes in passlib have to default to False
    #       for backward compat and/or expected behavior with existing hashes.

    #: If True, .hash() should throw a :exc:`~passlib.exc.PasswordSizeError` for
    #: any secrets larger than .truncate_size.  Many hashers default to False
    #: for historical / compatibility purposes, indicating they will silently
    #: truncate instead.  All such hashers SHOULD support changing
    #: the policy via ``.using(truncate_error=True)``.
    #: .. versionadded:: 1.7
    #: .. TODO: passlib 1.8: deprecate/rename this attr to "truncate_hash_error"?
    truncate_error = True

    #: If True, .verify() should reject secrets larger than max_password_size.
    #: Many hashers default to False for historical / compatibility purposes,
    #: indicating they will match on the truncated portion instead.
    #: .. versionadded:: 1.7.1
    truncate_verify_reject = True

    # ---------------------------------------------------------------
    # salt information -- if 'salt' in setting_kwds
    # ---------------------------------------------------------------
    ##min_salt_size
    ##max_salt_size
    ##default_salt_size
    ##salt_chars
    ##default_salt_chars

    # ---------------------------------------------------------------
    # rounds information -- if 'rounds' in setting_kwds
    # ---------------------------------------------------------------
    ##min_rounds
    ##max_rounds
    ##default_rounds
    ##rounds_cost

    # ---------------------------------------------------------------
    # encoding info -- if 'encoding' in context_kwds
    # ---------------------------------------------------------------
    ##default_encoding
    @classmethod
    @abstractmethod
    def hash(
        cls,
        secret,  # *
        **setting_and_context_kwds,
    ):  # pragma: no cover -- abstract method
        r"""
        Hash secret, returning result.
        Should handle generating salt, etc, and should return string
        containing identifier, salt & other configuration, as well as digest.

        :param \\*\\*settings_kwds:

            Pass in settings to customize configuration of resulting hash.

            .. deprecated:: 1.7

                Starting with Passlib 1.7, callers should no longer pass settings keywords
                (e.g. ``rounds`` or ``salt`` directly to :meth:`!hash`); should use
                ``.using(**settings).hash(secret)`` construction instead.

                Support will be removed in Passlib 2.0.

        :param \\*\\*context_kwds:

            Specific algorithms may require context-specific information (such as the user login).
        """
        # FIXME:  need stub for classes that define .encrypt() instead ...
        #         this should call .encrypt(), and check for recursion back to here.
        raise NotImplementedError("must be implemented by subclass")

    @deprecated_method(deprecated="1.7", removed="2.0", replacement=".hash()")
    @classmethod
    def encrypt(cls, *args, **kwds):
        """
        Legacy alias for :meth:`hash`.

        .. deprecated:: 1.7
            This method was renamed to :meth:`!hash` in version 1.7.
            This alias will be removed in version 2.0, and should only
            be used for compatibility with Passlib 1.3 - 1.6.
        """
        return cls.hash(*args, **kwds)

    # XXX: could provide default implementation which hands value to
    #      hash(), and then does constant-time comparision on the result
    #      (after making both are same string type)
    @classmethod
    @abstractmethod
    def verify(
        cls, secret, hash, **context_kwds
    ):  # pragma: no cover -- abstract method
        """verify secret against hash, returns True/False"""
        raise NotImplementedError("must be implemented by subclass")

    @classmethod
    @abstractmethod
    def using(cls, relaxed=False, **kwds):
        """
        Return another hasher object (typically a subclass of the current one),
        which integrates the configuration options specified by ``kwds``.
        This should *always* return a new object, even if no configuration options are changed.

        .. todo::

            document which options are accepted.

        :returns:
            typically returns a subclass for most hasher implementations.

        .. todo::

            add this method to main documentation.
        """
        raise NotImplementedError("must be implemented by subclass")

    @classmethod
    def needs_update(cls, hash, secret=None):
        """
        check if hash's configuration is outside desired bounds,
        or contains some other internal option which requires
        updating the password hash.

        :param hash:
            hash string to examine

        :param secret:
            optional secret known to have verified against the provided hash.
            (this is used by some hashes to detect legacy algorithm mistakes).

        :return:
            whether secret needs re-hashing.

        .. versionadded:: 1.7
        """
        # by default, always report that we don't need update
        return False

    @classmethod
    @abstractmethod
    def identify(cls, hash):  # pragma: no cover -- abstract method
        """check if hash belongs to this scheme, returns True/False"""
        raise NotImplementedError("must be implemented by subclass")

    @deprecated_method(deprecated="1.7", removed="2.0")
    @classmethod
    def genconfig(cls, **setting_kwds):  # pragma: no cover -- abstract method
        """
        compile settings into a configuration string for genhash()

        .. deprecated:: 1.7

            As of 1.7, this method is deprecated, and slated for complete removal in Passlib 2.0.

            For all known real-world uses, hashing a constant string
            should provide equivalent functionality.

            This deprecation may be reversed if a use-case presents itself in the mean time.
        """
        # NOTE: this fallback runs full hash alg, w/ whatever cost param is passed along.
        #       implementations (esp ones w/ variable cost) will want to subclass this
        #       with a constant-time implementation that just renders a config string.
        if cls.context_kwds:
            raise NotImplementedError("must be implemented by subclass")
        return cls.using(**setting_kwds).hash("")

    @deprecated_method(deprecated="1.7", removed="2.0")
    @classmethod
    def genhash(cls, secret, config, **context):
        """
        generated hash for secret, using settings from config/hash string

        .. deprecated:: 1.7

            As of 1.7, this method is deprecated, and slated for complete removal in Passlib 2.0.

            This deprecation may be reversed if a use-case presents itself in the mean time.
        """
        # XXX: if hashes reliably offered a .parse() method, could make a fallback for this.
        raise NotImplementedError("must be implemented by subclass")

    # the following entry points are used internally by passlib,
    # and aren't documented as part of the exposed interface.
    # they are subject to change between releases,
    # but are documented here so there's a list of them *somewhere*.

    # ---------------------------------------------------------------
    # extra metdata
    # ---------------------------------------------------------------

    #: this attribute shouldn't be used by hashers themselves,
    #: it's reserved for the CryptContext to track which hashers are deprecated.
    #: Note the context will only set this on objects it owns (and generated by .using()),
    #: and WONT set it on global objects.
    #: [added in 1.7]
    #: TODO: document this, or at least the use of testing for
    #:       'CryptContext().handler().deprecated'
    deprecated = False

    #: optionally present if hasher corresponds to format built into Django.
    #: this attribute (if not None) should be the Django 'algorithm' name.
    #: also indicates to passlib.ext.django that (when installed in django),
    #: django's native hasher should be used in preference to this one.
    ## django_name

    # ---------------------------------------------------------------
    # checksum information - defined for many hashes
    # ---------------------------------------------------------------
    ## checksum_chars
    ## checksum_size

    # ---------------------------------------------------------------
    # experimental methods
    # ---------------------------------------------------------------

    ##@classmethod
    ##def normhash(cls, hash):
    ##    """helper to clean up non-canonic instances of hash.
    ##    currently only provided by bcrypt() to fix an historical passlib issue.
    ##    """

    # experimental helper to parse hash into components.
    ##@classmethod
    ##def parsehash(cls, hash, checksum=True, sanitize=False):
    ##    """helper to parse hash into components, returns dict"""

    # experiment helper to estimate bitsize of different hashes,
    # implement for GenericHandler, but may be currently be off for some hashes.
    # want to expand this into a way to programmatically compare
    # "strengths" of different hashes and hash algorithms.
    # still needs to have some factor for estimate relative cost per round,
    # ala in the style of the scrypt whitepaper.
    ##@classmethod
    ##def bitsize(cls, **kwds):
    ##    """returns dict mapping component -> bits contributed.
    ##    components currently include checksum, salt, rounds.
    ##    """


class DisabledHash(PasswordHash):
    """
    extended disabled-hash methods; only need be present if .disabled = True
    """

    is_disabled = True

    @classmethod
    def disable(cls, hash=None):
        """
        return string representing a 'disabled' hash;
        optionally including previously enabled hash
        (this is up to the individual scheme).
        """
        # default behavior: ignore original hash, return standalone marker
        return cls.hash("")

    @classmethod
    def enable(cls, hash):
        """
        given a disabled-hash string,
        extract previously-enabled hash if one is present,
        otherwise raises ValueError
        """
        # default behavior: no way to restore original hash
        raise ValueError("cannot restore original hash")
