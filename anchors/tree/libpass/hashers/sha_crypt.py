from __future__ import annotations

import hashlib
import hmac
import secrets
from typing import TYPE_CHECKING, Callable

from libpass._utils.binary import B64_CHARS, h64_engine
from libpass._utils.bytes import StrOrBytes, as_bytes, as_str
from libpass._utils.str import repeat_string
from libpass._utils.validation import validate_rounds
from libpass.hashers.abc import PasswordHasher
from libpass.inspect.sha_crypt import (
    SHA256CryptInfo,
    SHA512CryptInfo,
    SHACryptInfo,
    inspect_sha_crypt,
)

if TYPE_CHECKING:
    from libpass._utils.protocols import HashLike, SHAFunc

__all__ = ["SHA256Hasher", "SHA512Hasher"]


#: characters a sha-crypt salt is made of (the hash64 alphabet)
_SALT_CHARS = frozenset(B64_CHARS)


def _gen_salt(size: int) -> str:
    return "".join(secrets.choice(B64_CHARS) for _ in range(size))


# map used to transpose bytes when encoding final sha256_crypt digest
_256_transpose_map = (
    20,
    10,
    0,
    11,
    1,
    21,
    2,
    22,
    12,
    23,
    13,
    3,
    14,
    4,
    24,
    5,
    25,
    15,
    26,
    16,
    6,
    17,
    7,
    27,
    8,
    28,
    18,
    29,
    19,
    9,
    30,
    31,
)
_512_transpose_map = (
    42,
    21,
    0,
    1,
    43,
    22,
    23,
    2,
    44,
    45,
    24,
    3,
    4,
    46,
    25,
    26,
    5,
    47,
    48,
    27,
    6,
    7,
    49,
    28,
    29,
    8,
    50,
    51,
    30,
    9,
    10,
    52,
    31,
    32,
    11,
    53,
    54,
    33,
    12,
    13,
    55,
    34,
    35,
    14,
    56,
    57,
    36,
    15,
    16,
    58,
    37,
    38,
    17,
    59,
    60,
    39,
    18,
    19,
    61,
    40,
    41,
    20,
    62,
    63,
)

_c_digest_offsets = (
    (0, 3),
    (5, 1),
    (5, 3),
    (1, 2),
    (5, 1),
    (5, 3),
    (1, 3),
    (4, 1),
    (5, 3),
    (1, 3),
    (5, 0),
    (5, 3),
    (1, 3),
    (5, 1),
    (4, 3),
    (1, 3),
    (5, 1),
    (5, 2),
    (1, 3),
    (5, 1),
    (5, 3),
)


def _sha_crypt(
    secret: bytes,
    salt: bytes,
    rounds: int,
    hash_method: Callable[[bytes], HashLike],
    transpose_map: tuple[int, ...],
) -> str:
    """perform raw sha256-crypt / sha512-crypt

    this function provides a pure-python implementation of the internals
    for the SHA256-Crypt and SHA512-Crypt algorithms; it doesn't
    handle any of the parsing/validation of the hash strings themselves.
    """

    # NOTE: the setup portion of this algorithm scales ~linearly in time
    #       with the size of the password, making it vulnerable to a DOS from
    #       unreasonably large inputs. the following code has some optimizations
    #       which would make things even worse, using O(pwd_len**2) memory
    #       when calculating digest P.
    #
    #       to mitigate these two issues: 1) this code switches to a
    #       O(pwd_len)-memory algorithm for passwords that are much larger
    #       than average, and 2) Passlib enforces a library-wide max limit on
    #       the size of passwords it will allow, to prevent this algorithm and
    #       others from being DOSed in this way (see passlib.exc.PasswordSizeError
    #       for details).

    secret_len = len(secret)
    initial = hash_method(secret + salt + secret).digest()

    # start out with pwd + salt
    sha = hash_method(secret + salt)
    sha.update(repeat_string(initial, secret_len))

    i = secret_len
    while i:
        sha.update(initial if i & 1 else secret)
        i >>= 1

    da = sha.digest()
    # Finish A

    if secret_len < 96:
        # this method is faster under python, but uses O(pwd_len**2) memory;
        # so we don't use it for larger passwords to avoid a potential DOS.
        dp = repeat_string(hash_method(secret * secret_len).digest(), secret_len)
    else:
        # this method is slower under python, but uses a fixed amount of memory.
        tmp_ctx = hash_method(secret)
        i = secret_len - 1
        while i:
            tmp_ctx.update(secret)
            i -= 1
        dp = repeat_string(tmp_ctx.digest(), secret_len)

    ds = hash_method(salt * (16 + da[0])).digest()[: len(salt)]

    # ===================================================================
    # digest C - for a variable number of rounds, combine A, S, and P
    #            digests in various ways; in order to burn CPU time.
    # ===================================================================

    # NOTE: the original SHA256/512-Crypt specification performs the C digest
    # calculation using the following loop:
    #
    ##dc = da
    ##i = 0
    ##while i < rounds:
    ##    tmp_ctx = hash_const(dp if i & 1 else dc)
    ##    if i % 3:
    ##        tmp_ctx.update(ds)
    ##    if i % 7:
    ##        tmp_ctx.update(dp)
    ##    tmp_ctx.update(dc if i & 1 else dp)
    ##    dc = tmp_ctx.digest()
    ##    i += 1
    #
    # The code Passlib uses (below) implements an equivalent algorithm,
    # it's just been heavily optimized to pre-calculate a large number
    # of things beforehand. It works off of a couple of observations
    # about the original algorithm:
    #
    # 1. each round is a combination of 'dc', 'ds', and 'dp'; determined
    #    by the whether 'i' a multiple of 2,3, and/or 7.
    # 2. since lcm(2,3,7)==42, the series of combinations will repeat
    #    every 42 rounds.
    # 3. even rounds 0-40 consist of 'hash(dc + round-specific-constant)';
    #    while odd rounds 1-41 consist of hash(round-specific-constant + dc)
    #
    # Using these observations, the following code...
    # * calculates the round-specific combination of ds & dp for each round 0-41
    # * runs through as many 42-round blocks as possible
    # * runs through as many pairs of rounds as possible for remaining rounds
    # * performs once last round if the total rounds should be odd.
    #
    # this cuts out a lot of the control overhead incurred when running the
    # original loop 40,000+ times in python, resulting in ~20% increase in
    # speed under CPython (though still 2x slower than glibc crypt)

    # prepare the 6 combinations of ds & dp which are needed
    # (order of 'perms' must match how _c_digest_offsets was generated)
    perms = [dp, dp + dp, dp + ds, dp + ds + dp, ds + dp, ds + dp + dp]

    # build up list of even-round & odd-round constants,
    # and store in 21-element list as (even,odd) pairs.
    data = [(perms[even], perms[odd]) for even, odd in _c_digest_offsets]

    # perform as many full 42-round blocks as possible
    dc = da
    blocks, tail = divmod(rounds, 42)
    while blocks:
        for even, odd in data:
            dc = hash_method(odd + hash_method(dc + even).digest()).digest()
        blocks -= 1

    # perform any leftover rounds
    if tail:
        # perform any pairs of rounds
        pairs = tail >> 1
        for even, odd in data[:pairs]:
            dc = hash_method(odd + hash_method(dc + even).digest()).digest()

        # if rounds was odd, do one last round (since we started at 0,
        # last round will be an even-numbered round)
        if tail & 1:
            dc = hash_method(dc + data[pairs][0]).digest()
    return h64_engine.encode_transposed_bytes(dc, transpose_map).decode("ascii")


class _ShaHasher(PasswordHasher):
    _DEFAULT_ROUNDS: int = 5000
    _transpose_map: tuple[int, ...]
    _inspect: Callable[[str], SHACryptInfo | None]
    _sha_func: SHAFunc
    _info_cls: type[SHACryptInfo]

    def __init__(self, rounds: int = 535_000) -> None:
        self._rounds = rounds
        validate_rounds(self._rounds, 1000, 999_999_999)

    def hash(self, secret: StrOrBytes, *, salt: StrOrBytes | None = None) -> str:
        salt = as_str(salt) if salt is not None else _gen_salt(16)
        if not 1 <= len(salt) <= 16 or not _SALT_CHARS.issuperset(salt):
            raise ValueError("salt must be 1 to 16 characters from [./0-9A-Za-z]")

        sha = _sha_crypt(
            secret=as_bytes(secret),
            salt=as_bytes(salt),
            rounds=self._rounds,
            hash_method=self._sha_func,
            transpose_map=self._transpose_map,
        )
        return self._info_cls(
            rounds=self._rounds,
            salt=salt,
            hash=as_str(sha),
        ).as_str()

    def verify(self, hash: StrOrBytes, secret: StrOrBytes) -> bool:
        info = self._inspect(as_str(hash))

        if info is None:
            return False
        hashed = _sha_crypt(
            secret=as_bytes(secret),
            salt=as_bytes(info.salt),
            rounds=info.rounds or self._DEFAULT_ROUNDS,
            hash_method=self._sha_func,
            transpose_map=self._transpose_map,
        )
        return hmac.compare_digest(info.hash, hashed)

    def identify(self, hash: StrOrBytes) -> bool:
        return self._inspect(as_str(hash)) is not None

    def needs_update(self, hash: StrOrBytes) -> bool:
        info = inspect_sha_crypt(hash=as_str(hash), cls=self._info_cls)
        if info is None:
            return True
        return (info.rounds or self._DEFAULT_ROUNDS) != self._rounds


class SHA256Hasher(_ShaHasher):
    _sha_func = hashlib.sha256
    _transpose_map = _256_transpose_map
    _info_cls = SHA256CryptInfo

    def _inspect(self, hash: str) -> SHA256CryptInfo | None:
        return inspect_sha_crypt(hash, cls=SHA256CryptInfo)


class SHA512Hasher(_ShaHasher):
    _sha_func = hashlib.sha512
    _transpose_map = _512_transpose_map
    _info_cls = SHA512CryptInfo

    def _inspect(self, hash: str) -> SHA512CryptInfo | None:
        return inspect_sha_crypt(hash, cls=SHA512CryptInfo)
