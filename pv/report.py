"""Obligations, verdicts, evidence, replay files, known-findings matching."""
from __future__ import annotations

import hashlib
import json
import os
import time

VERIF = os.path.dirname(os.path.dirname(os.path.abspath(__file__)))
KNOWN_FILE = os.path.join(VERIF, "known_findings.json")
EVIDENCE_DIR = os.environ.get("PV_EVIDENCE_DIR", os.path.join(VERIF, "evidence"))

HOLD, VIOLATION, KNOWN, UNDECIDED = "HOLD", "VIOLATION", "KNOWN-FINDING", "UNDECIDED"


class Report:
    def __init__(self, prop, tier="quick", quiet=False):
        self.prop, self.tier, self.quiet = prop, tier, quiet
        self.t0 = time.time()
        self.obl = []  # dicts: rule, site, verdict, detail, key
        self.counts = {}
        self.minimums = {}
        self.units = []
        self.extra = {}
        self.assumptions = []
        self.explanation = ""
        self.exhaustive = False
        self.level = "other"
        self.trusted_base = None
        try:
            self.known = json.load(open(KNOWN_FILE))
        except FileNotFoundError:
            self.known = {"known": [], "fixed": []}

    # -------------------------------------------------------------- recording
    def _add(self, rule, site, verdict, detail, construct=None, witness=None):
        key = f"{rule}|{site}|{construct if construct is not None else ''}"
        self.obl.append(dict(rule=rule, site=site, verdict=verdict, detail=detail, key=key,
                             construct=construct, witness=witness))
        self.counts[rule] = self.counts.get(rule, 0) + 1

    def hold(self, rule, site, detail=""):
        self._add(rule, site, HOLD, detail)

    def violation(self, rule, site, construct, detail, witness=None):
        """positive witness only: `construct` is the normalised offending construct"""
        self._add(rule, site, VIOLATION, detail, construct, witness)

    def undecided(self, rule, site, why):
        self._add(rule, site, UNDECIDED, why)

    def check(self, cond, rule, site, construct, detail, witness=None):
        if cond:
            self.hold(rule, site, detail)
        else:
            self.violation(rule, site, construct, detail, witness)
        return cond

    def minimum(self, rule, n):
        """rule must have matched at least n sites, else the run is analysis-broken"""
        self.minimums[rule] = n

    # -------------------------------------------------------------- finishing
    def finish(self):
        for rule, n in self.minimums.items():
            got = self.counts.get(rule, 0)
            if got < n:
                self.undecided(rule, "<instance-count>", f"rule matched {got} sites, expected at least {n}")
        known_keys = {k["key"]: k for k in self.known.get("known", []) if k.get("property") == self.prop}
        viol, known_hit, undec = [], [], []
        seen = set()
        for o in self.obl:
            if o["verdict"] == VIOLATION:
                if o["key"] in known_keys:
                    o["verdict"] = KNOWN
                    if o["key"] not in seen:
                        known_hit.append(o)
                elif o["key"] not in seen:
                    viol.append(o)
                seen.add(o["key"])
            elif o["verdict"] == UNDECIDED:
                undec.append(o)
        out = []
        for o in known_hit:
            out.append(f"KNOWN-FINDING: property={self.prop} {known_keys[o['key']].get('what', o['detail'])} [{o['key']}]")
        replay_dir = os.path.join(EVIDENCE_DIR, "replay")
        for o in viol:
            os.makedirs(replay_dir, exist_ok=True)
            h = hashlib.sha1(o["key"].encode()).hexdigest()[:10]
            path = os.path.join(replay_dir, f"{self.prop}-{h}.json")
            with open(path, "w") as fh:
                json.dump(dict(property=self.prop, rule=o["rule"], site=o["site"], construct=o["construct"],
                               detail=o["detail"], witness=o["witness"], key=o["key"]), fh, indent=1)
            out.append(f"  rule={o['rule']} site={o['site']}\n    construct: {o['construct']}\n    {o['detail']}"
                       + (f"\n    witness: {o['witness']}" if o["witness"] else ""))
            out.append(f"VIOLATION property={self.prop} replay={path}")
        for o in undec:
            out.append(f"ANALYSIS-ERROR property={self.prop} rule={o['rule']} site={o['site']} {o['detail']}")
        n_obl = len(self.obl)
        discharged = sum(1 for o in self.obl if o["verdict"] == HOLD)
        distinct = len({(o["rule"], o["site"], o["detail"]) for o in self.obl if o["verdict"] in (HOLD, KNOWN, VIOLATION)})
        samples = []
        per_rule = {}
        for o in self.obl:
            if per_rule.get(o["rule"], 0) < 2:
                per_rule[o["rule"]] = per_rule.get(o["rule"], 0) + 1
                samples.append(dict(rule=o["rule"], site=o["site"], verdict=o["verdict"], detail=str(o["detail"])[:300]))
        cov = dict(
            evaluations=max(n_obl, 1), distinct_nontrivial=distinct, obligations=n_obl, discharged=discharged,
            rule="one evaluation per (rule, site) obligation on the parsed tree; non-trivial = the rule's "
                 "construct was actually matched in the source (an obligation with nothing to look at is not "
                 "recorded); distinct by (rule, site, detail)",
            samples=samples[:60], explanation=self.explanation, exhaustive=self.exhaustive,
            rules={r: c for r, c in sorted(self.counts.items())}, units_parsed=len(self.units),
            known_findings=[o["key"] for o in known_hit], undecided=len(undec),
            checker_cmd=f"./check {self.prop} --tier {self.tier}",
            trusted_base=self.trusted_base or ["CPython ast/re._parser", "pv engine (/verif/pv)"],
        )
        cov.update(self.extra)
        ev = dict(property_id=self.prop, tier=self.tier, seed=int(os.environ.get("VERIF_SEED", "0") or 0),
                  level=self.level, coverage=cov, assumptions=self.assumptions,
                  wall_s=round(time.time() - self.t0, 3), violations=len(viol))
        os.makedirs(EVIDENCE_DIR, exist_ok=True)
        with open(os.path.join(EVIDENCE_DIR, f"{self.prop}.json"), "w") as fh:
            json.dump(ev, fh, indent=1, default=str)
        # a positive witness outranks 'could not decide' elsewhere: report the violation (exit 1), still printing the ANALYSIS-ERROR lines
        code = 1 if viol else (2 if undec else 0)
        if not self.quiet:
            print(f"[{self.prop}] tier={self.tier} obligations={n_obl} hold={discharged} violations={len(viol)} "
                  f"known={len(known_hit)} undecided={len(undec)} units={len(self.units)} wall={ev['wall_s']}s")
            for r, c in sorted(self.counts.items()):
                print(f"    {r}: {c} sites")
            for line in out:
                print(line)
        self.result = dict(code=code, violations=viol, known=known_hit, undecided=undec)
        return code
