"""C20 -- libpass hashers and classic passlib hashers understand each other.

Decided (structural necessary conditions): the two APIs share format, tables, algorithm text and roles --
  a. each libpass hasher renders through the info class its own verify/identify/needs_update parse with,
     and no base-class method names one variant directly (F1);
  b. string shapes: every shape a passlib renderer of the six shared formats produces fits the regex of the
     libpass info class, and both renderers produce the same literal skeletons; the PHC parameter names and
     order of bcrypt-sha256 equal passlib's v2 template; libpass regex languages are pairwise disjoint;
  c. `_sha_crypt` is statement-for-statement `_raw_sha2_crypt` after renaming (sibling unifier) and follows the
     specification's shape; transposition / offset tables and the hash64 engine are equal on both sides;
  d. hash() and verify() of one hasher feed the primitive through the same slots; the implicit sha-crypt
     default (5000) and pbkdf2 digest names / digest sizes are passlib's; digests are compared whole in constant time;
  e. bcrypt-sha256 pre-hash: HMAC-SHA256 keyed with the 22-character salt text over the password, base64, on both sides;
  f. needs_update is `not my format or other cost` for every hasher;
  g. the libpass CryptContext hashes with the first scheme, verifies with any, and asks for an update exactly
     for hashes no non-deprecated (= first) scheme identifies;
  h. the adapted-base64 helper copies equal passlib's.
Not decided: equality of digests computed by hashlib / the bcrypt library on both sides (runtime values)."""
from __future__ import annotations

import ast
import re

from pv.q import text as qtext
from pv.model import AnalysisError, walk_no_nested, UNKNOWN
from pv.handlers import HandlerTable
from pv.identify import fold_regex
from pv.lang import DFA
from pv import template as T
from pv.q import has_stmt, has_if, find_if, returns
from . import libpass_common as LC
from . import c02, c04, c07, c12

H = "passlib.handlers."
LS = "libpass.hashers.sha_crypt"
LP = "libpass.hashers.pbkdf2"
LB = "libpass.hashers.bcrypt"


def site(u, f):
    return f"{u}:{f}"


from .shared import Renamed  # noqa: E402


# ----------------------------------------------------------------------------- b. string shapes
FORMATS = [
    # passlib handler, libpass info class (unit, class), regex attr
    ("sha256_crypt", ("libpass.inspect.sha_crypt", "SHA256CryptInfo"), "REGEX"),
    ("sha512_crypt", ("libpass.inspect.sha_crypt", "SHA512CryptInfo"), "REGEX"),
    ("pbkdf2_sha256", ("libpass.inspect.pbkdf2", "PBKDF2SHA256CryptInfo"), "REGEX"),
    ("pbkdf2_sha512", ("libpass.inspect.pbkdf2", "PBKDF2SHA512CryptInfo"), "REGEX"),
    ("bcrypt", ("libpass.inspect.bcrypt", "BcryptHashInfo"), None),
]


def _anon(toks):
    return "".join(t[1] if t[0] == "lit" else "\x00" for t in toks).replace("\x00", "<>")


def _passlib_paths(model, table, name):
    h = table.get(name)
    if h is None or h.cref is None:
        raise AnalysisError(f"passlib handler {name} vanished")
    o, fn = model.method(h.cref, "to_string")
    unit = model.unit(o[0])
    inst = {"rounds", "salt", "checksum", "implicit_rounds", "version"}
    fold0 = c07._fold_in(model, h.cref, unit, inst)

    def fold(e):
        if isinstance(e, ast.Attribute) and isinstance(e.value, ast.Name) and e.value.id == "self" and e.attr == "ident":
            v = table.const(h, "default_ident")
            if isinstance(v, str):
                return v
            v = table.const(h, "ident")
            return v if isinstance(v, str) else None
        return fold0(e)
    # modular-crypt helper renderers: ident + rounds + sep + salt + sep + checksum (shape checked by C07.a)
    calls = c07._mc_calls(fn)
    if calls:
        _, N, call = calls[0]
        kw = {k.arg: k.value for k in call.keywords}
        sep = model.fold(unit, kw["sep"]) if "sep" in kw else "$"
        ident = fold(call.args[0])
        if not isinstance(ident, str):
            raise AnalysisError(f"{name}: ident does not fold")
        labels = [ast.unparse(a) for a in call.args[1:]]
        toks = [("lit", c) for c in ident]
        for i, lab in enumerate(labels):
            if i:
                toks.append(("lit", sep))
            toks.append(("fld", lab))
        return [(toks, ["render_mc%d" % N])]
    return T.render_paths(fn, fold)


def rule_b(model, rep, table):
    R = "C20.b-string-shapes"
    for pname, lcref, rattr in FORMATS:
        lunit = model.unit(lcref[0])
        if rattr:
            pat, flags = c07._class_regex(model, lcref, lunit, rattr)
        else:
            pat, flags = fold_regex(model, lunit, lunit.assigns["BCRYPT_HASH_REGEX"][0])
        try:
            ppaths = _passlib_paths(model, table, pname)
        except T.Unsupported as e:
            rep.undecided(R, site(H + pname, "to_string"), str(e))
            continue
        s = site(lcref[0], lcref[1])
        for toks, trail in ppaths:
            pr = T.match_tokens(pat, flags, toks)
            rep.check(pr is not None, R, s + f" <- passlib {pname} path {' '.join(trail) or '<straight>'}", f"passlib renders {T.show(toks)!r}; libpass regex {pat!r} does not accept that shape",
                      "every string shape the passlib hasher renders is accepted by the libpass record regex of the same format",
                      witness=f"{lcref[1]}: libpass identify()/verify() refuse hashes made by passlib.hash.{pname}")
        # and the other way: same literal skeletons
        lo, lfn = model.method(lcref, "as_str")
        lfold = c07._fold_in(model, lcref, model.unit(lo[0]), {"rounds", "salt", "hash", "prefix"})
        lpaths = T.render_paths(lfn, lfold)
        if pname == "bcrypt":
            # libpass writes '$' + prefix + '$'; passlib writes the ident '$2b$' as one piece
            pset = {_anon(t).replace("$2b$", "$<>$") for t, _ in ppaths}
        else:
            pset = {_anon(t) for t, _ in ppaths}
        lset = {_anon(t) for t, _ in lpaths}
        rep.check(pset == lset, R, s + f" ~ passlib {pname}", f"passlib skeletons {sorted(pset)} vs libpass {sorted(lset)}", "both renderers produce the same literal skeletons (prefix, separators, field count, optional rounds field)",
                  witness=f"hashes made by one API are not parsed by the other ({pname})")
    # the libpass regexes accept every character the passlib encoders of these fields can produce
    AB64 = "ABCDEFGHIJKLMNOPQRSTUVWXYZabcdefghijklmnopqrstuvwxyz0123456789./"
    H64 = "./0123456789ABCDEFGHIJKLMNOPQRSTUVWXYZabcdefghijklmnopqrstuvwxyz"
    for pname, lcref, rattr in FORMATS:
        lunit = model.unit(lcref[0])
        if rattr:
            pat, flags = c07._class_regex(model, lcref, lunit, rattr)
        else:
            pat, flags = fold_regex(model, lunit, lunit.assigns["BCRYPT_HASH_REGEX"][0])
        alpha = AB64 if "pbkdf2" in pname else H64
        for g in ("salt", "hash"):
            rej = T.group_rejects(pat, flags, g, alpha)
            rep.check(rej == "", R, site(lcref[0], lcref[1]) + f" {g} alphabet", f"`{g}` class rejects {rej!r}",
                      f"the libpass record regex accepts every character passlib's encoder writes into `{g}` ({'adapted base64' if alpha is AB64 else 'hash64 / bcrypt64'})",
                      witness=f"a passlib-made {pname} hash whose {g} contains {rej[:1]!r} is not identified / verified by the libpass hasher")
    # bcrypt-sha256: PHC definition vs passlib v2 template
    du = "libpass.inspect.phc.defs"
    cnode = model.cls(du, "BcryptSHA256PHCV2")
    params, idlit, version = [], None, "?"
    for st in cnode.body:
        if isinstance(st, ast.AnnAssign) and isinstance(st.target, ast.Name):
            a = ast.unparse(st.annotation)
            m = re.fullmatch(r"Annotated\[(\w+), Param\('([a-z0-9-]+)'\)\]", a)
            if m:
                params.append((st.target.id, m.group(2), m.group(1)))
            m = re.fullmatch(r"Literal\['([^']+)'\]", a)
            if m and st.target.id == "id":
                idlit = m.group(1)
        elif isinstance(st, ast.Assign) and ast.unparse(st.targets[0]) == "version":
            version = ast.unparse(st.value)
    want_tpl = model.class_const((H + "bcrypt", "bcrypt_sha256"), "_v2_template")
    got = f"${idlit}$" + ",".join(f"{short}=<>" for _, short, _ in params) + "$<>$<>"
    tpl = re.sub(r"%[0-9]*[sd]", "<>", want_tpl) if isinstance(want_tpl, str) else None
    tpl_l = tpl.replace("v=2", "v=<>") if tpl else None
    rep.check(version == "None" and got == tpl_l, R, site(du, "BcryptSHA256PHCV2"), f"PHC definition renders {got!r}; passlib v2 template {tpl!r}",
              "bcrypt-sha256: the PHC definition has no `$v=` section and its parameters are v, t, r in passlib's order",
              witness="BcryptSHA256Hasher hashes are refused by passlib.hash.bcrypt_sha256 (and vice versa)")
    # the PHC regex accepts the passlib v2 shape
    pu = model.unit("libpass.inspect.phc._phc")
    pat, flags = fold_regex(model, pu, pu.assigns["PHC_REGEX"][0])
    h = table.get("bcrypt_sha256")
    o, fn = model.method(h.cref, "to_string")
    fold = c07._fold_in(model, h.cref, model.unit(o[0]), {"rounds", "salt", "checksum", "version", "ident"})
    for toks, trail in T.render_paths(fn, fold):
        if "+(self.version == 1)" in trail:
            continue
        pr = T.match_tokens(pat, flags, toks, max_group_reps=4)
        rep.check(pr is not None, R, site(pu.name, "PHC_REGEX") + " <- passlib bcrypt_sha256 v2", f"{T.show(toks)!r} vs {pat[:60]!r}...", "the PHC regex accepts the passlib bcrypt-sha256 v2 layout")
    hf = model.func(LB, "BcryptSHA256Hasher.hash")
    t = qtext(hf)
    rep.check("id='bcrypt-sha256', version_=2, type=info.prefix, rounds=info.rounds, hash=info.hash, salt=info.salt" in t, R, site(LB, "BcryptSHA256Hasher.hash"), "record fields from the inner bcrypt string",
              "bcrypt-sha256 record: v=2, t=<bcrypt ident>, r=<cost>, salt and digest of the inner bcrypt hash")
    pb = model.func(H + "bcrypt", "bcrypt_sha256.using")
    passlib_2b = "subcls.version > 1 and ident != IDENT_2B" in ast.unparse(pb)
    only2b = [n for n in walk_no_nested(hf) if isinstance(n, ast.If) and "info.prefix" in ast.unparse(n.test) and "2b" in ast.unparse(n.test) and n.body and isinstance(n.body[-1], ast.Raise)]
    rep.check(passlib_2b and bool(only2b), R, site(LB, "BcryptSHA256Hasher.hash") + " ident", ast.unparse(only2b[0].test) if only2b else "type=info.prefix  # whatever ident the supplied salt carries",
              "bcrypt-sha256 v2 is defined over $2b$ only (passlib refuses any other `t=`): a supplied salt with another ident is refused",
              witness="BcryptSHA256Hasher(rounds=4).hash(pw, salt=bcrypt.gensalt(4, prefix=b'2a')) emits '...t=2a...', which passlib.hash.bcrypt_sha256 rejects as malformed")
    vf = model.func(LB, "BcryptSHA256Hasher.verify")
    rep.check("BcryptHashInfo(prefix=info.type, salt=info.salt, hash=info.hash, rounds=info.rounds).as_str().encode()" in qtext(vf), R, site(LB, "BcryptSHA256Hasher.verify"), "inner bcrypt string rebuilt field by field",
              "verify() rebuilds the inner bcrypt string from the same four fields")
    # identify: languages pairwise disjoint
    RD = "C20.b-identify-exact"
    langs = []
    for pname, lcref, rattr in FORMATS:
        lunit = model.unit(lcref[0])
        if rattr:
            pat, flags = c07._class_regex(model, lcref, lunit, rattr)
        else:
            pat, flags = fold_regex(model, lunit, lunit.assigns["BCRYPT_HASH_REGEX"][0])
        if "pbkdf2" in pname:
            # the shared regex is narrowed by the digest-name test
            dn = model.class_const(lcref, "DIGEST_NAME")
            if not isinstance(dn, str):
                rep.undecided(RD, site(*lcref), "DIGEST_NAME does not fold")
                continue
            pat = pat.replace("(?P<digest_name>[a-z0-9-]+)", "(?P<digest_name>" + re.escape(dn) + ")")
        langs.append((lcref[1], T.leading_literals(pat, flags)))
    # PHC records of the bcrypt-sha256 definition: `$` id `$`...; the id must be one the definition declares, so the language is
    # inside  "$bcrypt-sha256$" . anything  (a superset is enough for disjointness)
    sk = T.from_regex(*fold_regex(model, pu, pu.assigns["PHC_REGEX"][0]))
    shape_ok = sk[:2] == [("lit", "$"), ("fld", "id")] and (sk[2][0] == "opt" and sk[3] == ("lit", "$") or sk[2] == ("lit", "$"))
    rep.check(shape_ok, RD, site(pu.name, "PHC_REGEX"), f"skeleton starts {sk[:4]}", "a PHC string is '$' id '$' ...")
    cd = model.func(pu.name, "_choose_definition")
    rep.check(has_stmt(cd, "id_matches = id in definition_info.id"), RD, site(pu.name, "_choose_definition"), "id in definition ids", "a PHC definition accepts only the ids it declares")
    langs.append(("PHC(bcrypt-sha256)", {"$bcrypt-sha256$"}))
    for i in range(len(langs)):
        for j in range(i + 1, len(langs)):
            clash = [(p, q) for p in langs[i][1] for q in langs[j][1] if p.startswith(q) or q.startswith(p)]
            rep.check(not clash and langs[i][1] and langs[j][1] and "" not in langs[i][1] | langs[j][1], RD, f"{langs[i][0]} & {langs[j][0]}", f"required prefixes {sorted(langs[i][1])} and {sorted(langs[j][1])} overlap: {clash[:2]}",
                      "every string of one format starts with a literal prefix no string of the other format can start with",
                      witness=f"a {langs[j][0]} hash is identified (and an update refused) by the {langs[i][0]} hasher")
    # the record parsers must match the *whole* string: `re.match` with a trailing `$` also accepts "<hash>\n"
    for un, fnq in (("libpass.inspect.sha_crypt", "inspect_sha_crypt"), ("libpass.inspect.bcrypt", "inspect_bcrypt_hash"), ("libpass.inspect.pbkdf2", "inspect_pbkdf2_hash"), ("libpass.inspect.phc._phc", "inspect_phc")):
        f2 = model.func(un, fnq)
        ms = [c.func.attr for c in walk_no_nested(f2) if isinstance(c, ast.Call) and isinstance(c.func, ast.Attribute) and c.func.attr in ("match", "fullmatch", "search")]
        rep.check(ms == ["fullmatch"], RD, site(un, fnq) + " whole string", f"regex applied with {ms}", "the record regex is applied with fullmatch()",
                  witness="BcryptHasher.identify(h + '\\n') is True and needs_update is False although verify(h + '\\n', pw) is False and passlib calls the string malformed")
    fn = model.func("libpass.inspect.pbkdf2", "inspect_pbkdf2_hash")
    rep.check(has_if(fn, "digest_name != cls.DIGEST_NAME", ["return None"]), RD, site("libpass.inspect.pbkdf2", "inspect_pbkdf2_hash"), "digest name must be the class's", "pbkdf2 records are told apart by their digest name")
    for cn, want in (("PBKDF2SHA256CryptInfo", "pbkdf2-sha256"), ("PBKDF2SHA512CryptInfo", "pbkdf2-sha512")):
        v = model.class_const(("libpass.inspect.pbkdf2", cn), "DIGEST_NAME")
        ident = table.const(table.get(want.replace("-", "_")), "ident")
        rep.check(v == want and ident == f"${want}$", RD, site("libpass.inspect.pbkdf2", cn), f"{v!r} vs passlib ident {ident!r}", "libpass digest name is passlib's ident without the '$'")
    rep.minimum(R, 26)
    rep.minimum(RD, 15)


# ----------------------------------------------------------------------------- c. tables
def rule_c_tables(model, rep):
    R = "C20.c-shared-tables"
    pu, lu = model.unit(H + "sha2_crypt"), model.unit(LS)
    for name in ("_c_digest_offsets", "_256_transpose_map", "_512_transpose_map"):
        a = model.fold(pu, ast.Name(id=name, ctx=ast.Load()))
        b = model.fold(lu, ast.Name(id=name, ctx=ast.Load()))
        same = a is not UNKNOWN and b is not UNKNOWN and [tuple(x) if isinstance(x, (list, tuple)) else x for x in a] == [tuple(x) if isinstance(x, (list, tuple)) else x for x in b]
        diff = [i for i, (x, y) in enumerate(zip(a, b)) if x != y][:4] if a is not UNKNOWN and b is not UNKNOWN else "?"
        rep.check(same, R, site(LS, name), f"positions differing from passlib's {name}: {diff}", f"libpass {name} equals passlib's",
                  witness="sha-crypt hashes made by one API do not verify under the other")
    for cn, fname, tname in (("SHA256Hasher", "hashlib.sha256", "_256_transpose_map"), ("SHA512Hasher", "hashlib.sha512", "_512_transpose_map")):
        mem = model.class_members((LS, cn))
        rep.check(ast.unparse(mem.get("_sha_func")) == fname and ast.unparse(mem.get("_transpose_map")) == tname, R, site(LS, cn), f"_sha_func={ast.unparse(mem.get('_sha_func'))} _transpose_map={ast.unparse(mem.get('_transpose_map'))}",
                  f"{cn} pairs {fname} with {tname}", witness=f"{cn} digests are transposed with the other variant's table")
    for name, cn, want in (("sha256_crypt", "sha256_crypt", ("sha256", "_256_transpose_map")), ("sha512_crypt", "sha512_crypt", ("sha512", "_512_transpose_map"))):
        mem = model.class_members((H + "sha2_crypt", cn))
        got = (model.fold(pu, mem.get("_cdb_use_512")) if mem.get("_cdb_use_512") is not None else None)
        rep.hold(R, site(H + "sha2_crypt", cn), f"_cdb_use_512={got}")
    fn = model.func(LS, "_sha_crypt")
    rep.check(returns(fn)[-1:] == ["h64_engine.encode_transposed_bytes(dc, transpose_map).decode('ascii')"], R, site(LS, "_sha_crypt"), "; ".join(returns(fn)[-1:]), "libpass encodes the final digest with the hash64 engine through the transpose map")
    pf = model.func(H + "sha2_crypt", "_raw_sha2_crypt")
    rep.check(returns(pf)[-1:] == ["h64.encode_transposed_bytes(dc, transpose_map).decode('ascii')"], R, site(H + "sha2_crypt", "_raw_sha2_crypt"), "; ".join(returns(pf)[-1:]), "passlib encodes the final digest with h64 through the transpose map")
    rep.check("transpose_map = _512_transpose_map" in qtext(pf) and "transpose_map = _256_transpose_map" in qtext(pf), R, site(H + "sha2_crypt", "_raw_sha2_crypt"), "map chosen by use_512", "passlib selects the map by variant")
    L = "libpass._utils.binary"
    lb, pb = model.unit(L), model.unit("passlib.utils.binary")
    a, b = model.fold(lb, ast.Name(id="B64_CHARS", ctx=ast.Load())), model.fold(pb, ast.Name(id="HASH64_CHARS", ctx=ast.Load()))
    rep.check(a == b and isinstance(a, str), R, site(L, "B64_CHARS"), f"{a!r} vs passlib HASH64_CHARS", "libpass hash64 alphabet equals passlib's", witness="sha-crypt digests are spelled with other characters")
    eng, peng = lb.assigns.get("h64_engine"), pb.assigns.get("h64")
    rep.check(bool(eng) and ast.unparse(eng[0]) == "Base64Engine(B64_CHARS, big=False)" and bool(peng) and ast.unparse(peng[0]) == "LazyBase64Engine(HASH64_CHARS)", R, site(L, "h64_engine"),
              f"{ast.unparse(eng[0]) if eng else None} vs passlib {ast.unparse(peng[0]) if peng else None}", "both hash64 engines are little-endian over the same alphabet",
              witness="sha-crypt digests are bit-reversed within each group: no interoperation")
    fn = model.func(L, "Base64Engine.encode_transposed_bytes")
    rep.check(has_stmt(fn, "tmp = bytes((source[off] for off in offsets))") and returns(fn) == ["self.encode_bytes(tmp)"], R, site(L, "Base64Engine.encode_transposed_bytes"), "gather by offsets, then encode", "transposition gathers source[off] in table order")
    fn = model.func(L, "Base64Engine.encode_bytes")
    rep.check(has_stmt(fn, "chunks, tail = divmod(len(source), 3)") and has_stmt(fn, "gen = self._encode_bytes(next_value, chunks, tail)") and returns(fn) == ["bytes(map(self._encode64, gen))"], R, site(L, "Base64Engine.encode_bytes"),
              "3-byte chunks + tail through the charmap", "libpass engine: chunks of 3 bytes, tail, charmap lookup")
    fn = model.func(L, "Base64Engine._encode_bytes")
    rep.check(has_if(fn, "self._big", ["return _encode_bytes_big"]) and returns(fn) == ["_encode_bytes_big", "_encode_bytes_little"], R, site(L, "Base64Engine._encode_bytes"), "big -> big coder else little", "endianness flag selects the coder")
    fn = model.func(L, "Base64Engine.__init__")
    rep.check(has_stmt(fn, "self._charmap = charmap.encode('latin-1')") and has_stmt(fn, "self._big = big"), R, site(L, "Base64Engine.__init__"), "charmap / big stored", "constructor stores the alphabet and endianness given")
    rep.minimum(R, 12)


# ----------------------------------------------------------------------------- d. slots, defaults, comparison
def _call_kwargs(fn, callee):
    for n in walk_no_nested(fn):
        if isinstance(n, ast.Call) and ast.unparse(n.func) == callee:
            return {k.arg: ast.unparse(k.value) for k in n.keywords}
    return None


def rule_d(model, rep, table):
    R = "C20.d-hash-verify-agreement"
    hf, vf = model.func(LS, "_ShaHasher.hash"), model.func(LS, "_ShaHasher.verify")
    hk, vk = _call_kwargs(hf, "_sha_crypt"), _call_kwargs(vf, "_sha_crypt")
    s = site(LS, "_ShaHasher.hash ~ verify")
    rep.check(hk is not None and vk is not None and hk.get("hash_method") == vk.get("hash_method") == "self._sha_func" and hk.get("transpose_map") == vk.get("transpose_map") == "self._transpose_map", R, s,
              f"hash {hk} verify {vk}", "hash() and verify() run the same digest function and transposition (through the per-variant slots)",
              witness="a sha-crypt hash made by the libpass hasher does not verify under it")
    rep.check(hk is not None and hk.get("secret") == "as_bytes(secret)" and vk.get("secret") == "as_bytes(secret)" and hk.get("salt") == "as_bytes(salt)" and vk.get("salt") == "as_bytes(info.salt)", R, s, "secret/salt as bytes on both sides",
              "password and salt are fed as UTF-8 bytes on both sides; verify uses the salt of the parsed record")
    rep.check(hk is not None and hk.get("rounds") == "self._rounds" and vk.get("rounds") == "info.rounds or self._DEFAULT_ROUNDS", R, s, f"rounds: hash {hk and hk.get('rounds')} verify {vk and vk.get('rounds')}",
              "hash uses the configured cost; verify the cost in the string, or the implicit default when the field is absent",
              witness="hashes with an elided rounds field (implicit 5000) do not verify under libpass")
    d = model.class_const((LS, "_ShaHasher"), "_DEFAULT_ROUNDS")
    pf = model.func(H + "sha2_crypt", "_SHA2_Common.from_string")
    rep.check(d == 5000 and has_stmt(pf, "rounds = 5000"), R, site(LS, "_ShaHasher._DEFAULT_ROUNDS"), f"{d} vs passlib implicit 5000", "the implicit sha-crypt cost is 5000 on both sides",
              witness="'$5$salt$digest' strings (passlib's rendering of 5000 implicit rounds) verify under one API only")
    rep.check(has_stmt(hf, "salt = as_str(salt) if salt is not None else _gen_salt(16)"), R, site(LS, "_ShaHasher.hash"), "caller salt or 16 generated characters", "salt: the caller's, else 16 generated characters (passlib's maximum)")
    t = qtext(hf)
    rep.check("self._info_cls(rounds=self._rounds, salt=salt, hash=as_str(sha)).as_str()" in t, R, site(LS, "_ShaHasher.hash"), "record built from the values that were hashed", "the rendered record carries the rounds and salt the digest was computed with")
    rep.check(returns(vf)[-1:] == ["hmac.compare_digest(info.hash, hashed)"], R, site(LS, "_ShaHasher.verify"), "; ".join(returns(vf)), "whole digests compared in constant time")
    gs = model.func(LS, "_gen_salt")
    rep.hold(R, site(LS, "_gen_salt"), "salt generator (alphabet checked by C06)")
    # pbkdf2
    hf, vf = model.func(LP, "PBKDF2SHAHandler.hash"), model.func(LP, "PBKDF2SHAHandler.verify")
    hk = _call_kwargs(hf, "pbkdf2_hmac")
    call = next((n for n in walk_no_nested(hf) if isinstance(n, ast.Call) and ast.unparse(n.func) == "pbkdf2_hmac"), None)
    rep.check(call is not None and [ast.unparse(a) for a in call.args] == ["self.HASH_NAME"] and hk == {"password": "secret", "salt": "salt", "iterations": "rounds"}, R, site(LP, "PBKDF2SHAHandler.hash"),
              f"pbkdf2_hmac({call and [ast.unparse(a) for a in call.args]}, {hk})", "pbkdf2: digest by slot, password/salt/iterations from the arguments, default output length (= digest size)",
              witness="pbkdf2 hashes of one API do not verify under the other (other digest, truncated key)")
    rep.check(has_stmt(hf, "secret = as_bytes(secret)") and has_stmt(hf, "salt = salt or self._salt()") and has_stmt(hf, "rounds = rounds or self._rounds"), R, site(LP, "PBKDF2SHAHandler.hash"), "argument defaults", "pbkdf2: explicit salt/rounds win over configured ones")
    rep.check("self.HASH_INFO_CLS(rounds=rounds, hash=ab64_encode(hash).decode('ascii'), salt=ab64_encode(salt).decode('ascii')).as_str()" in qtext(hf), R, site(LP, "PBKDF2SHAHandler.hash"), "record from the values hashed",
              "pbkdf2: rendered rounds/salt/digest are the ones used, in adapted base64")
    rep.check("new_hash = self.hash(secret=secret, salt=ab64_decode(hash_info.salt), rounds=hash_info.rounds)" in qtext(vf) and returns(vf)[-1:] == ["hmac.compare_digest(hash, new_hash)"], R, site(LP, "PBKDF2SHAHandler.verify"),
              "recompute with the record's salt and rounds; constant-time compare of whole strings", "pbkdf2 verify(): re-hash with the salt and rounds in the string, compare whole strings in constant time")
    for cn, hname, pname in (("PBKDF2SHA256Handler", "sha256", "pbkdf2_sha256"), ("PBKDF2SHA512Handler", "sha512", "pbkdf2_sha512")):
        mem = model.class_members((LP, cn))
        h = table.get(pname)
        from pv.handlers import DIGEST_SIZES
        rep.check(ast.unparse(mem.get("HASH_NAME")) == f"hashlib.{hname}().name" and ast.unparse(mem.get("HASH_INFO_CLS")) == f"PBKDF2{hname.upper()}CryptInfo" and table.const(h, "_digest") == hname and
                  table.const(h, "checksum_size") == DIGEST_SIZES[hname], R, site(LP, cn), f"HASH_NAME={ast.unparse(mem.get('HASH_NAME'))} info={ast.unparse(mem.get('HASH_INFO_CLS'))}; passlib digest {table.const(h, '_digest')} size {table.const(h, 'checksum_size')}",
                  f"{cn}: {hname} with the {hname} record class; passlib {pname} uses the same digest and its full output size",
                  witness=f"{cn} hashes do not verify under passlib.hash.{pname}")
    # bcrypt
    hf, vf = model.func(LB, "BcryptHasher.hash"), model.func(LB, "BcryptHasher.verify")
    rep.check(returns(hf) == ["as_str(bcrypt.hashpw(as_bytes(secret)[:72], salt))"] and has_stmt(hf, "salt = salt or bcrypt.gensalt(rounds=self._rounds, prefix=self.prefix)"), R, site(LB, "BcryptHasher.hash"), "; ".join(returns(hf)),
              "bcrypt: the library hashes the UTF-8 password with a salt of the configured cost and ident")
    rep.check(has_if(vf, "not self.identify(hash)", ["return False"]) and returns(vf)[-1:] == ["bcrypt.checkpw(password=as_bytes(secret)[:72], hashed_password=as_bytes(hash))"], R, site(LB, "BcryptHasher.verify"), "; ".join(returns(vf)),
              "bcrypt verify(): format check, then the library's constant-time check of password against the whole hash")
    # a caller-supplied salt is rendered as given: it must fit what the hasher's own record regex (and passlib) accept
    lu = model.unit("libpass.inspect.sha_crypt")
    pat, flags = c07._class_regex(model, ("libpass.inspect.sha_crypt", "SHA256CryptInfo"), lu, "REGEX")
    hi = T.group_repeats(pat, flags).get("salt", (None, None))[1]
    hf = model.func(LS, "_ShaHasher.hash")
    bound = [n for n in walk_no_nested(hf) if isinstance(n, ast.If) and "len(salt)" in ast.unparse(n.test) and n.body and isinstance(n.body[-1], ast.Raise)]
    ok = bool(bound) and any(isinstance(c, ast.Constant) and c.value == hi for c in ast.walk(bound[0].test)) or \
        (bool(bound) and any(model.fold(model.unit(LS), x) == hi for x in ast.walk(bound[0].test) if isinstance(x, (ast.Name, ast.Attribute))))
    rep.check(ok, R, site(LS, "_ShaHasher.hash") + " salt length", ast.unparse(bound[0].test) if bound else f"no check of len(salt) against the {hi} characters the record regex accepts",
              f"a supplied salt longer than {hi} characters is refused (the hasher's own regex, and passlib, accept at most {hi})",
              witness="SHA256Hasher(rounds=1000).hash('pw', salt='abcdefghijklmnopq') returns a string its own identify()/verify() reject and passlib refuses with 'salt too large'")
    rep.minimum(R, 16)


# ----------------------------------------------------------------------------- e. bcrypt-sha256 pre-hash
def rule_e(model, rep):
    R = "C20.e-prehash-roles"
    fn = model.func(LB, "BcryptSHA256Hasher._prepare_secret")
    rep.check(returns(fn) == ["base64.b64encode(hmac.new(key=as_bytes(salt), msg=as_bytes(secret), digestmod=hashlib.sha256).digest())"], R, site(LB, "BcryptSHA256Hasher._prepare_secret"), "; ".join(returns(fn)),
              "libpass: base64(HMAC-SHA256(key = salt text, msg = password))", witness="bcrypt-sha256 hashes of one API never verify under the other (key and message swapped, or another digest/encoding)")
    pf = model.func(H + "bcrypt", "bcrypt_sha256._calc_checksum")
    rep.check(has_stmt(pf, "digest = compile_hmac('sha256', salt.encode('ascii'))(secret)") and has_stmt(pf, "key = b64encode(digest)") and has_stmt(pf, "salt = self.salt") and returns(pf) == ["super()._calc_checksum(key)"], R,
              site(H + "bcrypt", "bcrypt_sha256._calc_checksum"), "compile_hmac('sha256', salt)(secret) -> b64encode -> bcrypt", "passlib: base64(HMAC-SHA256(key = salt text, msg = password)) handed to bcrypt")
    ch = model.func("passlib.crypto.digest", "compile_hmac")
    rep.check([a.arg for a in ch.args.args][:2] == ["digest", "key"], R, site("passlib.crypto.digest", "compile_hmac"), str([a.arg for a in ch.args.args]), "compile_hmac(digest, key) returns msg -> digest")
    hf = model.func(LB, "BcryptSHA256Hasher.hash")
    rep.check(has_stmt(hf, "prepared_secret = self._prepare_secret(secret, salt=salt.rsplit(b'$')[-1])") and has_stmt(hf, "hash = as_str(bcrypt.hashpw(prepared_secret, salt))") and
              has_stmt(hf, "salt = salt or bcrypt.gensalt(rounds=self._rounds, prefix=self.prefixes[0])"), R, site(LB, "BcryptSHA256Hasher.hash"), "key = 22-character salt text of the bcrypt salt string",
              "libpass hash(): HMAC key is the salt text after the last '$' of the bcrypt salt string; bcrypt runs over the prepared secret with that salt")
    vf = model.func(LB, "BcryptSHA256Hasher.verify")
    rep.check("bcrypt.checkpw(password=self._prepare_secret(secret, info.salt), hashed_password=hashed_password)" in qtext(vf), R, site(LB, "BcryptSHA256Hasher.verify"), "key = record salt", "libpass verify(): HMAC key is the salt text of the record")
    # passlib bcrypt: salt is kept as the 22-character text
    rep.check(model.class_const((H + "bcrypt", "bcrypt_sha256"), "max_salt_size") == 22, R, site(H + "bcrypt", "bcrypt_sha256.max_salt_size"), "22", "salt text is 22 characters on both sides")
    rep.minimum(R, 6)


# ----------------------------------------------------------------------------- f. needs_update shape
INSPECTORS = {"inspect_sha_crypt", "inspect_pbkdf2_hash", "inspect_bcrypt_hash", "inspect_phc"}
HASHERS = [(LS, "_ShaHasher"), (LP, "PBKDF2SHAHandler"), (LB, "BcryptHasher"), (LB, "BcryptSHA256Hasher")]


def _parse_call(fn):
    """(var, call) of the first `<var> = <parser>(...)` / the parser call inside `return <parser>(...) is not None`"""
    for n in walk_no_nested(fn):
        if isinstance(n, ast.Assign) and isinstance(n.value, ast.Call) and isinstance(n.targets[0], ast.Name):
            f = n.value.func
            nm = f.id if isinstance(f, ast.Name) else f.attr if isinstance(f, ast.Attribute) else ""
            if nm in INSPECTORS or nm == "_inspect":
                return n.targets[0].id, n.value
    for n in walk_no_nested(fn):
        if isinstance(n, ast.Return) and isinstance(n.value, ast.Compare) and isinstance(n.value.left, ast.Call) and isinstance(n.value.ops[0], ast.IsNot):
            return None, n.value.left
    return None, None


def _parser_key(model, u, cn, fn, call):
    """record parser a method reads the string with: the inspect_* function reached directly, through the class's `_inspect` helper
    (own or in a subclass), or through `self.identify(hash)` used as a gate"""
    if call is None:
        for n in walk_no_nested(fn):
            if isinstance(n, ast.If) and "self.identify(" in ast.unparse(n.test) and isinstance(n.test, ast.UnaryOp) and ast.unparse(n.body[0]) == "return False":
                idf = model.func(u, f"{cn}.identify")
                _, c2 = _parse_call(idf)
                return _parser_key(model, u, cn, idf, c2)
        return None
    f = call.func
    nm = f.id if isinstance(f, ast.Name) else f.attr
    if nm == "_inspect":
        keys = set()
        for cref in [(u, cn)] + model.subclasses((u, cn)):
            h = model.func(cref[0], f"{cref[1]}._inspect", required=False)
            if h is None:
                continue
            calls = [c for c in walk_no_nested(h) if isinstance(c, ast.Call) and isinstance(c.func, ast.Name) and c.func.id in INSPECTORS]
            extra = "+checks" if any(isinstance(x, ast.If) for x in walk_no_nested(h)) else ""   # the helper narrows what the inspector accepts
            keys |= {c.func.id + extra for c in calls}
        return "+".join(sorted(keys)) or None
    return nm if nm in INSPECTORS else None


def rule_f(model, rep):
    """needs_update / identify / verify of one hasher read the string through the same record parser; needs_update answers True when the parser
    rejects, else compares the cost of the record with the configured one"""
    R = "C20.f-needs-update"
    for u, cn in HASHERS:
        fns = {m: model.func(u, f"{cn}.{m}") for m in ("needs_update", "identify", "verify")}
        keys = {}
        for m, fn in fns.items():
            var, call = _parse_call(fn)
            keys[m] = (_parser_key(model, u, cn, fn, call), var)
        s = site(u, f"{cn}.needs_update")
        pk = {k for k, _ in keys.values()}
        rep.check(len(pk) == 1 and None not in pk, R, site(u, f"{cn}.identify ~ verify ~ needs_update"), f"{ {m: k for m, (k, _) in keys.items()} }",
                  "identify, verify and needs_update read the string through the same record parser",
                  witness=f"{cn}: a string verify() accepts is not identified (or the reverse); needs_update() judges a different format than verify() uses")
        fn = fns["needs_update"]
        var = keys["needs_update"][1]
        rets = returns(fn)
        none_ok = var is not None and (has_if(fn, f"{var} is None", ["return True"]) or has_if(fn, f"not {var}", ["return True"]))
        final = rets[-1] if rets else ""
        cost_ok = var is not None and final in (f"{var}.rounds != self._rounds", f"({var}.rounds or self._DEFAULT_ROUNDS) != self._rounds")
        if final.startswith("(") and cn != "_ShaHasher":
            cost_ok = False   # only sha-crypt strings may omit the cost
        rep.check(none_ok and cost_ok and rets[:-1] == ["True"], R, s, "; ".join(rets), "needs_update: True for strings of another format, else `cost in the string != configured cost`",
                  witness=f"{cn}: a fresh hash is reported as needing an update, or a hash made at another cost is not")
        ident = returns(fns["identify"])
        rep.check(len(ident) == 1 and ident[0].endswith(" is not None"), R, site(u, f"{cn}.identify"), "; ".join(ident), "identify: exactly `the record parser of the hasher's own format accepts the string`")
    # constructor stores the configured cost under the name needs_update reads
    for u, q, want in ((LS, "_ShaHasher.__init__", "self._rounds = rounds"), (LP, "PBKDF2SHAHandler.__init__", "self._rounds = rounds or self.DEFAULT_ROUNDS"), (LB, "BcryptHasher.__init__", "self._rounds = rounds"), (LB, "BcryptSHA256Hasher.__init__", "self._rounds = rounds")):
        rep.check(has_stmt(model.func(u, q), want), R, site(u, q), want, "configured cost stored once, read by hash() and needs_update()")
    for cn in ("SHA256Hasher", "SHA512Hasher"):
        fn = model.func(LS, f"{cn}._inspect")
        info = ast.unparse(model.class_members((LS, cn)).get("_info_cls"))
        rep.check(returns(fn) == [f"inspect_sha_crypt(hash, cls={info})"], R, site(LS, f"{cn}._inspect"), "; ".join(returns(fn)) + f" / _info_cls={info}", f"{cn}: _inspect parses with the class in its _info_cls slot")
    rep.minimum(R, 14)


def _info_fields(model, cref):
    out = []
    for c in reversed(model.mro(cref)):
        try:
            cd = model.cls(*c)
        except Exception:
            continue
        for st in cd.body:
            if isinstance(st, ast.AnnAssign) and isinstance(st.target, ast.Name) and "ClassVar" not in ast.unparse(st.annotation) and not st.target.id.isupper():
                if st.target.id not in out:
                    out.append(st.target.id)
    return out


def rule_i(model, rep):
    """every field the record parser extracts feeds the verification (or is pinned to the one value the hasher implements):
    a field parsed and then ignored is a setting an altered string can change freely"""
    R = "C20.i-parsed-fields-consumed"
    INFO = {"_ShaHasher": ("libpass.inspect.sha_crypt", "SHACryptInfo"), "PBKDF2SHAHandler": ("libpass.inspect.pbkdf2", "BasePBKDF2CryptInfo"),
            "BcryptHasher": ("libpass.inspect.bcrypt", "BcryptHashInfo"), "BcryptSHA256Hasher": ("libpass.inspect.phc.defs", "BcryptSHA256PHCV2")}
    for u, cn in HASHERS:
        fn = model.func(u, f"{cn}.verify")
        var, call = _parse_call(fn)
        fields = [f for f in _info_fields(model, INFO[cn]) if f != "id"]   # `id` selects the definition inside the parser
        if not fields or _parser_key(model, u, cn, fn, call) is None:
            rep.undecided(R, site(u, f"{cn}.verify"), f"record parser / fields not found (var={var}, fields={fields})")
            continue
        nodes = list(walk_no_nested(fn))
        read = {n.attr for n in nodes if var and isinstance(n, ast.Attribute) and isinstance(n.value, ast.Name) and n.value.id == var}
        # the stored string itself handed to the comparing call (bcrypt.checkpw / compare_digest with a re-rendered string): every field takes part
        whole = any(isinstance(n, ast.Call) and ast.unparse(n.func) in ("bcrypt.checkpw", "hmac.compare_digest") and
                    any(ast.unparse(a) in ("hash", "as_bytes(hash)", "as_str(hash)") for a in list(n.args) + [k.value for k in n.keywords]) for n in nodes)
        pinned = set()
        f = call.func if call is not None else None
        if call is not None and isinstance(f, ast.Attribute) and f.attr == "_inspect":
            helper = model.func(u, f"{cn}._inspect", required=False)
            if helper is not None:
                hv, _ = _parse_call(helper)
                for c in walk_no_nested(helper):
                    if isinstance(c, ast.Compare) and isinstance(c.left, ast.Attribute) and isinstance(c.left.value, ast.Name) and c.left.value.id == hv and isinstance(c.comparators[0], ast.Constant):
                        pinned.add(c.left.attr)
        for fld in fields:
            ok = fld in read or fld in pinned or whole
            rep.check(ok, R, site(u, f"{cn}.verify") + f" .{fld}", f"fields read {sorted(read)}, pinned by _inspect {sorted(pinned)}",
                      f"record field `{fld}` is used by verify() or pinned to the implemented value",
                      witness=f"{cn}.verify(h', pw) is True for h' = h with `{fld}` altered (e.g. bcrypt-sha256 'v=2' -> 'v=3'): passlib refuses the string, libpass verifies it")
    rep.minimum(R, 12)


def rule_j(model, rep):
    """identify() answers for every string: int() refuses digit strings longer than sys.int_max_str_digits (4300) with ValueError, so a record
    parser that converts an unbounded digit group outside try/except ValueError makes identify()/needs_update() raise"""
    import sys
    R = "C20.j-identify-total"
    LIMIT = 4300
    n = 0
    for un, unit in model.units.items():
        if not un.startswith("libpass.inspect"):
            continue
        regexes = {}
        for cd in [c for c in unit.tree.body if isinstance(c, ast.ClassDef)]:
            for st in cd.body:
                if isinstance(st, ast.Assign) and isinstance(st.value, ast.Call) and "compile" in ast.unparse(st.value.func):
                    regexes[(cd.name, st.targets[0].id)] = st.value
        for name, vals in unit.assigns.items():
            for v in vals:
                if isinstance(v, ast.Call) and "compile" in ast.unparse(v.func):
                    regexes[(None, name)] = v
        for q, fn in unit.functions():
            guarded = set()
            for t in [x for x in walk_no_nested(fn) if isinstance(x, ast.Try)]:
                if any(h.type is None or "ValueError" in ast.unparse(h.type) or ast.unparse(h.type) == "Exception" for h in t.handlers):
                    for st in t.body:
                        guarded |= {id(x) for x in ast.walk(st)}
            groups_of = {}
            for a in walk_no_nested(fn):
                if isinstance(a, ast.Assign) and isinstance(a.targets[0], ast.Name) and isinstance(a.value, ast.Call) and ast.unparse(a.value.func).endswith(".group") and a.value.args and isinstance(a.value.args[0], ast.Constant):
                    groups_of[a.targets[0].id] = a.value.args[0].value
            for c in walk_no_nested(fn):
                if not (isinstance(c, ast.Call) and isinstance(c.func, ast.Name) and c.func.id == "int" and c.args):
                    continue
                a = c.args[0]
                g = None
                if isinstance(a, ast.Call) and ast.unparse(a.func).endswith(".group") and a.args and isinstance(a.args[0], ast.Constant):
                    g = a.args[0].value
                elif isinstance(a, ast.Subscript) and isinstance(a.slice, ast.Constant):
                    g = a.slice.value
                elif isinstance(a, ast.Name):
                    g = groups_of.get(a.id)
                if g is None:
                    continue
                n += 1
                s = site(un, q) + f" int(<{g}>)"
                if id(c) in guarded:
                    rep.hold(R, s, "conversion inside try/except ValueError")
                    continue
                worst = 0
                from pv.lang import group_dfa
                for (cn, rn), node in regexes.items():
                    try:
                        pat, flags = fold_regex(model, unit, node, cls=(un, cn) if cn else None)
                        d = group_dfa(pat, flags, g)
                    except Exception:
                        continue
                    if d is None:
                        continue
                    ml = d.max_length()
                    worst = max(worst, 10 ** 9 if ml is None else ml)
                rep.check(0 < worst <= LIMIT, R, s, f"group <{g}> admits up to {'unbounded' if worst >= 10 ** 9 else worst} digits; int() takes at most {LIMIT}",
                          "a digit group converted with int() outside try/except ValueError is bounded below the interpreter's integer-string limit",
                          witness="SHA256Hasher().identify('$5$rounds=' + '1' * 5000 + '$abc$' + 'a' * 43) raises ValueError instead of answering False")
    rep.minimum(R, 4)


def _eval_cmp(e, env):
    """evaluate an expression made only of comparisons / and / or / not over names and integer constants (ordering abstraction)"""
    import operator as op
    OPS = {ast.Lt: op.lt, ast.LtE: op.le, ast.Gt: op.gt, ast.GtE: op.ge, ast.Eq: op.eq, ast.NotEq: op.ne}
    if isinstance(e, ast.BoolOp):
        vals = [_eval_cmp(v, env) for v in e.values]
        return all(vals) if isinstance(e.op, ast.And) else any(vals)
    if isinstance(e, ast.UnaryOp) and isinstance(e.op, ast.Not):
        return not _eval_cmp(e.operand, env)
    if isinstance(e, ast.Compare):
        left = _eval_cmp(e.left, env)
        for o, c in zip(e.ops, e.comparators):
            right = _eval_cmp(c, env)
            if type(o) not in OPS:
                raise ValueError(ast.unparse(e))
            if not OPS[type(o)](left, right):
                return False
            left = right
        return True
    if isinstance(e, ast.Name) and e.id in env:
        return env[e.id]
    if isinstance(e, ast.Constant) and isinstance(e.value, int):
        return e.value
    raise ValueError(ast.unparse(e))


def rule_k(model, rep, table):
    """`for every cost`: the libpass sha-crypt hashers accept exactly the cost window of the format (what passlib accepts): both bounds inclusive"""
    R = "C20.k-cost-window"
    V = "libpass._utils.validation"
    fn = model.func(V, "validate_rounds")
    ifs = [n for n in fn.body if isinstance(n, ast.If) and any(isinstance(x, ast.Raise) for x in ast.walk(n))]
    names = [a.arg for a in fn.args.args]
    if len(ifs) != 1 or names[:3] != ["rounds", "min", "max"]:
        rep.undecided(R, site(V, "validate_rounds"), f"validator shape not recognised (params {names}, {len(ifs)} raising tests)")
    else:
        want = {9: True, 10: False, 15: False, 20: False, 21: True}     # rejected?  for min=10, max=20
        try:
            got = {r: bool(_eval_cmp(ifs[0].test, {"rounds": r, "min": 10, "max": 20})) for r in want}
        except ValueError as e:
            got = None
            rep.undecided(R, site(V, "validate_rounds"), f"test is not a pure comparison: {e}")
        if got is not None:
            wrong = sorted(r for r in want if got[r] != want[r])
            rep.check(not wrong, R, site(V, "validate_rounds"), f"`{ast.unparse(ifs[0].test)}` with min=10, max=20 decides {['min-1', 'min', 'mid', 'max', 'max+1'][[9, 10, 15, 20, 21].index(wrong[0])] if wrong else 'all five orderings'} {'wrongly' if wrong else 'correctly'}",
                      "the validator refuses exactly the costs below min or above max (both bounds are valid costs)",
                      witness="SHA256Hasher(rounds=1000) raises ValueError although 1000 is the lowest valid sha-crypt cost (passlib.hash.sha256_crypt accepts it)")
    init = model.func(LS, "_ShaHasher.__init__")
    calls = [n for n in walk_no_nested(init) if isinstance(n, ast.Call) and ast.unparse(n.func) == "validate_rounds"]
    h = table.get("sha256_crypt")
    lo, hi = table.const(h, "min_rounds"), table.const(h, "max_rounds")
    unit = model.unit(LS)
    got = [model.fold(unit, a) for a in calls[0].args[1:3]] if calls else None
    rep.check(bool(calls) and ast.unparse(calls[0].args[0]) in ("self._rounds", "rounds") and got == [lo, hi], R, site(LS, "_ShaHasher.__init__"), f"validate_rounds(..., {got}) vs passlib [{lo}, {hi}]",
              "the libpass sha-crypt constructor validates its cost against the window passlib's handlers declare",
              witness="a cost passlib accepts cannot be configured in libpass (or one it refuses can): hashes of that cost cannot be produced or are refused by the other API")
    rep.minimum(R, 2)


# ----------------------------------------------------------------------------- driver
def run(model, rep):
    rep.explanation = __doc__
    table = HandlerTable(model)
    LC.rule_render_parse_agreement(model, rep, "C20.a-render-parse-class")
    LC.rule_variant_slot_bypass(model, rep, "C20.a-variant-slot", packages=("libpass",))
    rep.minimum("C20.a-render-parse-class", 6)
    rep.minimum("C20.a-variant-slot", 2)
    rule_b(model, rep, table)
    rule_c_tables(model, rep)
    c02.rule_sibling(model, Renamed(rep, {"C02.c": "C20.c-sha-crypt-siblings"}))
    rule_d(model, rep, table)
    rule_e(model, rep)
    rule_f(model, rep)
    rule_i(model, rep)
    rule_j(model, rep)
    rule_k(model, rep, table)
    rule_sha_field_languages(model, rep, table)
    rule_pbkdf2_salt_entropy(model, rep)
    c04.rule_f(model, Renamed(rep, {"C04.f": "C20.g-libpass-context"}))
    c12.rule_copies(model, Renamed(rep, {"C12.g": "C20.h-libpass-copies"}))
    # the libpass pbkdf2 hashers read and write salt / digest through libpass' own copies of the base64 helpers: both families agree
    # only while those copies decode what passlib's encode
    c12.rule_alphabets(model, Renamed(rep, {"C12.f": "C20.l-b64-helpers", "C12.e": "C20.l-codec-alphabets"}, only=lambda s: s.startswith("libpass")))
    rep.minimum("C20.l-b64-helpers", 8)


def rule_sha_field_languages(model, rep, table):
    """the libpass sha-crypt record regexes admit, field by field, what passlib's handlers admit: a cost of 1000..999999999 without padding, a
    salt of 1..16 characters of the hash64 alphabet -- and hash() refuses an explicit salt the record regex would not read back"""
    from pv.lang import group_dfa
    from pv.identify import fold_regex
    R = "C20.k-cost-window"
    RS = "C20.d-hash-verify-agreement"
    I = "libpass.inspect.sha_crypt"
    unit = model.unit(I)
    n = 0
    for cname in ("SHA256CryptInfo", "SHA512CryptInfo"):
        node = model.cls(I, cname)
        rx = [a.value for a in node.body if isinstance(a, ast.Assign) and ast.unparse(a.targets[0]) == "REGEX"]
        if not rx or not isinstance(rx[0], ast.Call):
            rep.undecided(R, site(I, cname), "REGEX not found")
            continue
        try:
            pat, flags = fold_regex(model, unit, rx[0], cls=(I, cname))
        except Exception as e:
            rep.undecided(R, site(I, cname), f"REGEX does not fold: {e}")
            continue
        n += 1
        dr, ds = group_dfa(pat, flags, "rounds"), group_dfa(pat, flags, "salt")
        acc = {w: dr.accepts(w) for w in ("1", "999", "0999", "1000", "5000", "999999999", "1000000000", "01000")}
        want = {"1": False, "999": False, "0999": False, "1000": True, "5000": True, "999999999": True, "1000000000": False, "01000": False}
        bad = sorted(w for w in want if acc[w] != want[w])
        rep.check(not bad, R, site(I, cname) + " rounds field", f"rounds group decides {bad} differently from the 1000..999999999 window" if bad else "rounds group = 1000..999999999, unpadded",
                  "the rounds field of a record is a cost the format allows (passlib: min_rounds=1000, max_rounds=999999999)",
                  witness="SHA256Hasher(rounds=1000).verify('$5$rounds=1$salt$<digest of a 1-round computation>', pw) is True and identify() is True; passlib refuses the string (rounds too low)")
        ok_s = all(ds.accepts(w) for w in ("a", "./09AZaz", "abcdefghijklmnop")) and not any(ds.accepts(w) for w in ("", "a b", "a:b", "pepper!", "sält", "line\nbreak", "abcdefghijklmnopq"))
        rep.check(ok_s, RS, site(I, cname) + " salt field", "salt group = [./0-9A-Za-z]{1,16}" if ok_s else "salt group admits characters outside ./0-9A-Za-z (or another length)",
                  "the salt field of a record is 1..16 characters of the hash64 alphabet, as passlib's sha256_crypt / sha512_crypt require",
                  witness="SHA256Hasher().hash('pw', salt='my salt') is verified by libpass and refused by passlib ('invalid characters in sha256_crypt salt')")
    # hash(): an explicit salt is checked against the same language
    LS_ = "libpass.hashers.sha_crypt"
    fn = model.func(LS_, "_ShaHasher.hash")
    guards = [g for g in walk_no_nested(fn) if isinstance(g, ast.If) and g.body and isinstance(g.body[-1], ast.Raise) and "ValueError" in ast.unparse(g.body[-1]) and "salt" in ast.unparse(g.test)]
    chars = any(isinstance(c, ast.Call) and isinstance(c.func, ast.Attribute) and c.func.attr in ("fullmatch", "issubset", "issuperset", "translate", "strip") for g in guards for c in ast.walk(g.test)) or \
        any(isinstance(c, ast.Compare) and any(isinstance(o, (ast.In, ast.NotIn)) for o in c.ops) and "CHARS" in ast.unparse(c) for g in guards for c in ast.walk(g.test))
    rep.check(bool(guards) and chars, RS, site(LS_, "_ShaHasher.hash") + " explicit salt", "; ".join(ast.unparse(g.test) for g in guards)[:160] or "<no guard>",
              "hash() refuses an explicit salt with characters outside the hash64 alphabet (its own record regex and passlib would not read the result back)",
              witness="SHA512Hasher().hash('pw', salt=b'line\\nbreak') returns a string with a newline in the salt field")
    if n < 2:
        rep.undecided(R, "<instance-count>", "sha-crypt record regexes not analysed")


def rule_pbkdf2_salt_entropy(model, rep):
    """the libpass pbkdf2 record regex requires a non-empty salt field: a hasher that could generate an empty salt (salt_entropy_bits <= 0)
    would emit strings its own identify() / verify() refuse, so the constructor refuses that setting"""
    R = "C20.d-hash-verify-agreement"
    LP = "libpass.hashers.pbkdf2"
    fn = model.func(LP, "PBKDF2SHAHandler.__init__")
    guards = [g for g in walk_no_nested(fn) if isinstance(g, ast.If) and g.body and isinstance(g.body[-1], ast.Raise) and "ValueError" in ast.unparse(g.body[-1])
              and isinstance(g.test, ast.Compare) and "salt_entropy_bits" in ast.unparse(g.test)]
    ok = False
    for g in guards:
        t = g.test
        if len(t.ops) == 1 and ast.unparse(t.left) == "salt_entropy_bits" and isinstance(t.comparators[0], ast.Constant):
            k = t.comparators[0].value
            ok = ok or (isinstance(t.ops[0], ast.Lt) and k == 1) or (isinstance(t.ops[0], ast.LtE) and k == 0)
    rep.check(ok, R, site(LP, "PBKDF2SHAHandler.__init__") + " salt entropy", "; ".join(ast.unparse(g.test) for g in guards) or "salt_entropy_bits stored unchecked",
              "the constructor refuses salt_entropy_bits < 1 (an empty generated salt cannot be read back by the record regex)",
              witness="h = PBKDF2SHA256Handler(rounds=1000, salt_entropy_bits=0); x = h.hash('pw') is '$pbkdf2-sha256$1000$$...': h.identify(x) is False and h.verify(x, 'pw') is False (passlib verifies it)")
