#!/venv/bin/python
"""Run the pinned baseline command of /root/.vp/BASELINE.json (guard OFF) and compare the
passing set with BASELINE.stable_pass.  Exit 0 iff every stable_pass test still passes.
usage: baseline.py [repo_dir]"""
import json, os, subprocess, sys, tempfile
import xml.etree.ElementTree as ET

args = [a for a in sys.argv[1:] if not a.startswith("-")]
repo = args[0] if args else "/repo"
base = json.load(open("/root/.vp/BASELINE.json"))
fd, xml = tempfile.mkstemp(suffix=".junit.xml")
os.close(fd)
env = dict(os.environ)
env.pop("THIRVONDUKR_PASSLIB_VERIF", None)
cmd = ["/venv/bin/python", "-m", "pytest", "-ra", "-q", "-p", "no:cacheprovider", "--timeout=900",
       "--continue-on-collection-errors", "--junitxml=" + xml]
p = subprocess.run(cmd, cwd=repo, env=env, stdout=subprocess.PIPE, stderr=subprocess.STDOUT, text=True)
tail = p.stdout.strip().splitlines()[-1:] 
passed = set()
failed = set()
for tc in ET.parse(xml).getroot().iter("testcase"):
    tid = tc.get("classname", "") + "::" + tc.get("name", "")
    bad = [c.tag for c in tc if c.tag in ("failure", "error", "skipped")]
    (failed if bad else passed).add(tid)
os.unlink(xml)
stable = set(base["stable_pass"])
missing = sorted(stable - passed)
print("pytest:", *tail)
print("passed=%d failed/skipped=%d stable_pass=%d missing_from_stable=%d new_pass=%d" % (
    len(passed), len(failed), len(stable), len(missing), len(passed - stable)))
for m in missing[:40]:
    print("  MISSING", m)
newfail = sorted(t for t in failed if t not in set(base.get("always_fail", [])) )
print("non-baseline failing/skipped:", len(newfail))
if "-v" in sys.argv:
    for t in newfail: print("  ", t)
sys.exit(1 if missing else 0)
