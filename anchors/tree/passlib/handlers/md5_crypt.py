"""md5-crypt algorithm"""

from hashlib import md5

import passlib.utils.handlers as uh
from passlib.utils import repeat_string, safe_crypt, test_crypt
from passlib.utils.binary import h64

__all__ = [
    "md5_crypt",
    "apr_md5_crypt",
]


_BNULL = b"\x00"
_MD5_MAGIC = b"$1$"
_APR_MAGIC = b"$apr1$"

# pre-calculated offsets used to speed up C digest stage (see notes below).
# sequence generated using the following:
##perms_order = "p,pp,ps,psp,sp,spp".split(",")
##def offset(i):
##    key = (("p" if i % 2 else "") + ("s" if i % 3 else "") +
##        ("p" if i % 7 else "") + ("" if i % 2 else "p"))
##    return perms_order.index(key)
##_c_digest_offsets = [(offset(i), offset(i+1)) for i in range(0,42,2)]
_c_digest_offsets = (
    (0, 3),
    (5, 1),
    (5, 3),
    (1, 2),
    (5, 1),
    (5, 3),
    (1, 3),
    (4, 1),
    (5, 3),
    (1, 3),
    (5, 0),
    (5, 3),
    (1, 3),
    (5, 1),
    (4, 3),
    (1, 3),
    (5, 1),
    (5, 2),
    (1, 3),
    (5, 1),
    (5, 3),
)

# map used to transpose bytes when encoding final digest
_transpose_map = (12, 6, 0, 13, 7, 1, 14, 8, 2, 15, 9, 3, 5, 10, 4, 11)


def _raw_md5_crypt(pwd, salt, use_apr=False):
    """perform raw md5-crypt calculation

    this function provides a pure-python implementation of the internals
    for the MD5-Crypt algorithms; it doesn't handle any of the
    parsing/validation of the hash strings themselves.

    :arg pwd: password chars/bytes to hash
    :arg salt: salt chars to use
    :arg use_apr: use apache variant

    :returns:
        encoded checksum chars
    """
    # NOTE: regarding 'apr' format:
    # really, apache? you had to invent a whole new "$apr1$" format,
    # when all you did was change the ident incorporated into the hash?
    # would love to find webpage explaining why just using a portable
    # implementation of $1$ wasn't sufficient. *nothing else* was changed.

    # validate secret
    # XXX: not sure what official unicode policy is, using this as default
    if isinstance(pwd, str):
        pwd = pwd.encode("utf-8")
    assert isinstance(pwd, bytes), "pwd not str or bytes"
    if _BNULL in pwd:
        raise uh.exc.NullPasswordError(md5_crypt)
    pwd_len = len(pwd)

    # validate salt - should have been taken care of by caller
    assert isinstance(salt, str), "salt not str"
    salt = salt.encode("ascii")
    assert len(salt) < 9, "salt too large"
    # NOTE: spec says salts larger than 8 bytes should be truncated,
    # instead of causing an error. this function assumes that's been
    # taken care of by the handler class.

    # load APR specific constants
    if use_apr:  # noqa: SIM108
        magic = _APR_MAGIC
    else:
        magic = _MD5_MAGIC
    db = md5(pwd + salt + pwd).digest()
    # start out with pwd + magic + salt
    a_ctx = md5(pwd + magic + salt)
    a_ctx_update = a_ctx.update

    # add pwd_len bytes of b, repeating b as many times as needed.
    a_ctx_update(repeat_string(db, pwd_len))

    # add null chars & first char of password
    # NOTE: this may have historically been a bug,
    # where they meant to use db[0] instead of B_NULL,
    # but the original code memclear'ed db,
    # and now all implementations have to use this.
    i = pwd_len
    evenchar = pwd[:1]
    while i:
        a_ctx_update(_BNULL if i & 1 else evenchar)
        i >>= 1

    # finish A
    da = a_ctx.digest()

    # ===================================================================
    # digest C - for a 1000 rounds, combine A, S, and P
    #            digests in various ways; in order to burn CPU time.
    # ===================================================================

    # NOTE: the original MD5-Crypt implementation performs the C digest
    # calculation using the following loop:
    #
    ##dc = da
    ##i = 0
    ##while i < rounds:
    ##    tmp_ctx = md5(pwd if i & 1 else dc)
    ##    if i % 3:
    ##        tmp_ctx.update(salt)
    ##    if i % 7:
    ##        tmp_ctx.update(pwd)
    ##    tmp_ctx.update(dc if i & 1 else pwd)
    ##    dc = tmp_ctx.digest()
    ##    i += 1
    #
    # The code Passlib uses (below) implements an equivalent algorithm,
    # it's just been heavily optimized to pre-calculate a large number
    # of things beforehand. It works off of a couple of observations
    # about the original algorithm:
    #
    # 1. each round is a combination of 'dc', 'salt', and 'pwd'; and the exact
    #    combination is determined by whether 'i' a multiple of 2,3, and/or 7.
    # 2. since lcm(2,3,7)==42, the series of combinations will repeat
    #    every 42 rounds.
    # 3. even rounds 0-40 consist of 'hash(dc + round-specific-constant)';
    #    while odd rounds 1-41 consist of hash(round-specific-constant + dc)
    #
    # Using these observations, the following code...
    # * calculates the round-specific combination of salt & pwd for each round 0-41
    # * runs through as many 42-round blocks as possible (23)
    # * runs through as many pairs of rounds as needed for remaining rounds (17)
    # * this results in the required 42*23+2*17=1000 rounds required by md5_crypt.
    #
    # this cuts out a lot of the control overhead incurred when running the
    # original loop 1000 times in python, resulting in ~20% increase in
    # speed under CPython (though still 2x slower than glibc crypt)

    # prepare the 6 combinations of pwd & salt which are needed
    # (order of 'perms' must match how _c_digest_offsets was generated)
    pwd_pwd = pwd + pwd
    pwd_salt = pwd + salt
    perms = [pwd, pwd_pwd, pwd_salt, pwd_salt + pwd, salt + pwd, salt + pwd_pwd]

    # build up list of even-round & odd-round constants,
    # and store in 21-element list as (even,odd) pairs.
    data = [(perms[even], perms[odd]) for even, odd in _c_digest_offsets]

    # perform 23 blocks of 42 rounds each (for a total of 966 rounds)
    dc = da
    blocks = 23
    while blocks:
        for even, odd in data:
            dc = md5(odd + md5(dc + even).digest()).digest()
        blocks -= 1

    # perform 17 more pairs of rounds (34 more rounds, for a total of 1000)
    for even, odd in data[:17]:
        dc = md5(odd + md5(dc + even).digest()).digest()
    return h64.encode_transposed_bytes(dc, _transpose_map).decode("ascii")


class _MD5_Common(uh.HasSalt, uh.GenericHandler):
    """common code for md5_crypt and apr_md5_crypt"""

    # name - set in subclass
    setting_kwds = ("salt", "salt_size")
    # ident - set in subclass
    checksum_size = 22
    checksum_chars = uh.HASH64_CHARS

    max_salt_size = 8
    salt_chars = uh.HASH64_CHARS

    @classmethod
    def from_string(cls, hash):
        salt, chk = uh.parse_mc2(hash, cls.ident, handler=cls)
        return cls(salt=salt, checksum=chk)

    def to_string(self):
        return uh.render_mc2(self.ident, self.salt, self.checksum)

    # _calc_checksum() - provided by subclass


class md5_crypt(uh.HasManyBackends, _MD5_Common):
    """This class implements the MD5-Crypt password hash, and follows the :ref:`password-hash-api`.

    It supports a variable-length salt.

    The :meth:`~passlib.ifc.PasswordHash.using` method accepts the following optional keywords:

    :type salt: str
    :param salt:
        Optional salt string.
        If not specified, one will be autogenerated (this is recommended).
        If specified, it must be 0-8 characters, drawn from the regexp range ``[./0-9A-Za-z]``.

    :type salt_size: int
    :param salt_size:
        Optional number of characters to use when autogenerating new salts.
        Defaults to 8, but can be any value between 0 and 8.
        (This is mainly needed when generating Cisco-compatible hashes,
        which require ``salt_size=4``).

    :type relaxed: bool
    :param relaxed:
        By default, providing an invalid value for one of the other
        keywords will result in a :exc:`ValueError`. If ``relaxed=True``,
        and the error can be corrected, a :exc:`~passlib.exc.PasslibHashWarning`
        will be issued instead. Correctable errors include
        ``salt`` strings that are too long.

        .. versionadded:: 1.6
    """

    name = "md5_crypt"
    ident = "$1$"
    # FIXME: can't find definitive policy on how md5-crypt handles non-ascii.
    #        all backends currently coerce -> utf-8

    backends = ("os_crypt", "builtin")

    # ---------------------------------------------------------------
    # os_crypt backend
    # ---------------------------------------------------------------
    @classmethod
    def _load_backend_os_crypt(cls):
        if test_crypt("test", "$1$test$pi/xDtU5WFVRqYS6BMU8X/"):
            cls._set_calc_checksum_backend(cls._calc_checksum_os_crypt)
            return True
        return False

    def _calc_checksum_os_crypt(self, secret):
        config = self.ident + self.salt
        hash = safe_crypt(secret, config)
        if hash is None:
            # py3's crypt.crypt() can't handle non-utf8 bytes.
            # fallback to builtin alg, which is always available.
            return self._calc_checksum_builtin(secret)
        if not hash.startswith(config) or len(hash) != len(config) + 23:
            raise uh.exc.CryptBackendError(self, config, hash)
        return hash[-22:]

    # ---------------------------------------------------------------
    # builtin backend
    # ---------------------------------------------------------------
    @classmethod
    def _load_backend_builtin(cls):
        cls._set_calc_checksum_backend(cls._calc_checksum_builtin)
        return True

    def _calc_checksum_builtin(self, secret):
        return _raw_md5_crypt(secret, self.salt)


class apr_md5_crypt(_MD5_Common):
    """This class implements the Apr-MD5-Crypt password hash, and follows the :ref:`password-hash-api`.

    It supports a variable-length salt.

    The :meth:`~passlib.ifc.PasswordHash.using` method accepts the following optional keywords:

    :type salt: str
    :param salt:
        Optional salt string.
        If not specified, one will be autogenerated (this is recommended).
        If specified, it must be 0-8 characters, drawn from the regexp range ``[./0-9A-Za-z]``.

    :type relaxed: bool
    :param relaxed:
        By default, providing an invalid value for one of the other
        keywords will result in a :exc:`ValueError`. If ``relaxed=True``,
        and the error can be corrected, a :exc:`~passlib.exc.PasslibHashWarning`
        will be issued instead. Correctable errors include
        ``salt`` strings that are too long.

        .. versionadded:: 1.6
    """

    name = "apr_md5_crypt"
    ident = "$apr1$"

    def _calc_checksum(self, secret):
        return _raw_md5_crypt(secret, self.salt, use_apr=True)
