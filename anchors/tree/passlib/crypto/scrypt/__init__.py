"""scrypt hash frontend and help utilities"""

from warnings import warn

from passlib import exc
from passlib.utils import to_bytes

__all__ = [
    "validate",
    "scrypt",
]


#: internal global constant for setting stdlib scrypt's maxmem (int bytes).
#: set to -1 to auto-calculate (see _load_stdlib_backend() below)
#: set to 0 for openssl default (32mb according to python docs)
#: TODO: standardize this across backends, and expose support via scrypt hash config;
#:       currently not very configurable, and only applies to stdlib backend.
SCRYPT_MAXMEM = -1

#: max output length in bytes
MAX_KEYLEN = ((1 << 32) - 1) * 32

#: max ``r * p`` limit
MAX_RP = (1 << 30) - 1


# TODO: unittests for this function
def validate(n, r, p):
    """
    helper which validates a set of scrypt config parameters.
    scrypt will take ``O(n * r * p)`` time and ``O(n * r)`` memory.
    limitations are that ``n = 2**<positive integer>``, ``n < 2**(16*r)``, ``r * p < 2 ** 30``.

    :param n: scrypt rounds
    :param r: scrypt block size
    :param p: scrypt parallel factor
    """
    if r < 1:
        raise ValueError(f"r must be > 0: r={r!r}")

    if p < 1:
        raise ValueError(f"p must be > 0: p={p!r}")

    if r * p > MAX_RP:
        # pbkdf2-hmac-sha256 limitation - it will be requested to generate ``p*(2*r)*64`` bytes,
        # but pbkdf2 can do max of (2**31-1) blocks, and sha-256 has 32 byte block size...
        # so ``(2**31-1)*32 >= p*r*128`` -> ``r*p < 2**30``
        raise ValueError(f"r * p must be < 2**30: r={r!r}, p={p!r}")

    if n < 2 or n & (n - 1):
        raise ValueError(f"n must be > 1, and a power of 2: n={n!r}")

    if n >= 1 << (16 * r):
        # rfc7914 sec. 2: N must be less than 2^(128 * r / 8)
        raise ValueError(f"n must be < 2**(16*r): n={n!r}, r={r!r}")

    return True


UINT32_SIZE = 4


def estimate_maxmem(n, r, p, fudge=1.05):
    """
    calculate memory required for parameter combination.
    assumes parameters have already been validated.

    .. warning::
        this is derived from OpenSSL's scrypt maxmem formula;
        and may not be correct for other implementations
        (additional buffers, different parallelism tradeoffs, etc).
    """
    # XXX: expand to provide upper bound for diff backends, or max across all of them?
    # NOTE: openssl's scrypt() enforces it's maxmem parameter based on calc located at
    # <openssl/providers/default/kdfs/scrypt.c>, ending in line containing "Blen + Vlen > maxmem"
    # using the following formula:
    #     Blen = p * 128 * r
    #     Vlen = 32 * r * (N + 2) * sizeof(uint32_t)
    #     total_bytes = Blen + Vlen
    maxmem = r * (128 * p + 32 * (n + 2) * UINT32_SIZE)
    # add fudge factor so we don't have off-by-one mismatch w/ openssl
    return int(maxmem * fudge)


# TODO: configuration picker (may need psutil for full effect)


#: backend function used by scrypt(), filled in by _set_backend()
_scrypt = None

#: name of backend currently in use, exposed for informational purposes.
backend = None


def scrypt(secret, salt, n, r, p=1, keylen=32):
    """run SCrypt key derivation function using specified parameters.

    :arg secret:
        passphrase string (str is encoded to bytes using utf-8).

    :arg salt:
        salt string (str is encoded to bytes using utf-8).

    :arg n:
        integer 'N' parameter

    :arg r:
        integer 'r' parameter

    :arg p:
        integer 'p' parameter

    :arg keylen:
        number of bytes of key to generate.
        defaults to 32 (the internal block size).

    :returns:
        a *keylen*-sized bytes instance

    SCrypt imposes a number of constraints on it's input parameters:

    * ``r * p < 2**30`` -- due to a limitation of PBKDF2-HMAC-SHA256.
    * ``keylen < (2**32 - 1) * 32`` -- due to a limitation of PBKDF2-HMAC-SHA256.
    * ``n`` must a be a power of 2, and > 1 -- internal limitation of scrypt() implementation

    :raises ValueError: if the provided parameters are invalid (see constraints above).

    .. warning::

        Unless the third-party ``scrypt <https://pypi.python.org/pypi/scrypt/>``_ package
        is installed, passlib will use a builtin pure-python implementation of scrypt,
        which is *considerably* slower (and thus requires a much lower / less secure
        ``n`` value in order to be usuable). Installing the :mod:`!scrypt` package
        is strongly recommended.
    """
    validate(n, r, p)
    secret = to_bytes(secret, param="secret")
    salt = to_bytes(salt, param="salt")
    if keylen < 1:
        raise ValueError("keylen must be at least 1")
    if keylen > MAX_KEYLEN:
        raise ValueError("keylen too large, must be <= %d" % MAX_KEYLEN)
    try:
        return _scrypt(secret, salt, n, r, p, keylen)
    except OverflowError as err:
        # the builtin backend asks pbkdf2 for ``p * 128 * r`` bytes in one call,
        # which is more than hashlib can produce once ``r * p >= 2**24``.
        raise ValueError(
            f"r * p too large for the {backend} scrypt backend: r={r!r}, p={p!r} ({err})"
        ) from None


def _load_builtin_backend():
    """
    Load pure-python scrypt implementation built into passlib.
    """
    slowdown = 100
    warn(
        "Using builtin scrypt backend, which is %dx slower than is required "
        "for adequate security. Installing scrypt support (via 'pip install scrypt') "
        "is strongly recommended" % slowdown,
        exc.PasslibSecurityWarning,
    )
    from ._builtin import ScryptEngine

    return ScryptEngine.execute


def _load_cffi_backend():
    """
    Try to import the ctypes-based scrypt hash function provided by the
    ``scrypt <https://pypi.python.org/pypi/scrypt/>``_ package.
    """
    try:
        from scrypt import hash  # type: ignore[import-not-found]

        return hash
    except ImportError:
        pass
    # not available, but check to see if package present but outdated / not installed right
    try:
        import scrypt  # noqa: F401
    except ImportError as err:
        if "scrypt" not in str(err):
            # e.g. if cffi isn't set up right
            # user should try importing scrypt explicitly to diagnose problem.
            warn(
                "'scrypt' package failed to import correctly (possible installation issue?)",
                exc.PasslibWarning,
            )
        # else: package just isn't installed
    else:
        warn(
            "'scrypt' package is too old (lacks ``hash()`` method)", exc.PasslibWarning
        )
    return None


def _load_stdlib_backend():
    """
    Attempt to load stdlib scrypt() implement and return wrapper.
    Returns None if not found.
    """
    try:
        # new in python 3.6, if compiled with openssl >= 1.1
        from hashlib import scrypt as stdlib_scrypt
    except ImportError:
        return None

    def stdlib_scrypt_wrapper(secret, salt, n, r, p, keylen):
        # work out appropriate "maxmem" parameter
        #
        # TODO: would like to enforce a single "maxmem" policy across all backends;
        # and maybe expose this via scrypt hasher config.
        #
        # for now, since parameters should all be coming from internally-controlled sources
        # (password hashes), using policy of "whatever memory the parameters needs".
        # furthermore, since stdlib scrypt is only place that needs this,
        # currently calculating exactly what maxmem needs to make things work for stdlib call.
        # as hack, this can be overriden via SCRYPT_MAXMEM above,
        # would like to formalize all of this.
        maxmem = SCRYPT_MAXMEM
        if maxmem < 0:
            maxmem = estimate_maxmem(n, r, p)
        return stdlib_scrypt(
            password=secret, salt=salt, n=n, r=r, p=p, dklen=keylen, maxmem=maxmem
        )

    return stdlib_scrypt_wrapper


#: list of potential backends
backend_values = ("stdlib", "scrypt", "builtin")

#: dict mapping backend name -> loader
_backend_loaders = dict(
    stdlib=_load_stdlib_backend,
    scrypt=_load_cffi_backend,  # XXX: rename backend constant to "cffi"?
    builtin=_load_builtin_backend,
)


def _set_backend(name, dryrun=False):
    """
    set backend for scrypt(). if name not specified, loads first available.

    :raises ~passlib.exc.MissingBackendError: if backend can't be found

    .. note:: mainly intended to be called by unittests, and scrypt hash handler
    """
    if name == "any":
        return
    if name == "default":
        for name in backend_values:
            try:
                _set_backend(name, dryrun=dryrun)
                return
            except exc.MissingBackendError:  # noqa: PERF203
                continue
        raise exc.MissingBackendError("no scrypt backends available")
    loader = _backend_loaders.get(name)
    if not loader:
        raise ValueError(f"unknown scrypt backend: {name!r}")
    hash = loader()
    if not hash:
        raise exc.MissingBackendError(f"scrypt backend {name!r} not available")
    if dryrun:
        return
    global _scrypt, backend
    backend = name
    _scrypt = hash


# initialize backend
_set_backend("default")


def _has_backend(name):
    try:
        _set_backend(name, dryrun=True)
        return True
    except exc.MissingBackendError:
        return False
