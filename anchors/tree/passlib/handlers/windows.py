from binascii import hexlify

import passlib.utils.handlers as uh
from passlib.crypto.digest import lookup_hash
from passlib.utils import right_pad_string, to_unicode

md4 = lookup_hash("md4").const

__all__ = [
    "lmhash",
    "nthash",
    "bsd_nthash",
    "msdcc",
    "msdcc2",
]


class lmhash(uh.TruncateMixin, uh.HasEncodingContext, uh.StaticHandler):
    """This class implements the Lan Manager Password hash, and follows the :ref:`password-hash-api`.

    It has no salt and a single fixed round.

    The :meth:`~passlib.ifc.PasswordHash.using` method accepts a single
    optional keyword:

    :param bool truncate_error:
        By default, this will silently truncate passwords larger than 14 bytes.
        Setting ``truncate_error=True`` will cause :meth:`~passlib.ifc.PasswordHash.hash`
        to raise a :exc:`~passlib.exc.PasswordTruncateError` instead.

        .. versionadded:: 1.7

    The :meth:`~passlib.ifc.PasswordHash.hash` and :meth:`~passlib.ifc.PasswordHash.verify` methods accept a single
    optional keyword:

    :type encoding: str
    :param encoding:

        This specifies what character encoding LMHASH should use when
        calculating digest. It defaults to ``cp437``, the most
        common encoding encountered.

    Note that while this class outputs digests in lower-case hexadecimal,
    it will accept upper-case as well.
    """

    # --------------------
    # PasswordHash
    # --------------------
    name = "lmhash"
    setting_kwds = ("truncate_error",)

    # --------------------
    # GenericHandler
    # --------------------
    checksum_chars = uh.HEX_CHARS
    checksum_size = 32

    # --------------------
    # TruncateMixin
    # --------------------
    truncate_size = 14

    # --------------------
    # custom
    # --------------------
    default_encoding = "cp437"

    @classmethod
    def _norm_hash(cls, hash):
        return hash.lower()

    def _calc_checksum(self, secret):
        # check for truncation (during .hash() calls only)
        if self.use_defaults:
            if isinstance(secret, str):
                # NOTE: truncate_size is measured in bytes of the encoded secret
                self._check_truncate_policy(secret.upper().encode(self.encoding))
            else:
                self._check_truncate_policy(secret)

        return hexlify(self.raw(secret, self.encoding)).decode("ascii")

    # magic constant used by LMHASH
    _magic = b"KGS!@#$%"

    @classmethod
    def raw(cls, secret, encoding=None):
        """encode password using LANMAN hash algorithm.

        :type secret: str or utf-8 encoded bytes
        :arg secret: secret to hash
        :type encoding: str
        :arg encoding:
            optional encoding to use for unicode inputs.
            this defaults to ``cp437``, which is the
            common case for most situations.

        :returns: returns string of raw bytes
        """
        if not encoding:
            encoding = cls.default_encoding
        # some nice empircal data re: different encodings is at...
        # http://www.openwall.com/lists/john-dev/2011/08/01/2
        # http://www.freerainbowtables.com/phpBB3/viewtopic.php?t=387&p=12163
        from passlib.crypto.des import des_encrypt_block

        MAGIC = cls._magic
        if isinstance(secret, str):
            # perform uppercasing while we're still unicode,
            # to give a better shot at getting non-ascii chars right.
            # (though some codepages do NOT upper-case the same as unicode).
            secret = secret.upper().encode(encoding)
        elif isinstance(secret, bytes):
            # FIXME: just trusting ascii upper will work?
            # and if not, how to do codepage specific case conversion?
            # we could decode first using <encoding>,
            # but *that* might not always be right.
            secret = secret.upper()
        else:
            raise TypeError("secret must be str or bytes")
        secret = right_pad_string(secret, 14)
        return des_encrypt_block(secret[0:7], MAGIC) + des_encrypt_block(
            secret[7:14], MAGIC
        )


class nthash(uh.StaticHandler):
    """This class implements the NT Password hash, and follows the :ref:`password-hash-api`.

    It has no salt and a single fixed round.

    The :meth:`~passlib.ifc.PasswordHash.hash` and :meth:`~passlib.ifc.PasswordHash.genconfig` methods accept no optional keywords.

    Note that while this class outputs lower-case hexadecimal digests,
    it will accept upper-case digests as well.
    """

    name = "nthash"
    checksum_chars = uh.HEX_CHARS
    checksum_size = 32

    @classmethod
    def _norm_hash(cls, hash):
        return hash.lower()

    def _calc_checksum(self, secret):
        return hexlify(self.raw(secret)).decode("ascii")

    @classmethod
    def raw(cls, secret):
        """encode password using MD4-based NTHASH algorithm

        :arg secret: secret as unicode or utf-8 encoded bytes

        :returns: returns string of raw bytes
        """
        secret = to_unicode(secret, "utf-8", param="secret")
        # XXX: found refs that say only first 128 chars are used.
        return md4(secret.encode("utf-16-le")).digest()


bsd_nthash = uh.PrefixWrapper(
    "bsd_nthash",
    nthash,
    prefix="$3$$",
    ident="$3$$",
    doc="""The class support FreeBSD's representation of NTHASH
    (which is compatible with the :ref:`modular-crypt-format`),
    and follows the :ref:`password-hash-api`.

    It has no salt and a single fixed round.

    The :meth:`~passlib.ifc.PasswordHash.hash` and :meth:`~passlib.ifc.PasswordHash.genconfig` methods accept no optional keywords.
    """,
)


##class ntlm_pair(object):
##    "combined lmhash & nthash"
##    name = "ntlm_pair"
##    setting_kwds = ()
##    _hash_regex = re.compile(u"^(?P<lm>[0-9a-f]{32}):(?P<nt>[0-9][a-f]{32})$",
##                             re.I)
##
##    @classmethod
##    def identify(cls, hash):
##        hash = to_unicode(hash, "latin-1", "hash")
##        return len(hash) == 65 and cls._hash_regex.match(hash) is not None
##
##    @classmethod
##    def hash(cls, secret, config=None):
##        if config is not None and not cls.identify(config):
##            raise uh.exc.InvalidHashError(cls)
##        return lmhash.hash(secret) + ":" + nthash.hash(secret)
##
##    @classmethod
##    def verify(cls, secret, hash):
##        hash = to_unicode(hash, "ascii", "hash")
##        m = cls._hash_regex.match(hash)
##        if not m:
##            raise uh.exc.InvalidHashError(cls)
##        lm, nt = m.group("lm", "nt")
##        # NOTE: verify against both in case encoding issue
##        # causes one not to match.
##        return lmhash.verify(secret, lm) or nthash.verify(secret, nt)


class msdcc(uh.HasUserContext, uh.StaticHandler):
    """This class implements Microsoft's Domain Cached Credentials password hash,
    and follows the :ref:`password-hash-api`.

    It has a fixed number of rounds, and uses the associated
    username as the salt.

    The :meth:`~passlib.ifc.PasswordHash.hash`, :meth:`~passlib.ifc.PasswordHash.genhash`, and :meth:`~passlib.ifc.PasswordHash.verify` methods
    have the following optional keywords:

    :type user: str
    :param user:
        String containing name of user account this password is associated with.
        This is required to properly calculate the hash.

        This keyword is case-insensitive, and should contain just the username
        (e.g. ``Administrator``, not ``SOMEDOMAIN\\Administrator``).

    Note that while this class outputs lower-case hexadecimal digests,
    it will accept upper-case digests as well.
    """

    name = "msdcc"
    checksum_chars = uh.HEX_CHARS
    checksum_size = 32

    @classmethod
    def _norm_hash(cls, hash):
        return hash.lower()

    def _calc_checksum(self, secret):
        return hexlify(self.raw(secret, self.user)).decode("ascii")

    @classmethod
    def raw(cls, secret, user):
        """encode password using mscash v1 algorithm

        :arg secret: secret as str or utf-8 encoded bytes
        :arg user: username to use as salt

        :returns: returns string of raw bytes
        """
        secret = to_unicode(secret, "utf-8", param="secret").encode("utf-16-le")
        user = to_unicode(user, "utf-8", param="user").lower().encode("utf-16-le")
        return md4(md4(secret).digest() + user).digest()


class msdcc2(uh.HasUserContext, uh.StaticHandler):
    """This class implements version 2 of Microsoft's Domain Cached Credentials
    password hash, and follows the :ref:`password-hash-api`.

    It has a fixed number of rounds, and uses the associated
    username as the salt.

    The :meth:`~passlib.ifc.PasswordHash.hash`, :meth:`~passlib.ifc.PasswordHash.genhash`, and :meth:`~passlib.ifc.PasswordHash.verify` methods
    have the following extra keyword:

    :type user: str
    :param user:
        String containing name of user account this password is associated with.
        This is required to properly calculate the hash.

        This keyword is case-insensitive, and should contain just the username
        (e.g. ``Administrator``, not ``SOMEDOMAIN\\Administrator``).
    """

    name = "msdcc2"
    checksum_chars = uh.HEX_CHARS
    checksum_size = 32

    @classmethod
    def _norm_hash(cls, hash):
        return hash.lower()

    def _calc_checksum(self, secret):
        return hexlify(self.raw(secret, self.user)).decode("ascii")

    @classmethod
    def raw(cls, secret, user):
        """encode password using msdcc v2 algorithm

        :type secret: str or utf-8 bytes
        :arg secret: secret

        :type user: str
        :arg user: username to use as salt

        :returns: returns string of raw bytes
        """
        from passlib.crypto.digest import pbkdf2_hmac

        secret = to_unicode(secret, "utf-8", param="secret").encode("utf-16-le")
        user = to_unicode(user, "utf-8", param="user").lower().encode("utf-16-le")
        tmp = md4(md4(secret).digest() + user).digest()
        return pbkdf2_hmac("sha1", tmp, user, 10240, 16)
