"""Apache password support"""

# XXX: relocate this to passlib.ext.apache?
from __future__ import annotations

import logging
import os
from io import BytesIO
from os import PathLike
from typing import Literal
from warnings import warn

from passlib import exc, registry
from passlib.context import CryptContext
from passlib.exc import ExpectedStringError
from passlib.hash import htdigest
from passlib.utils import is_ascii_codec, render_bytes, to_bytes
from passlib.utils.compat import join_bytes

# local
__all__ = [
    "HtpasswdFile",
    "HtdigestFile",
]

_UNSET = object()

_BCOLON = b":"
_BHASH = b"#"

# byte values that aren't allowed in fields.
_INVALID_FIELD_CHARS = b":\n\r\t\x00"

#: _CommonFile._source token types
_SKIPPED = "skipped"
_RECORD = "record"


class _CommonFile:
    """common framework for HtpasswdFile & HtdigestFile"""

    # charset encoding used by file (defaults to utf-8)
    encoding = None

    # whether users() and other public methods should return str or bytes?
    # (defaults to True)
    return_unicode = True

    # if bound to local file, these will be set.
    _path = None  # local file path
    _mtime = None  # mtime when last loaded, or 0

    # if true, automatically save to local file after changes are made.
    autosave = False

    # dict mapping key -> value for all records in database.
    # (e.g. user => hash for Htpasswd)
    _records = None

    #: list of tokens for recreating original file contents when saving. if present,
    #: will be sequence of (_SKIPPED, b"whitespace/comments") and (_RECORD, <record key>) tuples.
    _source = None

    @classmethod
    def from_string(cls, data, **kwds):
        """create new object from raw string.

        :type data: str or bytes
        :arg data:
            database to load, as single string.

        :param \\*\\*kwds:
            all other keywords are the same as in the class constructor
        """
        if "path" in kwds:
            raise TypeError("'path' not accepted by from_string()")
        self = cls(**kwds)
        self.load_string(data)
        return self

    @classmethod
    def from_path(cls, path: PathLike, **kwds):
        """create new object from file, without binding object to file.

        :type path: str
        :arg path:
            local filepath to load from

        :param \\*\\*kwds:
            all other keywords are the same as in the class constructor
        """
        self = cls(**kwds)
        self.load(path)
        return self

    # XXX: add a new() classmethod, ala TOTP.new()?

    def __init__(
        self,
        path=None,
        new=False,
        autosave=False,
        encoding="utf-8",
        return_unicode=True,
    ):
        # set encoding
        if not encoding:
            raise TypeError("'encoding' is required")
        if not is_ascii_codec(encoding):
            # htpasswd/htdigest files assumes 1-byte chars, and use ":" separator,
            # so only ascii-compatible encodings are allowed.
            raise ValueError("encoding must be 7-bit ascii compatible")
        self.encoding = encoding

        # set other attrs
        self.return_unicode = return_unicode
        self.autosave = autosave
        self._path = path
        self._mtime = 0

        # init db
        if path and not new:
            self.load()
        else:
            self._records = {}
            self._source = []

    def __repr__(self):
        tail = ""
        if self.autosave:
            tail += " autosave=True"
        if self._path:
            tail += f" path={self._path!r}"
        if self.encoding != "utf-8":
            tail += f" encoding={self.encoding!r}"
        return f"<{self.__class__.__name__} 0x{id(self):0x}{tail}>"

    # NOTE: ``path`` is a property so that ``_mtime`` is wiped when it's set.

    @property
    def path(self):
        return self._path

    @path.setter
    def path(self, value):
        if value != self._path:
            self._mtime = 0
        self._path = value

    @property
    def mtime(self):
        """modify time when last loaded (if bound to a local file)"""
        return self._mtime

    def load_if_changed(self):
        """Reload from ``self.path`` only if file has changed since last load"""
        if not self._path:
            raise RuntimeError(f"{self!r} is not bound to a local file")
        if self._mtime and self._mtime == os.path.getmtime(self._path):
            return False
        self.load()
        return True

    def load(self, path: PathLike | None = None) -> Literal[True]:
        """Load state from local file.
        If no path is specified, attempts to load from ``self.path``.

        :type path: str
        :arg path: local file to load from
        """
        if path is not None:
            with open(path, "rb") as fh:
                self._load_lines(fh)
                self._mtime = 0
        elif self._path:
            with open(self._path, "rb") as fh:
                # NOTE: only remembered once parsing succeeded, so that a failed load
                #       doesn't make load_if_changed() skip the file afterwards.
                mtime = os.path.getmtime(self._path)
                self._load_lines(fh)
                self._mtime = mtime
        else:
            raise RuntimeError(
                f"{self.__class__.__name__}().path is not set, an explicit path is required"
            )
        return True

    def load_string(self, data):
        """Load state from unicode or bytes string, replacing current state"""
        data = to_bytes(data, self.encoding, "data")
        self._load_lines(BytesIO(data))
        self._mtime = 0

    def _load_lines(self, lines):
        """load from sequence of lists"""
        parse = self._parse_record
        records = {}
        source = []
        skipped = b""
        for idx, line in enumerate(lines):
            # NOTE: per htpasswd source (https://github.com/apache/httpd/blob/trunk/support/htpasswd.c),
            #       lines with only whitespace, or with "#" as first non-whitespace char,
            #       are left alone / ignored.
            tmp = line.lstrip()
            if not tmp or tmp.startswith(_BHASH):
                skipped += line
                continue

            # parse valid line
            key, value = parse(line, idx + 1)

            # NOTE: if multiple entries for a key, we use the first one,
            #       which seems to match htpasswd source.
            #       the later lines are dropped (not kept as skipped text),
            #       otherwise they'd be written out again & resurrect deleted users.
            if key in records:
                logging.warning(
                    "username occurs multiple times in source file: %r",
                    key,
                )
                continue

            # flush buffer of skipped whitespace lines
            if skipped:
                source.append((_SKIPPED, skipped))
                skipped = b""

            # store new user line
            records[key] = value
            source.append((_RECORD, key))

        # don't bother preserving trailing whitespace, but do preserve trailing comments
        if skipped.rstrip():
            if not skipped.endswith(b"\n"):
                # last line of the file had no newline; terminate it,
                # otherwise a record appended later would be glued onto the comment
                skipped += b"\n"
            source.append((_SKIPPED, skipped))

        # NOTE: not replacing ._records until parsing succeeds, so loading is atomic.
        self._records = records
        self._source = source

    def _parse_record(self, record, lineno):  # pragma: no cover - abstract method
        """parse line of file into (key, value) pair"""
        raise NotImplementedError("should be implemented in subclass")

    def _set_record(self, key, value):
        """
        helper for setting record which takes care of inserting source line if needed;

        :returns:
            bool if key already present
        """
        records = self._records
        existing = key in records
        records[key] = value
        if not existing and (_RECORD, key) not in self._source:
            # NOTE: a deleted record keeps its slot in _source (see _iter_lines),
            #       so re-adding the key must not append a second one.
            self._source.append((_RECORD, key))
        return existing

    def _autosave(self):
        """subclass helper to call save() after any changes"""
        if self.autosave and self._path:
            self.save()

    def save(self, path=None):
        """Save current state to file.
        If no path is specified, attempts to save to ``self.path``.
        """
        if path is not None:
            with open(path, "wb") as fh:
                fh.writelines(self._iter_lines())
        elif self._path:
            self.save(self._path)
            self._mtime = os.path.getmtime(self._path)
        else:
            raise RuntimeError(
                f"{self.__class__.__name__}().path is not set, cannot autosave"
            )

    def to_string(self):
        """Export current state as a string of bytes"""
        return join_bytes(self._iter_lines())

    # def clean(self):
    #     """
    #     discard any comments or whitespace that were being preserved from the source file,
    #     and re-sort keys in alphabetical order
    #     """
    #     self._source = [(_RECORD, key) for key in sorted(self._records)]
    #     self._autosave()

    def _iter_lines(self):
        """iterator yielding lines of database"""
        # NOTE: this relies on <records> being an OrderedDict so that it outputs
        #       records in a deterministic order.
        records = self._records
        if __debug__:
            pending = set(records)
        for action, content in self._source:
            if action == _SKIPPED:
                # 'content' is whitespace/comments to write
                yield content
            else:
                assert action == _RECORD
                # 'content' is record key
                if content not in records:
                    # record was deleted
                    # NOTE: doing it lazily like this so deleting & re-adding user
                    #       preserves their original location in the file.
                    continue
                yield self._render_record(content, records[content])
                if __debug__:
                    pending.remove(content)
        if __debug__:
            # sanity check that we actually wrote all the records
            # (otherwise _source & _records are somehow out of sync)
            assert not pending, f"failed to write all records: missing={pending!r}"

    def _render_record(self, key, value):  # pragma: no cover - abstract method
        """given key/value pair, encode as line of file"""
        raise NotImplementedError("should be implemented in subclass")

    def _encode_user(self, user):
        """user-specific wrapper for _encode_field()"""
        user = self._encode_field(user, "user")
        if user.lstrip().startswith(_BHASH):
            # the record line would be read back as a comment
            raise ValueError(f"user must not start with '#': {user!r}")
        return user

    def _encode_realm(self, realm):  # pragma: no cover - abstract method
        """realm-specific wrapper for _encode_field()"""
        return self._encode_field(realm, "realm")

    def _encode_field(self, value, param="field"):
        """convert field to internal representation.

        internal representation is always bytes. byte strings are left as-is,
        unicode strings encoding using file's default encoding (or ``utf-8``
        if no encoding has been specified).

        :raises UnicodeEncodeError:
            if unicode value cannot be encoded using default encoding.

        :raises ValueError:
            if resulting byte string contains a forbidden character,
            or is too long (>255 bytes).

        :returns:
            encoded identifer as bytes
        """
        if isinstance(value, str):
            value = value.encode(self.encoding)
        elif not isinstance(value, bytes):
            raise ExpectedStringError(value, param)
        if len(value) > 255:
            raise ValueError(f"{param} must be at most 255 characters: {value!r}")
        if any(c in _INVALID_FIELD_CHARS for c in value):
            raise ValueError(f"{param} contains invalid characters: {value!r}")
        return value

    def _decode_field(self, value):
        """decode field from internal representation to format
        returns by users() method, etc.

        :raises UnicodeDecodeError:
            if unicode value cannot be decoded using default encoding.
            (usually indicates wrong encoding set for file).

        :returns:
            field as str or bytes, as appropriate.
        """
        assert isinstance(value, bytes), "expected value to be bytes"
        if self.return_unicode:
            return value.decode(self.encoding)
        return value

    # FIXME: htpasswd doc says passwords limited to 255 chars under Windows & MPE,
    # and that longer ones are truncated. this may be side-effect of those
    # platforms supporting the 'plaintext' scheme. these classes don't currently
    # check for this.


# =============================================================================
# htpasswd context
#
# This section sets up a CryptContexts to mimic what schemes Apache
# (and the htpasswd tool) should support on the current system.
#
# Apache has long-time supported some basic builtin schemes (listed below),
# as well as the host's crypt() method -- though it's limited to being able
# to *verify* any scheme using that method, but can only generate "des_crypt" hashes.
#
# Apache 2.4 added builtin bcrypt support (even for platforms w/o native support).
# c.f. http://httpd.apache.org/docs/2.4/programs/htpasswd.html vs the 2.2 docs.
# =============================================================================

#: set of default schemes that (if chosen) should be using bcrypt,
#: but can't due to lack of bcrypt.
_warn_no_bcrypt: set[str] = set()


def _init_default_schemes():
    #: pick strongest one for host
    host_best = None
    for name in ["bcrypt", "sha256_crypt"]:
        if registry.has_os_crypt_support(name):
            host_best = name
            break

    # check if we have a bcrypt backend -- otherwise issue warning
    # XXX: would like to not spam this unless the user *requests* apache 24
    bcrypt = "bcrypt" if registry.has_backend("bcrypt") else None
    _warn_no_bcrypt.clear()
    if not bcrypt:
        _warn_no_bcrypt.update(
            [
                "portable_apache_24",
                "host_apache_24",
                "linux_apache_24",
                "portable",
                "host",
            ]
        )

    defaults = dict(
        # strongest hash builtin to specific apache version
        portable_apache_24=bcrypt or "apr_md5_crypt",
        portable_apache_22="apr_md5_crypt",
        # strongest hash across current host & specific apache version
        host_apache_24=bcrypt or host_best or "apr_md5_crypt",
        host_apache_22=host_best or "apr_md5_crypt",
        # strongest hash on a linux host
        linux_apache_24=bcrypt or "sha256_crypt",
        linux_apache_22="sha256_crypt",
    )

    # set latest-apache version aliases
    # XXX: could check for apache install, and pick correct host 22/24 default?
    #      could reuse _detect_htpasswd() helper in UTs
    defaults.update(
        portable=defaults["portable_apache_24"],
        host=defaults["host_apache_24"],
    )
    return defaults


#: dict mapping default alias -> appropriate scheme
htpasswd_defaults = _init_default_schemes()


def _init_htpasswd_context():
    # start with schemes built into apache
    schemes = [
        # builtin support added in apache 2.4
        # (https://bz.apache.org/bugzilla/show_bug.cgi?id=49288)
        "bcrypt",
        # support not "builtin" to apache, instead it requires support through host's crypt().
        # adding them here to allow editing htpasswd under windows and then deploying under unix.
        "sha256_crypt",
        "sha512_crypt",
        "des_crypt",
        # apache default as of 2.2.18, and still default in 2.4
        "apr_md5_crypt",
        # NOTE: apache says ONLY intended for transitioning htpasswd <-> ldap
        "ldap_sha1",
        # NOTE: apache says ONLY supported on Windows, Netware, TPF
        "plaintext",
    ]

    # apache can verify anything supported by the native crypt(),
    # though htpasswd tool can only generate a limited set of hashes.
    # (this list may overlap w/ builtin apache schemes)
    schemes.extend(registry.get_supported_os_crypt_schemes())

    # hack to remove dups and sort into preferred order
    preferred = schemes[:3] + ["apr_md5_crypt"] + schemes
    schemes = sorted(set(schemes), key=preferred.index)
    # plaintext identifies every string, so it has to come last
    schemes.remove("plaintext")
    schemes.append("plaintext")

    # create context object
    return CryptContext(
        schemes=schemes,
        # NOTE: default will change to "portable" in passlib 2.0
        default=htpasswd_defaults["portable_apache_22"],
        # NOTE: bcrypt "2y" is required, "2b" isn't recognized by libapr (issue 95)
        bcrypt__ident="2y",
    )


#: CryptContext configured to match htpasswd
htpasswd_context = _init_htpasswd_context()


class HtpasswdFile(_CommonFile):
    """class for reading & writing Htpasswd files.

    The class constructor accepts the following arguments:

    :type path: filepath
    :param path:

        Specifies path to htpasswd file, use to implicitly load from and save to.

        This class has two modes of operation:

        1. It can be "bound" to a local file by passing a ``path`` to the class
           constructor. In this case it will load the contents of the file when
           created, and the :meth:`load` and :meth:`save` methods will automatically
           load from and save to that file if they are called without arguments.

        2. Alternately, it can exist as an independant object, in which case
           :meth:`load` and :meth:`save` will require an explicit path to be
           provided whenever they are called. As well, ``autosave`` behavior
           will not be available.

           This feature is new in Passlib 1.6, and is the default if no
           ``path`` value is provided to the constructor.

        This is also exposed as a readonly instance attribute.

    :type new: bool
    :param new:

        Normally, if *path* is specified, :class:`HtpasswdFile` will
        immediately load the contents of the file. However, when creating
        a new htpasswd file, applications can set ``new=True`` so that
        the existing file (if any) will not be loaded.

        .. versionadded:: 1.6
            This feature was previously enabled by setting ``autoload=False``.
            That alias was removed in Passlib 1.8

    :type autosave: bool
    :param autosave:

        Normally, any changes made to an :class:`HtpasswdFile` instance
        will not be saved until :meth:`save` is explicitly called. However,
        if ``autosave=True`` is specified, any changes made will be
        saved to disk immediately (assuming *path* has been set).

        This is also exposed as a writeable instance attribute.

    :type encoding: str
    :param encoding:

        Optionally specify character encoding used to read/write file
        and hash passwords. Defaults to ``utf-8``, though ``latin-1``
        is the only other commonly encountered encoding.

        This is also exposed as a readonly instance attribute.

    :type default_scheme: str
    :param default_scheme:
        Optionally specify default scheme to use when encoding new passwords.

        This can be any of the schemes with builtin Apache support,
        OR natively supported by the host OS's :func:`crypt.crypt` function.

        * Builtin schemes include ``"bcrypt"`` (apache 2.4+), ``"apr_md5_crypt"`,
          and ``"des_crypt"``.

        * Schemes commonly supported by Unix hosts
          include ``"bcrypt"``, ``"sha256_crypt"``, and ``"des_crypt"``.

        In order to not have to sort out what you should use,
        passlib offers a number of aliases, that will resolve
        to the most appropriate scheme based on your needs:

        * ``"portable"``, ``"portable_apache_24"`` -- pick scheme that's portable across hosts
          running apache >= 2.4. **This will be the default as of Passlib 2.0**.

        * ``"portable_apache_22"`` -- pick scheme that's portable across hosts
          running apache >= 2.4. **This is the default up to Passlib 1.9**.

        * ``"host"``, ``"host_apache_24"`` -- pick strongest scheme supported by
           apache >= 2.4 and/or host OS.

        * ``"host_apache_22"`` -- pick strongest scheme supported by
           apache >= 2.2 and/or host OS.

        .. versionadded:: 1.6
            This keyword was previously named ``default``. That alias
            was removed in Passlib 1.8.

        .. versionchanged:: 1.6.3

            Added support for ``"bcrypt"``, ``"sha256_crypt"``, and ``"portable"`` alias.

        .. versionchanged:: 1.7

            Added apache 2.4 semantics, and additional aliases.

    :type context: :class:`~passlib.context.CryptContext`
    :param context:
        :class:`!CryptContext` instance used to create
        and verify the hashes found in the htpasswd file.
        The default value is a pre-built context which supports all
        of the hashes officially allowed in an htpasswd file.

        This is also exposed as a readonly instance attribute.

        .. warning::

            This option may be used to add support for non-standard hash
            formats to an htpasswd file. However, the resulting file
            will probably not be usable by another application,
            and particularly not by Apache.

    Loading & Saving
    ================
    .. automethod:: load
    .. automethod:: load_if_changed
    .. automethod:: load_string
    .. automethod:: save
    .. automethod:: to_string

    Inspection
    ================
    .. automethod:: users
    .. automethod:: check_password
    .. automethod:: get_hash

    Modification
    ================
    .. automethod:: set_password
    .. automethod:: delete

    Alternate Constructors
    ======================
    .. automethod:: from_string

    Attributes
    ==========
    .. attribute:: path

        Path to local file that will be used as the default
        for all :meth:`load` and :meth:`save` operations.
        May be written to, initialized by the *path* constructor keyword.

    .. attribute:: autosave

        Writeable flag indicating whether changes will be automatically
        written to *path*.

    Errors
    ======
    :raises ValueError:
        All of the methods in this class will raise a :exc:`ValueError` if
        any user name contains a forbidden character (one of ``:\\r\\n\\t\\x00``),
        or is longer than 255 characters.
    """

    # NOTE: _records map stores <user> for the key, and <hash> for the value,
    #       both in bytes which use self.encoding
    def __init__(
        self, path=None, default_scheme=None, context=htpasswd_context, **kwds
    ):
        if default_scheme:
            if default_scheme in _warn_no_bcrypt:
                warn(
                    "HtpasswdFile: no bcrypt backends available, "
                    f"using fallback for default scheme {default_scheme!r}",
                    exc.PasslibSecurityWarning,
                )
            default_scheme = htpasswd_defaults.get(default_scheme, default_scheme)
            context = context.copy(default=default_scheme)
        self.context = context
        super().__init__(path, **kwds)

    def _parse_record(self, record, lineno):
        # NOTE: should return (user, hash) tuple
        result = record.rstrip().split(_BCOLON)
        if len(result) != 2:
            raise ValueError("malformed htpasswd file (error reading line %d)" % lineno)
        return result

    def _render_record(self, user, hash):
        return render_bytes("%s:%s\n", user, hash)

    def users(self):
        """
        Return list of all users in database
        """
        return [self._decode_field(user) for user in self._records]

    ##def has_user(self, user):
    ##    "check whether entry is present for user"
    ##    return self._encode_user(user) in self._records

    ##def rename(self, old, new):
    ##    """rename user account"""
    ##    old = self._encode_user(old)
    ##    new = self._encode_user(new)
    ##    hash = self._records.pop(old)
    ##    self._records[new] = hash
    ##    self._autosave()

    def set_password(self, user, password):
        """Set password for user; adds user if needed.

        :returns:
            * ``True`` if existing user was updated.
            * ``False`` if user account was added.

        .. versionchanged:: 1.6
            This method was previously called ``update``, it was renamed
            to prevent ambiguity with the dictionary method.
            The old alias was removed in Passlib 1.8.
        """
        if isinstance(password, str):
            # NOTE: encoding password to match file, same as check_password() does
            password = password.encode(self.encoding)
        hash = self.context.hash(password)
        return self.set_hash(user, hash)

    def get_hash(self, user):
        """Return hash stored for user, or ``None`` if user not found.

        .. versionchanged:: 1.6
            This method was previously named ``find``, it was renamed
            for clarity. The old name was removed in Passlib 1.8.
        """
        try:
            return self._records[self._encode_user(user)]
        except KeyError:
            return None

    def set_hash(self, user, hash):
        """
        semi-private helper which allows writing a hash directly;
        adds user if needed.

        .. warning::
            does not (currently) do any validation of the hash string

        .. versionadded:: 1.7
        """
        # assert self.context.identify(hash), "unrecognized hash format"
        if isinstance(hash, str):
            hash = hash.encode(self.encoding)
        user = self._encode_user(user)
        existing = self._set_record(user, hash)
        self._autosave()
        return existing

    # XXX: rename to something more explicit, like delete_user()?
    def delete(self, user):
        """Delete user's entry.

        :returns:
            * ``True`` if user deleted.
            * ``False`` if user not found.
        """
        try:
            del self._records[self._encode_user(user)]
        except KeyError:
            return False
        self._autosave()
        return True

    def check_password(self, user, password):
        """
        Verify password for specified user.
        If algorithm marked as deprecated by CryptContext, will automatically be re-hashed.

        :returns:
            * ``None`` if user not found.
            * ``False`` if user found, but password does not match.
            * ``True`` if user found and password matches.

        .. versionchanged:: 1.6
            This method was previously called ``verify``, it was renamed
            to prevent ambiguity with the :class:`!CryptContext` method.
            The old alias was removed in Passlib 1.8.
        """
        user = self._encode_user(user)
        hash = self._records.get(user)
        if hash is None:
            return None
        if isinstance(password, str):
            # NOTE: encoding password to match file, making the assumption
            # that server will use same encoding to hash the password.
            password = password.encode(self.encoding)
        ok, new_hash = self.context.verify_and_update(password, hash)
        if ok and new_hash is not None:
            # rehash user's password if old hash was deprecated
            assert user in self._records  # otherwise would have to use ._set_record()
            if isinstance(new_hash, str):
                # NOTE: records hold bytes in the file's encoding, same as set_hash() stores
                new_hash = new_hash.encode(self.encoding)
            self._records[user] = new_hash
            self._autosave()
        return ok


class HtdigestFile(_CommonFile):
    """class for reading & writing Htdigest files.

    The class constructor accepts the following arguments:

    :type path: filepath
    :param path:

        Specifies path to htdigest file, use to implicitly load from and save to.

        This class has two modes of operation:

        1. It can be "bound" to a local file by passing a ``path`` to the class
           constructor. In this case it will load the contents of the file when
           created, and the :meth:`load` and :meth:`save` methods will automatically
           load from and save to that file if they are called without arguments.

        2. Alternately, it can exist as an independant object, in which case
           :meth:`load` and :meth:`save` will require an explicit path to be
           provided whenever they are called. As well, ``autosave`` behavior
           will not be available.

           This feature is new in Passlib 1.6, and is the default if no
           ``path`` value is provided to the constructor.

        This is also exposed as a readonly instance attribute.

    :type default_realm: str
    :param default_realm:

        If ``default_realm`` is set, all the :class:`HtdigestFile`
        methods that require a realm will use this value if one is not
        provided explicitly. If unset, they will raise an error stating
        that an explicit realm is required.

        This is also exposed as a writeable instance attribute.

        .. versionadded:: 1.6

    :type new: bool
    :param new:

        Normally, if *path* is specified, :class:`HtdigestFile` will
        immediately load the contents of the file. However, when creating
        a new htpasswd file, applications can set ``new=True`` so that
        the existing file (if any) will not be loaded.

        .. versionadded:: 1.6
            This feature was previously enabled by setting ``autoload=False``.
            That alias was removed in Passlib 1.8

    :type autosave: bool
    :param autosave:

        Normally, any changes made to an :class:`HtdigestFile` instance
        will not be saved until :meth:`save` is explicitly called. However,
        if ``autosave=True`` is specified, any changes made will be
        saved to disk immediately (assuming *path* has been set).

        This is also exposed as a writeable instance attribute.

    :type encoding: str
    :param encoding:

        Optionally specify character encoding used to read/write file
        and hash passwords. Defaults to ``utf-8``, though ``latin-1``
        is the only other commonly encountered encoding.

        This is also exposed as a readonly instance attribute.

    Loading & Saving
    ================
    .. automethod:: load
    .. automethod:: load_if_changed
    .. automethod:: load_string
    .. automethod:: save
    .. automethod:: to_string

    Inspection
    ==========
    .. automethod:: realms
    .. automethod:: users
    .. automethod:: check_password(user[, realm], password)
    .. automethod:: get_hash

    Modification
    ============
    .. automethod:: set_password(user[, realm], password)
    .. automethod:: delete
    .. automethod:: delete_realm

    Alternate Constructors
    ======================
    .. automethod:: from_string

    Attributes
    ==========
    .. attribute:: default_realm

        The default realm that will be used if one is not provided
        to methods that require it. By default this is ``None``,
        in which case an explicit realm must be provided for every
        method call. Can be written to.

    .. attribute:: path

        Path to local file that will be used as the default
        for all :meth:`load` and :meth:`save` operations.
        May be written to, initialized by the *path* constructor keyword.

    .. attribute:: autosave

        Writeable flag indicating whether changes will be automatically
        written to *path*.

    Errors
    ======
    :raises ValueError:
        All of the methods in this class will raise a :exc:`ValueError` if
        any user name or realm contains a forbidden character (one of ``:\\r\\n\\t\\x00``),
        or is longer than 255 characters.
    """

    # NOTE: _records map stores (<user>,<realm>) for the key,
    # and <hash> as the value, all as <self.encoding> bytes.

    # NOTE: unlike htpasswd, this class doesn't use a CryptContext,
    # as only one hash format is supported: htdigest.

    # optionally specify default realm that will be used if none
    # is provided to a method call. otherwise realm is always required.
    default_realm = None

    def __init__(self, path=None, default_realm=None, **kwds):
        self.default_realm = default_realm
        super().__init__(path, **kwds)

    def _parse_record(self, record, lineno):
        result = record.rstrip().split(_BCOLON)
        if len(result) != 3:
            raise ValueError("malformed htdigest file (error reading line %d)" % lineno)
        user, realm, hash = result
        return (user, realm), hash

    def _render_record(self, key, hash):
        user, realm = key
        return render_bytes("%s:%s:%s\n", user, realm, hash)

    def _require_realm(self, realm):
        if realm is None:
            realm = self.default_realm
            if realm is None:
                raise TypeError(
                    "you must specify a realm explicitly, "
                    "or set the default_realm attribute"
                )
        return realm

    def _encode_realm(self, realm):
        realm = self._require_realm(realm)
        return self._encode_field(realm, "realm")

    def _encode_key(self, user, realm):
        return self._encode_user(user), self._encode_realm(realm)

    def realms(self):
        """Return list of all realms in database"""
        realms = set(key[1] for key in self._records)
        return [self._decode_field(realm) for realm in realms]

    def users(self, realm=None):
        """Return list of all users in specified realm.

        * uses ``self.default_realm`` if no realm explicitly provided.
        * returns empty list if realm not found.
        """
        realm = self._encode_realm(realm)
        return [self._decode_field(key[0]) for key in self._records if key[1] == realm]

    ##def has_user(self, user, realm=None):
    ##    "check if user+realm combination exists"
    ##    return self._encode_key(user,realm) in self._records

    ##def rename_realm(self, old, new):
    ##    """rename all accounts in realm"""
    ##    old = self._encode_realm(old)
    ##    new = self._encode_realm(new)
    ##    keys = [key for key in self._records if key[1] == old]
    ##    for key in keys:
    ##        hash = self._records.pop(key)
    ##        self._set_record((key[0], new), hash)
    ##    self._autosave()
    ##    return len(keys)

    ##def rename(self, old, new, realm=None):
    ##    """rename user account"""
    ##    old = self._encode_user(old)
    ##    new = self._encode_user(new)
    ##    realm = self._encode_realm(realm)
    ##    hash = self._records.pop((old,realm))
    ##    self._set_record((new, realm), hash)
    ##    self._autosave()

    def set_password(self, user, realm=None, password=_UNSET):
        """Set password for user; adds user & realm if needed.

        If ``self.default_realm`` has been set, this may be called
        with the syntax ``set_password(user, password)``,
        otherwise it must be called with all three arguments:
        ``set_password(user, realm, password)``.

        :returns:
            * ``True`` if existing user was updated
            * ``False`` if user account added.
        """
        if password is _UNSET:
            # called w/ two args - (user, password), use default realm
            realm, password = None, realm
        realm = self._require_realm(realm)
        hash = htdigest.hash(password, user, realm, encoding=self.encoding)
        return self.set_hash(user, realm, hash)

    def get_hash(self, user, realm=None):
        """Return :class:`~passlib.hash.htdigest` hash stored for user.

        * uses ``self.default_realm`` if no realm explicitly provided.
        * returns ``None`` if user or realm not found.

        .. versionchanged:: 1.6
            This method was previously named ``find``, it was renamed
            for clarity. The old name is was removed Passlib 1.8.
        """
        key = self._encode_key(user, realm)
        hash = self._records.get(key)
        if hash is None:
            return None
        return hash.decode(self.encoding)

    def set_hash(self, user, realm=None, hash=_UNSET):
        """
        semi-private helper which allows writing a hash directly;
        adds user & realm if needed.

        If ``self.default_realm`` has been set, this may be called
        with the syntax ``set_hash(user, hash)``,
        otherwise it must be called with all three arguments:
        ``set_hash(user, realm, hash)``.

        .. warning::
            does not (currently) do any validation of the hash string

        .. versionadded:: 1.7
        """
        if hash is _UNSET:
            # called w/ two args - (user, hash), use default realm
            realm, hash = None, realm
        # assert htdigest.identify(hash), "unrecognized hash format"
        if isinstance(hash, str):
            hash = hash.encode(self.encoding)
        key = self._encode_key(user, realm)
        existing = self._set_record(key, hash)
        self._autosave()
        return existing

    # XXX: rename to something more explicit, like delete_user()?
    def delete(self, user, realm=None):
        """Delete user's entry for specified realm.

        if realm is not specified, uses ``self.default_realm``.

        :returns:
            * ``True`` if user deleted,
            * ``False`` if user not found in realm.
        """
        key = self._encode_key(user, realm)
        try:
            del self._records[key]
        except KeyError:
            return False
        self._autosave()
        return True

    def delete_realm(self, realm):
        """Delete all users for specified realm.

        if realm is not specified, uses ``self.default_realm``.

        :returns: number of users deleted (0 if realm not found)
        """
        realm = self._encode_realm(realm)
        records = self._records
        keys = [key for key in records if key[1] == realm]
        for key in keys:
            del records[key]
        self._autosave()
        return len(keys)

    def check_password(self, user, realm=None, password=_UNSET):
        """Verify password for specified user + realm.

        If ``self.default_realm`` has been set, this may be called
        with the syntax ``check_password(user, password)``,
        otherwise it must be called with all three arguments:
        ``check_password(user, realm, password)``.

        :returns:
            * ``None`` if user or realm not found.
            * ``False`` if user found, but password does not match.
            * ``True`` if user found and password matches.

        .. versionchanged:: 1.6
            This method was previously called ``verify``, it was renamed
            to prevent ambiguity with the :class:`!CryptContext` method.
            The old alias was removed in Passlib 1.8.
        """
        if password is _UNSET:
            # called w/ two args - (user, password), use default realm
            realm, password = None, realm
        user = self._encode_user(user)
        realm = self._encode_realm(realm)
        hash = self._records.get((user, realm))
        if hash is None:
            return None
        return htdigest.verify(password, hash, user, realm, encoding=self.encoding)
