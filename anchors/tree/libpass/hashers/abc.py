from typing import Protocol

from libpass._utils.bytes import StrOrBytes

__all__ = ["PasswordHasher"]


class PasswordHasher(Protocol):
    def hash(self, secret: StrOrBytes) -> str: ...

    def verify(self, hash: StrOrBytes, secret: StrOrBytes) -> bool: ...

    def identify(self, hash: StrOrBytes) -> bool: ...

    def needs_update(self, hash: StrOrBytes) -> bool:
        """Checks if hash needs to be updated, returns True if password is not recognized."""
        ...
