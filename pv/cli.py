from __future__ import annotations

import importlib
import json
import os
import sys
import traceback

from .model import Model, AnalysisError
from .report import Report

ALL = ["C%02d" % i for i in range(1, 21)]


def run_property(prop, tier, root=None, quiet=False):
    rep = Report(prop, tier, quiet=quiet)
    try:
        mod = importlib.import_module("rules." + prop.lower())
    except ModuleNotFoundError:
        print(f"ANALYSIS-ERROR property={prop} no rule module")
        return 2, rep
    try:
        model = Model(root)
        rep.units = sorted(model.units)
        rep.extra["tree_digest"] = model.digest()
        mod.run(model, rep)
    except AnalysisError as e:
        rep.undecided("engine", "<anchor>", str(e))
    except Exception as e:  # a traceback must never look like a violation
        tb = traceback.format_exc().strip().splitlines()
        rep.undecided("engine", "<exception>", f"{type(e).__name__}: {e} @ {tb[-3].strip() if len(tb) > 2 else ''}")
        if os.environ.get("PV_DEBUG"):
            traceback.print_exc()
    code = rep.finish()
    return code, rep


def main(argv):
    if not argv:
        print(__doc__ or "usage: check <ID>|all [--tier quick|thorough] [--replay path]")
        return 2
    prop = argv[0]
    tier = os.environ.get("VERIF_TIER", "quick")
    replay = None
    i = 1
    while i < len(argv):
        if argv[i] == "--tier":
            tier = argv[i + 1]; i += 2
        elif argv[i] == "--replay":
            replay = argv[i + 1]; i += 2
        else:
            i += 1
    if tier not in ("quick", "thorough"):
        tier = "quick"
    props = ALL if prop == "all" else [prop]
    worst = 0
    for p in props:
        if replay:
            want = json.load(open(replay))
            code, rep = run_property(p, tier, quiet=True)
            hit = [o for o in rep.result["violations"] if o["key"] == want["key"]]
            if hit:
                print(f"replay: violation still present: {want['key']}\n  {want['detail']}")
                print(f"VIOLATION property={p} replay={replay}")
                return 1
            print(f"replay: violation no longer reported: {want['key']}")
            return 0 if code != 2 else 2
        code, rep = run_property(p, tier)
        if code == 0 and tier == "thorough":
            try:
                from . import controls
                code = controls.run_controls(p, rep)
            except Exception as e:
                print(f"ANALYSIS-ERROR property={p} controls: {type(e).__name__}: {e}")
                code = 2
        worst = max(worst, code) if code != 1 else (1 if worst != 2 else 2)
    return worst
