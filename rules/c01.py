"""C01 -- a hash verifies exactly the password it was made from.

Decided: the hash path and the verify path of every shipped hasher are wired to the same format and
the same digest function; verify() can only answer with a constant-time comparison of a recomputed
digest against the stored one (or literal False for disabled / foreign hashes); text and bytes
passwords reach the digest through the same UTF-8 (or declared) encoding, as bytes, at every primitive;
prefix wrappers strip exactly what they add.  Not decided: determinism / collision freedom of the
digests themselves, i.e. the round trip as executed."""
from __future__ import annotations

import ast

from pv.q import text as qtext
from pv.model import AnalysisError, walk_no_nested, params, UNKNOWN, peel
from pv.norm import single_defs
from pv.handlers import HandlerTable
from pv import types as T
from . import libpass_common as LC

UH = "passlib.utils.handlers"


def site(u, f):
    return f"{u}:{f}"


# ----------------------------------------------------------------------------- C01.c
COMPARE_FUNCS = {"consteq", "hmac.compare_digest", "compare_digest", "uh.consteq"}
DELEGATE_SUFFIX = (".verify", ".checkpw", ".verify_secret")
RECOMPUTE_MARKERS = ("_calc_checksum", "_raw_mssql", "cls.hash(", "self.hash(", "_sha_crypt(", "_prepare_secret", "derive_digest")


def _all_verify_defs(model):
    out = []
    for un, unit in model.units.items():
        if un.startswith(("passlib.ext", "passlib.apache", "passlib.totp")):
            continue
        for q, fn in unit.functions():
            if q.split(".")[-1] == "verify" and unit.enclosing_class(fn) is not None:
                out.append((un, q, fn))
    return out


def _is_disabled_class(model, un, clsname):
    return any(k == ("passlib.ifc", "DisabledHash") for k in model.mro((un, clsname)))


from . import c12  # noqa: E402
from .shared import Renamed  # noqa: E402


def rule_c(model, rep):
    R = "C01.c-verify-returns"
    for un, q, fn in _all_verify_defs(model):
        unit = model.unit(un)
        cls = unit.enclosing_class(fn)
        s = site(un, q)
        if un == "passlib.ifc" or (un == "libpass.hashers.abc"):
            continue  # abstract declarations
        disabled = _is_disabled_class(model, un, cls.name)
        sd = single_defs(fn)
        rets = [n for n in walk_no_nested(fn) if isinstance(n, ast.Return)]
        if not rets:
            rep.undecided(R, s, "verify has no return")
            continue
        for r in rets:
            v = r.value
            txt = qtext(v) if v is not None else "None"
            ok, why = _verify_ret_ok(model, unit, fn, r, sd, disabled)
            if ok is None:
                rep.undecided(R, s, f"return `{txt[:80]}` not classified")
            else:
                rep.check(ok, R, s, f"return {txt[:120]}", why,
                          witness="verify() can answer True without the recomputed digest matching the stored one (or False for the right password)")
        if disabled:
            rep.check(all(isinstance(r.value, ast.Constant) and r.value.value is False for r in rets), R, s,
                      "; ".join(ast.unparse(r) for r in rets), "disabled-account hasher: every return of verify is the literal False",
                      witness="a disabled account can log in")
    rep.minimum(R, 14)


def _verify_ret_ok(model, unit, fn, ret, sd, disabled):
    v = ret.value
    if v is None:
        return False, "verify returns None"
    if isinstance(v, ast.Constant):
        if v.value is False:
            if disabled:
                return True, "literal False (disabled hash)"
            # allowed under a not-identified guard or a mismatch-exception handler
            node = ret
            while node is not fn:
                par = unit.parent(node)
                if isinstance(par, ast.If) and node in par.body:
                    t = qtext(par.test)
                    if any(t.loose(k) for k in ("is None", "not info", "not self.identify", "not hash_info", "not cls.identify")):
                        return True, f"literal False under guard `{t}` (not this hasher's format)"
                if isinstance(par, ast.ExceptHandler) and qtext(par.type or ast.Constant(value="")).loose("Mismatch"):
                    return True, "literal False in mismatch-exception handler"
                if isinstance(par, ast.With) and "suppress" in qtext(par.items[0].context_expr):
                    return True, "after suppress(...) block"
                node = par
            # libpass argon2: `return False` after `with contextlib.suppress(...)`: statement following the with
            blk = unit.parent(ret)
            body = getattr(blk, "body", [])
            if ret in body:
                i = body.index(ret)
                if i and isinstance(body[i - 1], ast.With) and qtext(body[i - 1].items[0].context_expr).loose("suppress"):
                    return True, "literal False after suppress(InvalidHash, VerifyMismatch) block"
            return False, "literal False outside a not-my-format guard: the right password is rejected"
        if v.value is True:
            # only directly after `result = <lib>.verify_secret(...)`; `assert result is True` (argon2_cffi raises on mismatch)
            blk = unit.parent(ret)
            body = getattr(blk, "body", [])
            i = body.index(ret) if ret in body else -1
            prev = [ast.unparse(x) for x in body[max(0, i - 2):i]]
            if isinstance(blk, ast.Try) and any("verify_secret(" in p for p in prev) and any(p.startswith("assert result is True") for p in prev):
                return True, "True only after argon2_cffi.verify_secret() returned (library raises on mismatch)"
            return False, "verify returns the literal True"
        return False, f"verify returns constant {v.value!r}"
    if isinstance(v, ast.Call):
        name = ast.unparse(v.func)
        if name in COMPARE_FUNCS or name.endswith(".compare_digest"):
            if len(v.args) + len(v.keywords) != 2:
                return False, "comparison does not take two operands"
            ops = [ast.unparse(a) for a in v.args] + [ast.unparse(k.value) for k in v.keywords]
            if ops[0] == ops[1]:
                return False, "both operands of the comparison are the same expression"
            alld = _all_defs(fn)
            exp = [_expand(a, alld) for a in list(v.args) + [k.value for k in v.keywords]]
            if not any(any(m in e for m in RECOMPUTE_MARKERS) for e in exp):
                return False, f"neither operand is a recomputed digest: {exp}"
            return True, f"constant-time comparison of recomputed digest: {name}({', '.join(ops)})"
        if name.endswith(DELEGATE_SUFFIX) or name in ("cls.verify", "super().verify"):
            return True, f"delegates to {name}"
        if name == "any" and v.args and isinstance(v.args[0], ast.GeneratorExp) and ".verify(" in qtext(v.args[0].elt):
            return True, "any(scheme.verify(...)) over configured schemes"
        return None, ""
    if isinstance(v, ast.Name):
        # name assigned only False/True where True is under `if consteq(...)`
        assigns = [n for n in walk_no_nested(fn) if isinstance(n, ast.Assign) and any(isinstance(t, ast.Name) and t.id == v.id
                   or (isinstance(t, ast.Tuple)) for t in n.targets) or
                   (isinstance(n, ast.Assign) and len(n.targets) > 1 and any(isinstance(t, ast.Name) and t.id == v.id for t in n.targets))]
        okall = True
        seen = 0
        for a in walk_no_nested(fn):
            if isinstance(a, ast.Assign) and any(isinstance(t, ast.Name) and t.id == v.id for t in a.targets):
                seen += 1
                if isinstance(a.value, ast.Constant) and a.value.value is False:
                    continue
                if isinstance(a.value, ast.Constant) and a.value.value is True:
                    par = unit.parent(a)
                    if isinstance(par, ast.If) and a in par.body and isinstance(par.test, ast.Call) \
                            and ast.unparse(par.test.func) in COMPARE_FUNCS:
                        continue
                okall = False
        if seen and okall:
            return True, f"`{v.id}` is True only under `if consteq(recomputed, stored)`"
        return None, ""
    if isinstance(v, ast.Compare) and len(v.ops) == 1 and isinstance(v.ops[0], ast.Eq):
        return True, "equality comparison"
    if isinstance(v, (ast.BoolOp, ast.UnaryOp)):
        return False, f"verify result is combined with other conditions: {ast.unparse(v)[:80]}"
    return None, ""


def _all_defs(fn):
    """name -> list of every value expression assigned to it in fn (not only single definitions)"""
    out = {}
    for n in walk_no_nested(fn):
        if isinstance(n, ast.Assign):
            for t in n.targets:
                if isinstance(t, ast.Name):
                    out.setdefault(t.id, []).append(n.value)
    return out


def _expand(e, defs, depth=0):
    txt = qtext(e)
    if depth > 3:
        return txt
    for n in ast.walk(e):
        if isinstance(n, ast.Name) and n.id in defs:
            vals = defs[n.id] if isinstance(defs[n.id], list) else [defs[n.id]]
            for v in vals:
                txt += " <- " + _expand(v, defs, depth + 1)
    return txt


# ----------------------------------------------------------------------------- C01.d
def rule_d(model, rep):
    R = "C01.d-hash-verify-wiring"
    # GenericHandler.hash
    fn = model.func(UH, "GenericHandler.hash")
    s = site(UH, "GenericHandler.hash")
    sec = params(fn)[1]
    stores = [n for n in walk_no_nested(fn) if isinstance(n, ast.Assign) and ast.unparse(n.targets[0]) == "self.checksum"]
    ok = len(stores) == 1 and ast.unparse(stores[0].value) == f"self._calc_checksum({sec})"
    rep.check(ok, R, s, "; ".join(ast.unparse(x) for x in stores), "hash(): self.checksum = self._calc_checksum(secret)",
              witness="hash() stores a digest of something else than the given password")
    ctor = [n for n in walk_no_nested(fn) if isinstance(n, ast.Assign) and ast.unparse(n.targets[0]) == "self"]
    ok = len(ctor) == 1 and ast.unparse(ctor[0].value) == "cls(use_defaults=True, **kwds)"
    rep.check(ok, R, s, "; ".join(ast.unparse(x) for x in ctor), "hash(): new instance created with use_defaults=True (fresh salt/rounds)",
              witness="hash() raises TypeError('no salt specified') or reuses settings")
    last = fn.body[-1]
    rep.check(isinstance(last, ast.Return) and ast.unparse(last.value) == "self.to_string()", R, s, ast.unparse(last), "hash() returns self.to_string()")
    # settings passed through hash(): handled by using()
    ok = any(isinstance(n, ast.Return) and ast.unparse(n.value) == f"cls.using(**settings).hash({sec}, **kwds)" for n in walk_no_nested(fn))
    rep.check(ok, R, s, "return cls.using(**settings).hash(secret, **kwds)", "legacy settings keywords are applied through using()")
    # GenericHandler.verify
    fn = model.func(UH, "GenericHandler.verify")
    s = site(UH, "GenericHandler.verify")
    ps = params(fn)
    sec, hsh = ps[1], ps[2]
    ctor = [n for n in walk_no_nested(fn) if isinstance(n, ast.Assign) and ast.unparse(n.targets[0]) == "self"]
    ok = len(ctor) == 1 and ast.unparse(ctor[0].value) == f"cls.from_string({hsh}, **context)"
    rep.check(ok, R, s, "; ".join(ast.unparse(x) for x in ctor), "verify(): settings come from parsing the *given* hash with the given context",
              witness="verify() recomputes with other settings than the stored hash's")
    sd = single_defs(fn)
    rets = [n for n in walk_no_nested(fn) if isinstance(n, ast.Return)]
    ok = False
    if len(rets) == 1 and isinstance(rets[0].value, ast.Call) and ast.unparse(rets[0].value.func) == "consteq" and len(rets[0].value.args) == 2:
        ops = set()
        for a in rets[0].value.args:
            t = qtext(a)
            if isinstance(a, ast.Name) and a.id in sd:
                t = qtext(sd[a.id])
            ops.add(t)
        ok = ops == {f"self._calc_checksum({sec})", "self.checksum"}
    rep.check(ok, R, s, ast.unparse(rets[0]) if rets else "<none>", "verify() == consteq(self._calc_checksum(secret), stored checksum)",
              witness="verify() compares the wrong operands")
    g = [n for n in walk_no_nested(fn) if isinstance(n, ast.If) and "is None" in qtext(n.test) and any(isinstance(x, ast.Raise) for x in n.body)]
    rep.check(len(g) == 1, R, s, ast.unparse(g[0].test) if g else "<none>", "a config string (no digest) is refused, not compared",
              witness="verify(secret, <config string>) compares against None")
    # genhash
    fn = model.func(UH, "GenericHandler.genhash")
    s = site(UH, "GenericHandler.genhash")
    txt = [ast.unparse(x) for x in fn.body if not (isinstance(x, ast.Expr) and isinstance(x.value, ast.Constant))]
    rep.check("self = cls.from_string(config, **context)" in txt and "self.checksum = self._calc_checksum(secret)" in txt
              and txt[-1] == "return self.to_string()", R, s, "; ".join(txt[-3:]), "genhash(): parse config, recompute digest, render")
    # HasUserContext forwards user
    for m, want in (("hash", "super().hash(secret, user=user, **context)"), ("verify", "super().verify(secret, hash, user=user, **context)"),
                    ("genhash", "super().genhash(secret, config, user=user, **context)")):
        fn = model.func(UH, "HasUserContext." + m)
        rets = [ast.unparse(n.value) for n in walk_no_nested(fn) if isinstance(n, ast.Return)]
        rep.check(rets == [want], R, site(UH, "HasUserContext." + m), "; ".join(rets), f"user context forwarded unchanged: {want}",
                  witness="hash() and verify() see different `user` values")
    fn = model.func(UH, "HasUserContext.__init__")
    rep.check("self.user = user" in [ast.unparse(x) for x in fn.body], R, site(UH, "HasUserContext.__init__"), "self.user = user", "constructor stores user")
    fn = model.func(UH, "HasEncodingContext.__init__")
    rep.check("self.encoding = encoding or self.default_encoding" in [ast.unparse(x) for x in fn.body], R, site(UH, "HasEncodingContext.__init__"),
              "self.encoding = encoding or self.default_encoding", "constructor stores encoding")
    # every registered class handler gets hash/verify from one of the audited definitions
    table = HandlerTable(model)
    audited = {(UH, "GenericHandler"), (UH, "HasUserContext"), ("passlib.handlers.misc", "unix_disabled"), ("passlib.handlers.misc", "plaintext"),
               ("passlib.handlers.digests", "htdigest"), ("passlib.handlers.mssql", "mssql2000"), ("passlib.handlers.scram", "scram"),
               ("passlib.handlers.django", "django_disabled"), ("passlib.handlers.argon2", "_NoBackend"), ("passlib.handlers.argon2", "_CffiBackend")}
    for h in table:
        if h.kind == "wrapper":
            continue
        for m in ("hash", "verify"):
            owner, f = model.method(h.cref, m, required=False)
            rep.check(owner in audited, R, site(h.unit, h.name + "." + m), f"{m} defined in {owner}",
                      f"{m}() of every registered handler resolves to an audited definition",
                      witness="a handler grew its own hash()/verify() that the wiring rules have not seen")
    # plaintext / htdigest verify use their own hash()
    fn = model.func("passlib.handlers.misc", "plaintext.verify")
    rets = [ast.unparse(n.value) for n in walk_no_nested(fn) if isinstance(n, ast.Return)]
    rep.check(rets == ["consteq(cls.hash(secret, encoding), hash)"], R, site("passlib.handlers.misc", "plaintext.verify"), "; ".join(rets),
              "plaintext.verify re-renders the secret with the same encoding and compares")
    fn = model.func("passlib.handlers.digests", "htdigest.verify")
    txt = [ast.unparse(x) for x in fn.body]
    rep.check("other = cls.hash(secret, user, realm, encoding)" in txt and txt[-1] == "return consteq(hash, other)", R,
              site("passlib.handlers.digests", "htdigest.verify"), "; ".join(txt), "htdigest.verify recomputes with (user, realm, encoding) in the same roles",
              witness="htdigest verify() hashes with swapped user/realm")


# ----------------------------------------------------------------------------- C01.e
UTF8 = {"utf-8", "utf8", "UTF-8"}


def rule_e(model, rep):
    R = "C01.e-text-equals-bytes"
    table = HandlerTable(model)
    an = T.Analyzer(model)
    entries = []
    for h in table:
        if h.kind == "wrapper":
            continue
        owner, fn = model.method(h.cref, "_calc_checksum", required=False)
        if fn is not None:
            entries.append((h.name, owner[0], fn, h.cref, "secret"))
        else:
            owner, fn = model.method(h.cref, "hash", required=False)
            if fn is not None:
                entries.append((h.name, owner[0], fn, h.cref, "secret"))
        mm = model.class_const(h.cref, "backends")
        o2, mixmap = model.lookup(h.cref, "_backend_mixin_map")
        if isinstance(mixmap, ast.Dict):
            for v in mixmap.values:
                r = model.resolve(model.unit(o2[0]), v)
                if r and r[0] == "class":
                    o3, f3 = model.method((r[1], r[2]), "_calc_checksum", required=False)
                    if f3 is not None and o3 == (r[1], r[2]):
                        entries.append((f"{h.name}[{r[2]}]", o3[0], f3, (r[1], r[2]), "secret"))
    for name, un, fn, cref, pname in entries:
        before = len(an.findings)
        ps = params(fn)
        arg = pname if pname in ps else (ps[1] if len(ps) > 1 else None)
        if arg is None:
            continue
        an.analyze(un, fn, cref, {arg: T.EITHER})
        new = an.findings[before:]
        s = site(un, model.unit(un).qualname(fn)) + f"<{name}>"
        if not new:
            rep.hold(R, s, "secret reaches every primitive as bytes (or only through normalising callees)")
    seen = set()
    for f in an.findings:
        key = (f.unit, f.qual, f.construct, f.kind)
        if key in seen:
            continue
        seen.add(key)
        rep.violation(R, site(f.unit, f.qual), f"{f.kind}: {f.construct}", f.msg + (f" (via {' -> '.join(f.chain)})" if f.chain else ""),
                      witness="hash('pässword') as text raises TypeError / differs from hash of the UTF-8 bytes: text and bytes forms of one password disagree")
    rep.extra["typeflow_functions"] = sorted(an.visited_funcs)
    rep.minimum(R, 50)
    # encodings used to normalise the secret
    R2 = "C01.e-secret-encoding"
    for fq in sorted(an.visited_funcs):
        un, q = fq.split(":", 1)
        fn = model.func(un, q, required=False)
        if fn is None or "secret" not in params(fn):
            continue
        has_utf8_in = False
        calls = []
        for n in walk_no_nested(fn):
            if isinstance(n, ast.Call):
                name = ast.unparse(n.func)
                if name in ("secret.encode", "secret.decode", "secret.upper().encode") and n.args:
                    calls.append((name, n.args[0], n))
                elif name.split(".")[-1] in ("to_bytes", "to_unicode", "to_native_str") and n.args and ast.unparse(n.args[0]) == "secret":
                    enc = n.args[1] if len(n.args) > 1 else next((k.value for k in n.keywords if k.arg == "encoding"), None)
                    if enc is not None:
                        calls.append((name, enc, n))
        for name, enc, node in calls:
            if isinstance(enc, ast.Constant):
                if name.endswith("decode") or "to_unicode" in name:
                    ok = enc.value in UTF8
                else:
                    asserts_str = any(isinstance(x, ast.Assert) and ast.unparse(x.test) == "isinstance(secret, str)" for x in fn.body)
                    ok = enc.value in UTF8 or (enc.value in ("utf-16-le", "utf-16-be") and (asserts_str or any(
                        (c[0].endswith("decode") or "to_unicode" in c[0]) for c in calls)))
                rep.check(ok, R2, site(un, q), ast.unparse(node), "text passwords are encoded as UTF-8 (UTF-16 only after a UTF-8 decode)",
                          witness="verify(text) and verify(text.encode('utf-8')) disagree for non-ASCII passwords")
            else:
                ok = qtext(enc).loose("encoding")
                rep.check(ok, R2, site(un, q), ast.unparse(node), "encoding taken from the handler's `encoding` context value")
    rep.minimum(R2, 25)


# ----------------------------------------------------------------------------- C01.f
def rule_f(model, rep):
    R = "C01.f-prefix-wrapper"
    W = "PrefixWrapper."
    fn = model.func(UH, W + "_unwrap_hash")
    txt = [ast.unparse(x) for x in fn.body if not (isinstance(x, ast.Expr) and isinstance(x.value, ast.Constant))]
    ok = txt == ["prefix = self.prefix", "if not hash.startswith(prefix):\n    raise exc.InvalidHashError(self)",
                 "return self.orig_prefix + hash[len(prefix):]"]
    sd = single_defs(fn)
    rets = [n for n in walk_no_nested(fn) if isinstance(n, ast.Return)]
    shape = _strip_add(rets[0].value, sd) if len(rets) == 1 else None
    rep.check(shape == ("self.orig_prefix", "self.prefix"), R, site(UH, W + "_unwrap_hash"), ast.unparse(rets[0]) if rets else "<none>",
              "unwrap = orig_prefix + hash[len(prefix):]", witness="wrapped hashes are handed to the inner hasher with the wrong prefix")
    g = [n for n in walk_no_nested(fn) if isinstance(n, ast.If) and any(isinstance(x, ast.Raise) for x in n.body)]
    rep.check(len(g) == 1 and _starts_guard(g[0].test, sd) == "self.prefix", R, site(UH, W + "_unwrap_hash"),
              ast.unparse(g[0].test) if g else "<none>", "unwrap refuses strings that lack the wrapper prefix")
    fn = model.func(UH, W + "_wrap_hash")
    sd = single_defs(fn)
    rets = [n for n in walk_no_nested(fn) if isinstance(n, ast.Return)]
    shape = _strip_add(rets[0].value, sd) if len(rets) == 1 else None
    rep.check(shape == ("self.prefix", "self.orig_prefix"), R, site(UH, W + "_wrap_hash"), ast.unparse(rets[0]) if rets else "<none>",
              "wrap = prefix + hash[len(orig_prefix):]  (inverse of unwrap)", witness="hash() output is not recognised by the wrapper's own verify()")
    g = [n for n in walk_no_nested(fn) if isinstance(n, ast.If) and any(isinstance(x, ast.Raise) for x in n.body)]
    rep.check(len(g) == 1 and _starts_guard(g[0].test, sd) == "self.orig_prefix", R, site(UH, W + "_wrap_hash"),
              ast.unparse(g[0].test) if g else "<none>", "wrap refuses strings that lack the inner prefix")
    # hash wraps, others unwrap before delegating
    fn = model.func(UH, W + "hash")
    rets = [ast.unparse(n.value) for n in walk_no_nested(fn) if isinstance(n, ast.Return)]
    rep.check(rets == ["self._wrap_hash(self.wrapped.hash(secret, **kwds))"], R, site(UH, W + "hash"), "; ".join(rets), "hash() wraps the inner hash")
    for m, deleg in (("verify", "self.wrapped.verify(secret, hash, **kwds)"), ("needs_update", "self.wrapped.needs_update(hash, **kwds)"),
                     ("identify", "self.wrapped.identify(hash)")):
        fn = model.func(UH, W + m)
        body = [ast.unparse(x) for x in fn.body]
        rets = [ast.unparse(n.value) for n in walk_no_nested(fn) if isinstance(n, ast.Return) and not (isinstance(n.value, ast.Constant))]
        ok = rets == [deleg] and "hash = self._unwrap_hash(hash)" in body and body.index("hash = self._unwrap_hash(hash)") < len(body) - 1
        rep.check(ok, R, site(UH, W + m), "; ".join(body[-2:]), f"{m}() unwraps, then delegates: {deleg}",
                  witness=f"wrapper {m}() hands the prefixed string to the inner hasher")
    fn = model.func(UH, W + "genhash")
    body = ast.unparse(fn)
    rep.check("config = self._unwrap_hash(config)" in body and "return self._wrap_hash(self.wrapped.genhash(secret, config, **kwds))" in body, R,
              site(UH, W + "genhash"), "unwrap config / wrap result", "genhash() unwraps the config and wraps the result")
    # constructor consistency condition for explicit ident (C17.d) on every wrapper
    table = HandlerTable(model)
    for h in table:
        if h.kind != "wrapper":
            continue
        ident = h.ident_arg
        if ident is None:
            rep.hold(R, site(h.unit, h.name), "no explicit ident")
            continue
        if ident is True:
            rep.check(bool(h.prefix), R, site(h.unit, h.name), f"ident=True prefix={h.prefix!r}", "ident=True requires a prefix")
            continue
        ok = ident[: len(h.prefix)] == h.prefix[: len(ident)]
        rep.check(ok, R, site(h.unit, h.name), f"ident={ident!r} prefix={h.prefix!r}", "ident must agree with prefix (constructor condition)",
                  witness=f"importing passlib.hash.{h.name} raises ValueError")


def _strip_add(e, sd):
    """match  A + hash[len(B):]  -> (A, B) with single-def temps expanded"""
    def ex(x):
        if isinstance(x, ast.Name) and x.id in sd:
            return ast.unparse(sd[x.id])
        return ast.unparse(x)
    if isinstance(e, ast.BinOp) and isinstance(e.op, ast.Add) and isinstance(e.right, ast.Subscript) and isinstance(e.right.slice, ast.Slice):
        sl = e.right.slice
        if sl.upper is None and isinstance(sl.lower, ast.Call) and ast.unparse(sl.lower.func) == "len" and ast.unparse(e.right.value) == "hash":
            return ex(e.left), ex(sl.lower.args[0])
    return None


def _starts_guard(test, sd):
    t = test
    if isinstance(t, ast.UnaryOp) and isinstance(t.op, ast.Not):
        t = t.operand
        if isinstance(t, ast.Call) and ast.unparse(t.func) == "hash.startswith" and t.args:
            a = t.args[0]
            if isinstance(a, ast.Name) and a.id in sd:
                return ast.unparse(sd[a.id])
            return ast.unparse(a)
    return None


def rule_g(model, rep):
    """near-miss passwords must not verify: every byte of the secret reaches the digest, except the documented equivalences;
    hashers with an `encoding` context value convert text with *that* encoding"""
    R = "C01.g-every-byte-counts"
    DES = "passlib.handlers.des_crypt"
    for q in ("_bsdi_secret_to_key", "bigcrypt._calc_checksum"):
        fn = model.func(DES, q)
        loops = [n for n in walk_no_nested(fn) if isinstance(n, ast.While)]
        t = qtext(fn)
        ok = len(loops) == 1 and ast.unparse(loops[0].test) == "idx < end" and "end = len(secret)" in t and "next = idx + 8" in t and "idx = next" in t and "secret[idx:next]" in t
        rep.check(ok, R, site(DES, q), ast.unparse(loops[0].test) if loops else "<none>", "the block loop runs while idx < len(secret) in steps of 8, so a trailing partial block is consumed too",
                  witness="a 13-byte password verifies with its 8-byte prefix (the partial last block never reaches the key)")
    fn = model.func("passlib.handlers.mysql", "mysql323._calc_checksum")
    loops = [n for n in walk_no_nested(fn) if isinstance(n, ast.For)]
    white = [n for n in walk_no_nested(fn) if isinstance(n, ast.Assign) and ast.unparse(n.targets[0]) == "WHITE"]
    wv = model.fold(model.unit("passlib.handlers.mysql"), white[0].value) if white else UNKNOWN
    ok = len(loops) == 1 and ast.unparse(loops[0].iter) == "secret" and wv == b" \t" and any(ast.unparse(x) == "if c in WHITE:\n    continue" for x in loops[0].body)
    rep.check(ok, R, site("passlib.handlers.mysql", "mysql323._calc_checksum"), f"for c in {ast.unparse(loops[0].iter) if loops else '?'}; WHITE={wv!r}",
              "mysql323 walks every byte of the secret and skips only space and tab (the documented equivalence)",
              witness="hash('mypass') verifies 'mypass\\n': newline / CR / VT / FF are ignored as well")
    # encoding context
    table = HandlerTable(model)
    n = 0
    for h in table:
        if h.kind == "wrapper":
            continue
        ck = table.const(h, "context_kwds")
        if not (isinstance(ck, tuple) and "encoding" in ck):
            continue
        for m in ("hash", "_calc_checksum", "raw"):
            owner, fn = model.method(h.cref, m, required=False)
            if fn is None or "secret" not in params(fn) or owner[0] == UH:
                continue
            convs = []
            for x in walk_no_nested(fn):
                if isinstance(x, ast.Call):
                    name = ast.unparse(x.func)
                    if name in ("secret.encode", "secret.upper().encode") and x.args:
                        convs.append((x, ast.unparse(x.args[0])))
                    elif name.split(".")[-1] in ("to_bytes", "to_native_str", "to_unicode") and x.args and ast.unparse(x.args[0]) == "secret":
                        enc = x.args[1] if len(x.args) > 1 else next((k.value for k in x.keywords if k.arg == "encoding"), None)
                        convs.append((x, ast.unparse(enc) if enc is not None else "<default utf-8>"))
            for x, enc in convs:
                n += 1
                rep.check("encoding" in enc, R, site(owner[0], f"{owner[1]}.{m}") + f"<{h.name}>", ast.unparse(x)[:80],
                          "a hasher that takes an `encoding` context value converts text passwords with that encoding",
                          witness=f"{h.name}.hash('pässword', encoding='latin-1') differs from the hash of 'pässword'.encode('latin-1'): text and bytes forms of one password disagree")
    rep.minimum(R, 5)


def rule_h(model, rep):
    """the empty password is an admissible password: helpers that divide by the length of their argument are reached
    only under a truthiness guard of the caller-supplied text"""
    R = "C01.h-empty-input"
    U = "passlib.utils"
    dividers = set()
    for name, fn in model.unit(U).funcs.items():
        ps = params(fn)
        for n in walk_no_nested(fn):
            if isinstance(n, ast.BinOp) and isinstance(n.op, (ast.FloorDiv, ast.Mod, ast.Div)) and isinstance(n.right, ast.Call) and ast.unparse(n.right.func) == "len" \
                    and n.right.args and isinstance(n.right.args[0], ast.Name) and n.right.args[0].id in ps[:1]:
                dividers.add(name)
    rep.check({"repeat_string", "utf8_repeat_string"} <= dividers, R, site(U, "repeat_string"), f"functions dividing by len(first argument): {sorted(dividers)}", "helpers that cannot take an empty string are known")
    n = 0
    for un, unit in model.units.items():
        if not un.startswith(("passlib.", "libpass.")):
            continue
        for q, fn in unit.functions():
            for c in walk_no_nested(fn):
                if isinstance(c, ast.Call) and ast.unparse(c.func).split(".")[-1] in dividers and c.args and isinstance(c.args[0], ast.Name) and c.args[0].id in ("secret", "user", "password", "pwd", "realm"):
                    arg = c.args[0].id
                    n += 1
                    cur, guarded = c, False
                    while cur is not fn and cur is not None:
                        par = unit.parent(cur)
                        if isinstance(par, ast.If) and cur in par.body and ast.unparse(par.test) in (arg, f"len({arg})", f"{arg} and require_valid_utf8_bytes"):
                            guarded = True
                        cur = par
                    rep.check(guarded, R, site(un, q), f"{ast.unparse(c)}  # not under `if {arg}:`", f"`{ast.unparse(c.func)}` divides by len({arg}); the call is reached only when `{arg}` is non-empty",
                              witness=f"the empty {arg} raises ZeroDivisionError instead of being hashed (e.g. bcrypt.using(ident='2').hash(''))")
    if n < 3:
        rep.undecided(R, "<instance-count>", f"only {n} guarded call sites found, expected at least 3")


def rule_i(model, rep):
    """hashing succeeds for every admissible password: the bcrypt library (>= 5.0) raises for secrets longer than 72 bytes, which bcrypt
    ignores anyway, so every call into it must cut the secret first (passlib's own backend does, see C03.e)"""
    R = "C01.i-bcrypt-72"
    LBU = "libpass.hashers.bcrypt"
    n = 0
    for q in ("BcryptHasher.hash", "BcryptHasher.verify"):
        fn = model.func(LBU, q)
        for c in walk_no_nested(fn):
            if isinstance(c, ast.Call) and ast.unparse(c.func) in ("bcrypt.hashpw", "bcrypt.checkpw"):
                arg = c.args[0] if c.args else next((k.value for k in c.keywords if k.arg == "password"), None)
                n += 1
                t = ast.unparse(arg) if arg is not None else "<none>"
                ok = isinstance(arg, ast.Subscript) and isinstance(arg.slice, ast.Slice) and arg.slice.lower is None and isinstance(arg.slice.upper, ast.Constant) and arg.slice.upper.value == 72
                rep.check(ok, R, site(LBU, q), f"{ast.unparse(c.func)}({t}, ...)", "the secret handed to the bcrypt library is cut to the 72 bytes bcrypt uses",
                          witness="BcryptHasher(rounds=4).hash('a' * 73) raises ValueError (bcrypt 5.0), and verify(h, 'b' * 200) raises instead of returning False; "
                                  "the repository's own tests/libpass test_password_truncation expects silent truncation")
    if n < 2:
        rep.undecided(R, "<instance-count>", f"only {n} calls into the bcrypt library found in BcryptHasher")


def rule_j(model, rep):
    """hash() and verify() run the same `_calc_checksum`; they differ only in `self.use_defaults` (true while a *new* hash is made).
    Whatever the algorithm consumes must therefore not be rebound inside a block that runs on one of the two paths only: a `secret`
    re-encoded / cut / case-folded under `if self.use_defaults:` makes the stored digest one the verifier never recomputes"""
    R = "C01.j-one-path-rebinding"
    n = 0
    for un, unit in model.units.items():
        if not un.startswith(("passlib.handlers", "passlib.utils.handlers")):
            continue
        for q, fn in unit.functions():
            if q.split(".")[-1] not in ("_calc_checksum", "_calc_checksum_raw") or unit.enclosing_class(fn) is None:
                continue
            ps = [a.arg for a in fn.args.args][1:]
            if not ps:
                continue
            n += 1
            bad = []
            for blk in [x for x in walk_no_nested(fn) if isinstance(x, ast.If) and any(isinstance(y, ast.Attribute) and ast.unparse(y) in ("self.use_defaults",) for y in ast.walk(x.test))]:
                for st in blk.body + blk.orelse:
                    for a in ast.walk(st):
                        if isinstance(a, (ast.Assign, ast.AugAssign)):
                            tg = a.targets if isinstance(a, ast.Assign) else [a.target]
                            for t in tg:
                                if isinstance(t, ast.Name) and t.id in ps:
                                    bad.append(f"line {a.lineno}: {ast.unparse(a)[:70]}")
            rep.check(not bad, R, site(un, q), "; ".join(bad) or f"{ps} not rebound under `if self.use_defaults`",
                      "the password (and the other inputs of the digest) are not rebound on the hash-time-only path",
                      witness="lmhash.hash('caf\u00e9') no longer verifies 'caf\u00e9': the text is encoded before raw() case-folds it, on the hash path only")
    if n < 40:
        rep.undecided(R, "<instance-count>", f"only {n} _calc_checksum methods found, expected at least 40")


def run(model, rep):
    rep.explanation = __doc__
    rep.assumptions = ["`secret` is str|bytes at _calc_checksum entry (validate_secret ran; checked by C05.b)",
                       "library calls not listed as bytes sinks do not constrain the type",
                       "hashlib / bcrypt / argon2 recompute deterministically (not analysed)"]
    LC.rule_render_parse_agreement(model, rep, "C01.a-render-parse-class")
    n = LC.rule_variant_slot_bypass(model, rep, "C01.b-variant-slot")
    rep.minimum("C01.a-render-parse-class", 6)
    rep.minimum("C01.b-variant-slot", 4)
    rule_c(model, rep)
    rule_d(model, rep)
    rule_e(model, rep)
    rule_h(model, rep)
    rule_i(model, rep)
    rule_j(model, rep)
    from . import c05 as _c05
    _c05.rule_b(model, Renamed(rep, {"C05.b": "C01.m-size-check"}, "C01.x-"))
    c12.rule_copies(model, Renamed(rep, {"C12.g": "C01.k-libpass-helper-copies"}, "C01.x-"))
    from . import shared as _shared
    _shared.rule_len_after_encode(model, rep, "C01.o-length-in-bytes", ("passlib.handlers", "passlib.utils.handlers", "libpass.hashers"), minimum=20)
    _shared.rule_case_after_decode(model, rep, "C01.p-case-folding-on-text", ("passlib.handlers", "passlib.utils.handlers", "libpass.hashers"), minimum=5)
    nb = _shared.rule_bytes_case_folding(model, rep, "C01.p-case-folding-on-text", ("passlib.handlers", "libpass.hashers"))
    if nb < 5:
        rep.undecided("C01.p-case-folding-on-text", "<instance-count>", f"only {nb} bytes branches found, expected at least 5")
    # hash() / verify() reach the checksum through the lazily selected backend: the selection state is written by set_backend alone and a
    # dry-run query installs nothing (rule shared with C03)
    from . import c03 as _c03
    _c03.rule_g(model, Renamed(rep, {"C03.g-backend-state-owner": "C01.n-backend-state", "C03.g-dryrun-forwarded": "C01.n-dryrun-forwarded"}, "C01.x-"))
    c12.rule_alphabets(model, Renamed(rep, {"C12.e": "C01.l-codec-alphabets", "C12.f": "C01.l-b64-helpers"}, "C01.x-"))
    rule_f(model, rep)
    rule_g(model, rep)
