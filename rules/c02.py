"""C02 -- every format computes the published algorithm bit for bit.

Decided: (a) the order/offset tables the optimised code relies on equal tables generated in the
checker from the published algorithms; (b) magic constants and fixed parameters equal the formats'
specifications; (c) the two independent copies of sha-crypt (passlib, not executed by the suite, and
libpass, executed) are the same algorithm after normalisation; (d) for each format the *recipe* --
which values are concatenated in which order into which primitive, iteration counts, key lengths,
block strides -- matches the specification.  Not decided: control logic without sibling or table
(sun_md5_crypt coin flips), and the primitives themselves (C11)."""
from __future__ import annotations

import ast

from pv.q import text as qtext
from pv.model import AnalysisError, walk_no_nested, params, UNKNOWN
from pv import refs, unify
from pv.q import has_stmt, has_if, find_if, returns, body_texts
from pv.q import stmts as q_stmts

H = "passlib.handlers."


def site(u, f):
    return f"{u}:{f}"


def rule_tables(model, rep):
    R = "C02.a-order-tables"
    want = refs.sha_crypt_digest_offsets()
    for un in (H + "md5_crypt", H + "sha2_crypt", "libpass.hashers.sha_crypt"):
        v = model.fold(model.unit(un), ast.Name(id="_c_digest_offsets", ctx=ast.Load()))
        bad = [i for i, (a, b) in enumerate(zip(v, want)) if tuple(a) != b] if v is not UNKNOWN else ["?"]
        rep.check(v is not UNKNOWN and tuple(tuple(x) for x in v) == want, R, site(un, "_c_digest_offsets"), f"pairs differing from the generated schedule: {bad[:4]}" if bad else "21 pairs",
                  "round i of the C-digest uses p if i odd, s if i%3, p if i%7, p if i even: the 21 (even, odd) permutation indexes follow",
                  witness="digests differ from crypt(3) for rounds counts reaching the changed position (e.g. rounds = 42k + 2j)")
    for un in (H + "sha2_crypt", "libpass.hashers.sha_crypt"):
        u = model.unit(un)
        for name, ref in (("_256_transpose_map", refs.sha256_transpose()), ("_512_transpose_map", refs.sha512_transpose())):
            v = model.fold(u, ast.Name(id=name, ctx=ast.Load()))
            rep.check(v is not UNKNOWN and tuple(v) == ref, R, site(un, name), f"{len(v) if v is not UNKNOWN else '?'} offsets", f"{name} = Drepper's b64_from_24bit byte order (each triple reversed for the little-endian encoder)",
                      witness="sha-crypt hashes do not verify under crypt(3) / the other implementation")
    v = model.fold(model.unit(H + "md5_crypt"), ast.Name(id="_transpose_map", ctx=ast.Load()))
    rep.check(v is not UNKNOWN and tuple(v) == refs.md5_crypt_transpose(), R, site(H + "md5_crypt", "_transpose_map"), repr(v), "md5-crypt output byte order (to64 listing)")
    v = model.class_const((H + "sha1_crypt", "sha1_crypt"), "_chk_offsets")
    rep.check(v is not UNKNOWN and list(v) == refs.sha1_crypt_offsets(), R, site(H + "sha1_crypt", "sha1_crypt._chk_offsets"), repr(v), "sha1-crypt output order: (i+2,i+1,i) groups then (0,19,18)")
    v = model.fold(model.unit(H + "sun_md5_crypt"), ast.Name(id="_chk_offsets", ctx=ast.Load()))
    rep.check(v is not UNKNOWN and tuple(v) == refs.md5_crypt_transpose(), R, site(H + "sun_md5_crypt", "_chk_offsets"), repr(v), "sun-md5 uses the md5-crypt output order")
    rep.minimum(R, 9)


def rule_constants(model, rep):
    R = "C02.b-constants"
    def const(un, name, want, why, cls=None):
        v = model.class_const((un, cls), name) if cls else model.fold(model.unit(un), ast.Name(id=name, ctx=ast.Load()))
        rep.check(v == want, R, site(un, (cls + "." if cls else "") + name), repr(v)[:80], why, witness="hashes of this format differ from every other implementation")
    const(H + "md5_crypt", "_MD5_MAGIC", b"$1$", "md5-crypt magic")
    const(H + "md5_crypt", "_APR_MAGIC", b"$apr1$", "apache md5-crypt magic")
    const(H + "windows", "_magic", b"KGS!@#$%", "LM hash magic", cls="lmhash")
    const(H + "cisco", "_key", refs.CISCO_TYPE7_KEY, "cisco type 7 XOR key (xlat table)", cls="cisco_type7")
    const(H + "oracle", "ORACLE10_MAGIC", b"\x01\x23\x45\x67\x89\xab\xcd\xef", "oracle10 DES key")
    const(H + "sha2_crypt", "_BNULL", b"\x00", "NUL byte")
    const(H + "md5_crypt", "ident", "$1$", "md5-crypt ident", cls="md5_crypt")
    const(H + "md5_crypt", "ident", "$apr1$", "apr ident", cls="apr_md5_crypt")
    const(H + "sha2_crypt", "ident", "$5$", "sha256-crypt ident", cls="sha256_crypt")
    const(H + "sha2_crypt", "ident", "$6$", "sha512-crypt ident", cls="sha512_crypt")
    const(H + "sha2_crypt", "checksum_size", 43, "sha256-crypt digest chars", cls="sha256_crypt")
    const(H + "sha2_crypt", "checksum_size", 86, "sha512-crypt digest chars", cls="sha512_crypt")
    const(H + "sha2_crypt", "_cdb_use_512", False, "sha256 variant flag", cls="sha256_crypt")
    const(H + "sha2_crypt", "_cdb_use_512", True, "sha512 variant flag", cls="sha512_crypt")
    const(H + "sha2_crypt", "min_rounds", 1000, "sha-crypt minimum rounds", cls="sha256_crypt")
    const(H + "sha2_crypt", "max_rounds", 999999999, "sha-crypt maximum rounds", cls="sha256_crypt")
    # mysql323 seeds
    fn = model.func(H + "mysql", "mysql323._calc_checksum")
    for stmt, why in (("nr1 = 1345345333", "seed nr1 = 0x50305735"), ("nr2 = 305419889", "seed nr2 = 0x12345671"), ("add = 7", "initial add"), ("WHITE = b' \\t'", "only space and tab are skipped"),
                      ("MASK_32 = 4294967295", "32-bit mask"), ("MASK_31 = 2147483647", "31-bit output mask")):
        rep.check(has_stmt(fn, stmt), R, site(H + "mysql", "mysql323._calc_checksum"), stmt, why, witness="mysql323 hashes differ from MySQL's OLD_PASSWORD() (e.g. passwords containing newlines collide)")
    loop = [n for n in walk_no_nested(fn) if isinstance(n, ast.For)]
    ok = len(loop) == 1 and ast.unparse(loop[0].iter) == "secret" and [ast.unparse(x) for x in loop[0].body] == [
        "if c in WHITE:\n    continue", "tmp = c", "nr1 ^= ((nr1 & 63) + add) * tmp + (nr1 << 8) & MASK_32", "nr2 = nr2 + (nr2 << 8 ^ nr1) & MASK_32", "add = add + tmp & MASK_32"]
    rep.check(ok, R, site(H + "mysql", "mysql323._calc_checksum"), ast.unparse(loop[0])[:120] if loop else "<none>", "per-byte mixing step of OLD_PASSWORD(), iterating over every byte of the secret")
    rep.check(returns(fn) == ["f'{nr1 & MASK_31:08x}{nr2 & MASK_31:08x}'"], R, site(H + "mysql", "mysql323._calc_checksum"), "; ".join(returns(fn)), "two 31-bit words as 8 hex digits each")
    # pbkdf2 parameters
    for q, want in (("atlassian_pbkdf2_sha1._calc_checksum", "pbkdf2_hmac('sha1', secret, self.salt, 10000, 32)"), ("cta_pbkdf2_sha1._calc_checksum", "pbkdf2_hmac('sha1', secret, self.salt, self.rounds, 20)"),
                    ("grub_pbkdf2_sha512._calc_checksum", "pbkdf2_hmac('sha512', secret, self.salt, self.rounds, 64)"),
                    ("Pbkdf2DigestHandler._calc_checksum", "pbkdf2_hmac(self._digest, secret, self.salt, self.rounds, self.checksum_size)")):
        fn = model.func(H + "pbkdf2", q)
        rep.check(returns(fn) == [want], R, site(H + "pbkdf2", q), "; ".join(returns(fn)), f"{q.split('.')[0]}: {want}")
    fn = model.func(H + "pbkdf2", "dlitz_pbkdf2_sha1._calc_checksum")
    rep.check(has_stmt(fn, "result = pbkdf2_hmac('sha1', secret, salt, self.rounds, 24)") and has_stmt(fn, "salt = self._get_config()"), R, site(H + "pbkdf2", "dlitz_pbkdf2_sha1._calc_checksum"),
              "pbkdf2(sha1, secret, config-string, rounds, 24)", "dlitz: salt is the whole config string, 24-byte key")
    fn = model.func(H + "windows", "msdcc2.raw")
    rep.check(returns(fn) == ["pbkdf2_hmac('sha1', tmp, user, 10240, 16)"], R, site(H + "windows", "msdcc2.raw"), "; ".join(returns(fn)), "DCC2: PBKDF2-SHA1, 10240 rounds, 16 bytes, salted with the user name")
    for name, want in (("pbkdf2_sha1", ("sha1", 20, "$pbkdf2$")), ("pbkdf2_sha256", ("sha256", 32, "$pbkdf2-sha256$")), ("pbkdf2_sha512", ("sha512", 64, "$pbkdf2-sha512$"))):
        from pv.handlers import HandlerTable
        t = HandlerTable(model)
        h = t.get(name)
        got = (t.const(h, "_digest"), t.const(h, "checksum_size"), t.const(h, "ident"))
        rep.check(got == want, R, site(H + "pbkdf2", name), repr(got), f"{name}: digest, key size and ident")
    rep.minimum(R, 30)


def rule_sibling(model, rep):
    R = "C02.c-sha-crypt-siblings"
    _sha_crypt_spec_facts(model, rep, R)
    rep.minimum(R, 20)
    a = model.func(H + "sha2_crypt", "_raw_sha2_crypt")
    b = model.func("libpass.hashers.sha_crypt", "_sha_crypt")
    try:
        na, ma = unify.normalize(a, "db", keep_globals={"_c_digest_offsets", "h64", "h64_engine"})
        nb, mb = unify.normalize(b, "initial", keep_globals={"_c_digest_offsets", "h64", "h64_engine"})
    except LookupError as e:
        rep.undecided(R, site(H + "sha2_crypt", "_raw_sha2_crypt"), str(e))
        return
    # the encoder object has different names in the two modules
    ta = [ast.unparse(s).replace("h64_engine", "h64") for s in na]
    res = unify.compare(na, nb)
    fa, fb = unify.flatten(na), unify.flatten(nb)
    fa = [(d, t.replace("h64_engine", "h64")) for d, t in fa]
    fb = [(d, t.replace("h64_engine", "h64")) for d, t in fb]
    if [d for d, _ in fa] != [d for d, _ in fb]:
        i = next((i for i, (x, y) in enumerate(zip(fa, fb)) if x != y), min(len(fa), len(fb)))
        xa = fa[i][1] if i < len(fa) else "<end>"
        xb = fb[i][1] if i < len(fb) else "<end>"
        rep.undecided(R, site(H + "sha2_crypt", "_raw_sha2_crypt"), f"the two copies no longer have the same statement structure (first divergence at normalised statement {i}: passlib `{xa[:70]}` vs libpass `{xb[:70]}`)")
        return
    diffs = [(i, x[1], y[1]) for i, (x, y) in enumerate(zip(fa, fb)) if x[1] != y[1]]
    if not diffs:
        rep.hold(R, site(H + "sha2_crypt", "_raw_sha2_crypt") + " ~ libpass.hashers.sha_crypt:_sha_crypt", f"{len(fa)} normalised statements identical")
    for i, x, y in diffs[:3]:
        rep.violation(R, site(H + "sha2_crypt", "_raw_sha2_crypt") + " ~ libpass.hashers.sha_crypt:_sha_crypt", f"statement {i}: passlib `{x[:90]}` vs libpass `{y[:90]}`",
                      "the two implementations of sha256/512-crypt compute different things at this step (after renaming and temp inlining)",
                      witness="hashes made by one API do not verify under the other for the inputs reaching this step (e.g. passwords of 96+ bytes, odd round counts)")
def _sha_crypt_spec_facts(model, rep, R):
    for un, q, pw, h in ((H + "sha2_crypt", "_raw_sha2_crypt", "pwd", "hash_const"), ("libpass.hashers.sha_crypt", "_sha_crypt", "secret", "hash_method")):
        fn = model.func(un, q)
        t = qtext(fn)
        ln = "pwd_len" if pw == "pwd" else "secret_len"
        facts = [(f"{h}({pw} + salt + {pw}).digest()", "digest B = H(pwd, salt, pwd)"), (f"{h}({pw} + salt)", "digest A starts with pwd, salt"),
                 (f"if {ln} < 96:", "memory/speed switch at 96 bytes"), (f"i = {ln} - 1", "P-digest context already holds one copy: len-1 more updates"),
                 (f"{h}({pw} * {ln}).digest()", "P-digest = H(pwd repeated len times)"), (f"{h}(salt * (16 + da[0])).digest()" + ("[:salt_len]" if pw == "pwd" else "[:len(salt)]"), "S-digest = H(salt repeated 16 + A[0] times), cut to the salt length"),
                 ("blocks, tail = divmod(rounds, 42)", "42-round blocks"), ("pairs = tail >> 1", "leftover pairs"), ("if tail & 1:", "odd final round")]
        for f, why in facts:
            rep.check(f in t, R, site(un, q), f, why, witness="sha-crypt digest differs from Drepper's specification for the inputs that reach this step")
        # round loop control: 42-round blocks, then (inside `if tail`) the pairs and the odd last round
        h = h  # digest constructor name in this copy
        tail_if = find_if(fn, "tail")
        ok = len(tail_if) == 1 and [type(x).__name__ for x in tail_if[0].body] == ["Assign", "For", "If"] and ast.unparse(tail_if[0].body[0]) == "pairs = tail >> 1" \
            and ast.unparse(tail_if[0].body[1].iter) == "data[:pairs]" and ast.unparse(tail_if[0].body[2].test) == "tail & 1" and not tail_if[0].orelse
        rep.check(ok, R, site(un, q), "if tail: pairs = tail >> 1; for .. in data[:pairs]; if tail & 1: one more round" if ok else
                  ("leftover-rounds block: " + (ast.unparse(tail_if[0])[:120] if tail_if else "`if tail:` not found")),
                  "leftover rounds: guarded by `tail` itself (a single leftover round has no pair), pairs first, then the odd round",
                  witness="rounds = 42k+1: the last round is skipped -- hashes differ from crypt(3)")
        wl = [n for n in walk_no_nested(fn) if isinstance(n, ast.While) and ast.unparse(n.test) == "blocks"]
        ok = len(wl) == 1 and [ast.unparse(x) for x in wl[0].body][-1] == "blocks -= 1" and isinstance(wl[0].body[0], ast.For) and ast.unparse(wl[0].body[0].iter) == "data"
        rep.check(ok, R, site(un, q), ast.unparse(wl[0])[:100] if wl else "<no `while blocks` loop>", "full blocks: all 21 (even, odd) pairs per block, counted down")
        for rnd, want in (("pair round", f"dc = {h}(odd + {h}(dc + even).digest()).digest()"), ("odd last round", f"dc = {h}(dc + data[pairs][0]).digest()")):
            cnt = sum(1 for x in q_stmts(fn) if ast.unparse(x) == want)
            rep.check(cnt == (2 if rnd == "pair round" else 1), R, site(un, q), f"{cnt} x `{want}`", f"{rnd}: digest chaining as specified (even-round input after the digest, odd-round input before it)")
        perms = [n for n in walk_no_nested(fn) if isinstance(n, ast.Assign) and ast.unparse(n.targets[0]) == "perms"]
        rep.check(len(perms) == 1 and _perm_order(perms[0].value), R, site(un, q), ast.unparse(perms[0].value) if perms else "<none>",
                  "perms = [p, pp, ps, psp, sp, spp] (the order _c_digest_offsets indexes)", witness="rounds mix the P and S digests in the wrong order")
        loops = [n for n in walk_no_nested(fn) if isinstance(n, ast.While) and ast.unparse(n.test) == "i"]
        rep.check(len(loops) == 2, R, site(un, q), f"{len(loops)} countdown loops", "bit-walk over len (A digest) and the len-1 countdown (P digest)")


def _perm_order(lst):
    if not isinstance(lst, ast.List) or len(lst.elts) != 6:
        return False
    def norm(e):
        return ast.unparse(e).replace("dp_dp", "dp + dp").replace("dp_ds", "dp + ds").replace(" ", "")
    return [norm(e) for e in lst.elts] == ["dp", "dp+dp", "dp+ds", "dp+ds+dp", "ds+dp", "ds+dp+dp"]


def rule_recipes(model, rep):
    R = "C02.d-recipes"
    W = "this format's digests differ from the reference implementation / crypt(3) for the affected inputs"

    def facts(un, q, lst):
        fn = model.func(un, q)
        for f, why in lst:
            rep.check(has_stmt(fn, f), R, site(un, q), f, why, witness=W)
        return fn
    # md5-crypt
    fn = facts(H + "md5_crypt", "_raw_md5_crypt", [
        ("db = md5(pwd + salt + pwd).digest()", "B = MD5(pwd, salt, pwd)"), ("a_ctx = md5(pwd + magic + salt)", "A starts with pwd, magic, salt"),
        ("a_ctx_update(repeat_string(db, pwd_len))", "then B repeated to len(pwd)"), ("evenchar = pwd[:1]", "first password char for even bits"),
        ("a_ctx_update(_BNULL if i & 1 else evenchar)", "bit walk: NUL for 1-bits, first char for 0-bits"), ("i >>= 1", "bit walk halves"),
        ("blocks = 23", "1000 rounds = 23 blocks of 42 ..."), ("perms = [pwd, pwd_pwd, pwd_salt, pwd_salt + pwd, salt + pwd, salt + pwd_pwd]", "permutation order p, pp, ps, psp, sp, spp"),
        ("return h64.encode_transposed_bytes(dc, _transpose_map).decode('ascii')", "output transposed and hash64-encoded")])
    tails = [n for n in walk_no_nested(fn) if isinstance(n, ast.For) and ast.unparse(n.iter).startswith("data[")]
    rep.check(len(tails) == 1 and ast.unparse(tails[0].iter) == "data[:17]", R, site(H + "md5_crypt", "_raw_md5_crypt"), ast.unparse(tails[0].iter) if tails else "<none>", "... plus 17 pairs = 34 rounds (23*42 + 34 = 1000)", witness=W)
    inner = [ast.unparse(n.body[0]) for n in walk_no_nested(fn) if isinstance(n, ast.For) and ast.unparse(n.target) == "(even, odd)"]
    rep.check(inner and all(x == "dc = md5(odd + md5(dc + even).digest()).digest()" for x in inner), R, site(H + "md5_crypt", "_raw_md5_crypt"), "; ".join(inner)[:100], "round pair: even round H(dc+even), odd round H(odd+dc)", witness=W)
    # sha1-crypt builtin
    fn = model.func(H + "sha1_crypt", "sha1_crypt._calc_checksum_builtin")
    t = qtext(fn)
    for f, why in (("result = f'{self.salt}$sha1${rounds}'.encode('ascii')", "seed = salt$sha1$rounds"), ("keyed_hmac = compile_hmac('sha1', secret)", "HMAC-SHA1 keyed with the password"),
                   ("return h64.encode_transposed_bytes(result, self._chk_offsets).decode('ascii')", "transposed hash64 output")):
        rep.check(has_stmt(fn, f), R, site(H + "sha1_crypt", "sha1_crypt._calc_checksum_builtin"), f, why, witness=W)
    loop = [n for n in walk_no_nested(fn) if isinstance(n, ast.For)]
    rep.check(len(loop) == 1 and ast.unparse(loop[0].iter) == "range(rounds)" and [ast.unparse(x) for x in loop[0].body] == ["result = keyed_hmac(result)"], R,
              site(H + "sha1_crypt", "sha1_crypt._calc_checksum_builtin"), ast.unparse(loop[0])[:80] if loop else "<none>", "`rounds` HMAC iterations", witness=W)
    # des family
    facts(H + "des_crypt", "_raw_des_crypt", [("salt_value = h64.decode_int12(salt)", "12-bit salt"), ("key_value = _crypt_secret_to_key(secret)", "key from first 8 bytes"),
                                               ("result = des_encrypt_int_block(key_value, 0, salt_value, 25)", "25 salted DES rounds of the zero block"), ("return h64big.encode_int64(result)", "big-endian hash64 of the 64-bit result")])
    fn = facts(H + "des_crypt", "_bsdi_secret_to_key", [("key_value = _crypt_secret_to_key(secret)", "first block"), ("idx = 8", "second block starts at byte 8"), ("end = len(secret)", "walk to the end of the secret"),
                                                         ("next = idx + 8", "8-byte stride"), ("tmp_value = _crypt_secret_to_key(secret[idx:next])", "next block (possibly partial)"),
                                                         ("key_value = des_encrypt_int_block(key_value, key_value) ^ tmp_value", "key = DES(key, key) xor next block"), ("idx = next", "advance")])
    loops = [n for n in walk_no_nested(fn) if isinstance(n, ast.While)]
    rep.check(len(loops) == 1 and ast.unparse(loops[0].test) == "idx < end", R, site(H + "des_crypt", "_bsdi_secret_to_key"), ast.unparse(loops[0].test) if loops else "<none>",
              "every remaining byte is folded in, including a trailing partial block (loop while idx < len)",
              witness="bsdi_crypt builtin: a 13-byte password verifies with its 8-byte prefix (trailing partial block skipped) and differs from crypt(3)")
    facts(H + "des_crypt", "_raw_bsdi_crypt", [("salt_value = h64.decode_int24(salt)", "24-bit salt"), ("key_value = _bsdi_secret_to_key(secret)", "folded key"),
                                                ("result = des_encrypt_int_block(key_value, 0, salt_value, rounds)", "`rounds` salted DES rounds"), ("return h64big.encode_int64(result)", "output encoding")])
    fn = model.func(H + "des_crypt", "_crypt_secret_to_key")
    rep.check(returns(fn) == ["sum(((c & 127) << 57 - i * 8 for i, c in enumerate(secret[:8])))"], R, site(H + "des_crypt", "_crypt_secret_to_key"), "; ".join(returns(fn)),
              "7 low bits of each of the first 8 bytes, placed above a zero parity bit, first byte most significant", witness=W)
    fn = facts(H + "des_crypt", "bigcrypt._calc_checksum", [("chk = _raw_des_crypt(secret, self.salt.encode('ascii'))", "first block with the real salt"), ("idx = 8", "next block at 8"),
                                                             ("chk += _raw_des_crypt(secret[idx:next], chk[-11:-9])", "later blocks salted with the first 2 chars of the previous digest")])
    loops = [n for n in walk_no_nested(fn) if isinstance(n, ast.While)]
    rep.check(len(loops) == 1 and ast.unparse(loops[0].test) == "idx < end", R, site(H + "des_crypt", "bigcrypt._calc_checksum"), ast.unparse(loops[0].test) if loops else "<none>", "all 8-byte blocks incl. a partial last one", witness=W)
    facts(H + "des_crypt", "crypt16._calc_checksum", [("result1 = des_encrypt_int_block(key1, 0, salt_value, 20)", "first half: 20 rounds"), ("result2 = des_encrypt_int_block(key2, 0, salt_value, 5)", "second half: 5 rounds"),
                                                       ("key2 = _crypt_secret_to_key(secret[8:16])", "second key from bytes 8..15"), ("chk = h64big.encode_int64(result1) + h64big.encode_int64(result2)", "two 11-char halves")])
    # bcrypt_sha256 / django
    fn = model.func(H + "bcrypt", "bcrypt_sha256._calc_checksum")
    for f, why in (("digest = sha256(secret).digest()", "v1: plain SHA-256 pre-hash"), ("digest = compile_hmac('sha256', salt.encode('ascii'))(secret)", "v2: HMAC-SHA256 keyed with the (bcrypt64-text) salt, message = password"),
                   ("key = b64encode(digest)", "pre-hash base64-encoded (44 chars, with padding)"), ("return super()._calc_checksum(key)", "bcrypt of the encoded pre-hash")):
        rep.check(has_stmt(fn, f), R, site(H + "bcrypt", "bcrypt_sha256._calc_checksum"), f, why, witness="bcrypt_sha256 hashes are incompatible with other implementations of the format")
    rep.check(has_if(fn, "self.version == 1"), R, site(H + "bcrypt", "bcrypt_sha256._calc_checksum"), "version switch", "v1/v2 dispatch")
    facts(H + "django", "django_bcrypt_sha256._calc_checksum", [("secret = hexlify(self._digest(secret).digest())", "django: hex SHA-256 pre-hash"), ("return super()._calc_checksum(secret)", "then bcrypt")])
    rep.check(model.class_const((H + "django", "django_bcrypt_sha256"), "_digest") is not None, R, site(H + "django", "django_bcrypt_sha256._digest"), "sha256", "django pre-hash digest")
    o, node = model.lookup((H + "django", "django_bcrypt_sha256"), "_digest")
    rep.check(node is not None and ast.unparse(node) == "sha256", R, site(H + "django", "django_bcrypt_sha256._digest"), ast.unparse(node) if node is not None else "<none>", "django bcrypt pre-hash is SHA-256")
    for q, want in (("django_salted_sha1._calc_checksum", "sha1(self.salt.encode('ascii') + secret).hexdigest()"), ("django_salted_md5._calc_checksum", "md5(self.salt.encode('ascii') + secret).hexdigest()")):
        rep.check(returns(model.func(H + "django", q)) == [want], R, site(H + "django", q), "; ".join(returns(model.func(H + "django", q))), "django salted digest = H(salt + password) hex", witness=W)
    facts(H + "django", "django_pbkdf2_sha256._calc_checksum", [("hash = pbkdf2_hmac(self._digest, secret, self.salt, self.rounds)", "PBKDF2 with the class digest, native key size")])
    rep.check(returns(model.func(H + "django", "django_pbkdf2_sha256._calc_checksum")) == ["b64encode(hash).rstrip().decode('ascii')"], R, site(H + "django", "django_pbkdf2_sha256._calc_checksum"), "base64", "django: standard base64 digest")
    facts(H + "django", "django_des_crypt._calc_checksum", [("return des_crypt(salt=self.salt[:2])._calc_checksum(secret)", "des_crypt with the first two salt chars")])
    # simple concatenation recipes
    for un, q, want, why in (
            (H + "postgres", "postgres_md5._calc_checksum", "md5(secret + user).hexdigest()", "MD5(password + user)"),
            (H + "oracle", "oracle11._calc_checksum", "chk.upper()", "upper-case hex"),
            (H + "mysql", "mysql41._calc_checksum", "sha1(sha1(secret).digest()).hexdigest().upper()", "double SHA-1, upper hex"),
            (H + "windows", "nthash.raw", "md4(secret.encode('utf-16-le')).digest()", "MD4 of UTF-16-LE"),
            (H + "windows", "msdcc.raw", "md4(md4(secret).digest() + user).digest()", "MD4(MD4(pwd) + lower(user))"),
            (H + "mssql", "_raw_mssql", "sha1(secret.encode('utf-16-le') + salt).digest()", "SHA1(UTF-16-LE pwd + salt)"),
            (H + "digests", "HexDigestHash._calc_checksum", "self._hash_func(secret).hexdigest()", "plain hex digest"),
            (H + "ldap_digests", "_SaltedBase64DigestHelper._calc_checksum", "self._hash_func(secret + self.salt).digest()", "H(password + salt)"),
            (H + "phpass", "phpass._calc_checksum", "h64.encode_bytes(result).decode('ascii')", "hash64 of the MD5 state"),
            (H + "scram", "scram.derive_digest", "pbkdf2_hmac(alg, saslprep(password), salt, rounds)", "PBKDF2 of the SASLprepped password"),
            (H + "fshp", "fshp._calc_checksum", "pbkdf1(digest=self.checksum_alg, secret=self.salt, salt=secret, rounds=self.rounds, keylen=self.checksum_size)", "PBKDF1 with salt and password swapped (per FSHP)")):
        fn = model.func(un, q)
        rep.check(returns(fn)[-1] == want, R, site(un, q), returns(fn)[-1], why, witness=W)
    facts(H + "oracle", "oracle11._calc_checksum", [("chk = sha1(secret + unhexlify(self.salt.encode('ascii'))).hexdigest()", "SHA1(password + raw salt)")])
    facts(H + "oracle", "oracle10._calc_checksum", [("input = (user + secret).upper().encode('utf-16-be')", "upper(user+password) as UTF-16-BE"), ("hash = des_cbc_encrypt(ORACLE10_MAGIC, input)", "first CBC pass with the magic key"),
                                                    ("hash = des_cbc_encrypt(hash, input)", "second pass keyed with the first result")])
    fn = facts(H + "phpass", "phpass._calc_checksum", [("real_rounds = 1 << self.rounds", "2**rounds iterations"), ("result = md5(self.salt.encode('ascii') + secret).digest()", "init = MD5(salt + password)"),
                                                        ("result = md5(result + secret).digest()", "iterate MD5(state + password)")])
    loops = [n for n in walk_no_nested(fn) if isinstance(n, ast.While)]
    rep.check(len(loops) == 1 and ast.unparse(loops[0].test) == "r < real_rounds", R, site(H + "phpass", "phpass._calc_checksum"), ast.unparse(loops[0].test) if loops else "<none>", "exactly 2**rounds iterations", witness=W)
    facts(H + "mssql", "mssql2000._calc_checksum", [("return _raw_mssql(secret, salt) + _raw_mssql(secret.upper(), salt)", "case-sensitive half + upper-case half")])
    fn = model.func(H + "digests", "htdigest.hash")
    for f, why in (("secret = secret.encode(encoding)", "text passwords encoded with the `encoding` context value"), ("data = render_bytes('%s:%s:%s', user, realm, secret)", "user:realm:password"),
                   ("return hashlib.md5(data).hexdigest()", "MD5 hex")):
        rep.check(has_stmt(fn, f), R, site(H + "digests", "htdigest.hash"), f, why,
                  witness="htdigest.hash(text, encoding='latin-1') no longer equals md5(user:realm:password) in that encoding; the bytes form of the password does not verify")
    fn = model.func(H + "cisco", "cisco_type7._cipher")
    rep.check(returns(fn) == ["bytes((value ^ ord(key[(salt + idx) % key_size]) for idx, value in enumerate(data)))"], R, site(H + "cisco", "cisco_type7._cipher"), "; ".join(returns(fn)),
              "byte i is XORed with key[(salt + i) mod len(key)]", witness=W)
    from pv.norm import single_defs as _sd
    sd = _sd(fn)
    ks, ky = sd.get("key_size"), sd.get("key")
    ok = ks is not None and ky is not None and ast.unparse(ks) in ("len(key)", "len(cls._key)") and ast.unparse(ky) == "cls._key"
    rep.check(ok, R, site(H + "cisco", "cisco_type7._cipher") + " modulus", f"key = {ast.unparse(ky) if ky is not None else '?'}; key_size = {ast.unparse(ks) if ks is not None else '?'}",
              "the index wraps at the length of the key table (53), not at any other bound",
              witness="cisco_type7 with salt + len(password) > 52 (salt=52 and any password; salt=15 and 38 bytes): hash() differs from the IOS encoding and genuine strings no longer verify")
    # cisco pix/asa
    fn = model.func(H + "cisco", "cisco_pix._calc_checksum")
    for f, why in (("secret += repeat_string(user, 4)", "first four characters of the user appended"), ("secret = right_pad_string(secret, pad_size)", "NUL-padded to 16 / 32"),
                   ("digest = md5(secret).digest()", "MD5"), ("digest = bytes((c for i, c in enumerate(digest) if i + 1 & 3))", "every 4th byte dropped"),
                   ("return h64.encode_bytes(digest).decode('ascii')", "hash64 encoding")):
        rep.check(has_stmt(fn, f), R, site(H + "cisco", "cisco_pix._calc_checksum"), f, why, witness=W)
    rep.check(has_if(fn, "not asa or len(secret) < 28") and has_if(fn, "asa and len(secret) > 16", ["pad_size = 32"], ["pad_size = 16"]), R, site(H + "cisco", "cisco_pix._calc_checksum"),
              "user appended unless ASA with 28+ bytes; pad 32 for ASA >16 bytes else 16", "PIX/ASA user-append and padding rules")
    rep.minimum(R, 80)


from . import c07 as _c07  # noqa: E402
from .shared import Renamed as _Renamed  # noqa: E402


def run(model, rep):
    rep.explanation = __doc__
    rep.assumptions = ["references are generated from the specifications cited in pv/refs.py", "hashlib digests and the primitives of C11 are correct"]
    rule_tables(model, rep)
    rule_constants(model, rep)
    rule_sibling(model, rep)
    rule_recipes(model, rep)
    from . import prim
    prim.rule_hmac(model, rep, "C02.e-hmac")
    # a setting that selects the algorithm variant (sun_md5_crypt's bare-salt flag decides whether '$' is part of the salt string that
    # is hashed) must survive rendering, or the string no longer names the digest that was computed
    from pv.handlers import HandlerTable as _HT
    _t = _HT(model)
    rule_scrypt7_salt(model, rep)
    from . import shared as _shared2
    from . import c16 as _c16
    _c16.rule_digest_encoding(model, rep, "C02.i-digest-encoding")
    _shared2.rule_len_after_encode(model, rep, "C02.h-length-in-bytes", ("passlib.handlers", "passlib.crypto", "libpass.hashers"), minimum=20)
    # the cost settings a digest is computed with are those of the hasher it was asked of: using() never writes them to the parent (rule shared with C09)
    from . import c09 as _c09
    _c09.rule_ab(model, _Renamed(rep, {"C09.b": "C02.g-using-write-target", "C09.a": "C02.g-using-fresh-subclass"}, "C02.x-"))
    _c07.rule_b(model, _Renamed(rep, {"C07.b": "C02.f-settings-rendered"}, "C02.x-"), _c07._handler_pairs(model, _t), _c07._libpass_pairs(model))   # sha1_crypt, bcrypt_sha256 v2 and scram/pbkdf2 digests are HMAC based


def rule_scrypt7_salt(model, rep):
    """a `$7$` string keeps its salt as text from the crypt alphabet ./0-9A-Za-z (libxcrypt refuses anything else): the random bytes a new
    `$7$` hash is salted with are therefore spelt with hash64, not with standard base64 (whose `+` is outside that alphabet)"""
    R = "C02.j-scrypt7-salt-alphabet"
    S7 = H + "scrypt"
    fn = model.func(S7, "scrypt._generate_salt")
    enc = [ast.unparse(a.value.func) for a in walk_no_nested(fn) if isinstance(a, ast.Assign) and ast.unparse(a.targets[0]) == "salt" and isinstance(a.value, ast.Call)
           and a.value.args and ast.unparse(a.value.args[0]) == "salt"]
    rep.check(enc == ["h64.encode_bytes"], R, site(S7, "scrypt._generate_salt"), f"salt = {enc[0] if enc else '?'}(salt)", "generated `$7$` salts are encoded with h64.encode_bytes",
              witness="scrypt.using(ident='$7$', rounds=4).hash('password'): about 29% of the strings carry a '+' in the salt field; the OS crypt() answers '*0' for them while passlib verifies them")
