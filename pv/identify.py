"""identify() language of every registered hasher, extracted from source.

The MRO-resolved identify() body is classified against the idioms the tree uses; each idiom yields a
regular language (pv.lang.DFA).  An unclassifiable body raises Unmodelled (-> ANALYSIS-ERROR when a
preset needs that hasher)."""
from __future__ import annotations

import ast
import re

from .lang import DFA, Unsupported
from .model import UNKNOWN, AnalysisError

UH = "passlib.utils.handlers"
FLAG_NAMES = {"I": re.I, "IGNORECASE": re.I, "X": re.X, "VERBOSE": re.X, "S": re.S, "DOTALL": re.S, "M": re.M, "MULTILINE": re.M,
              "A": re.A, "ASCII": re.A, "U": re.U, "UNICODE": re.U}


class Unmodelled(Exception):
    pass


def fold_regex(model, unit, node, cls=None):
    """node: expression `re.compile(pattern[, flags])` -> (pattern str, flags int)"""
    if not (isinstance(node, ast.Call) and ast.unparse(node.func) in ("re.compile", "compile")):
        raise Unmodelled(f"not a re.compile call: {ast.unparse(node)[:60]}")
    pat = model.fold(unit, node.args[0], cls=cls)
    if pat is UNKNOWN:
        raise Unmodelled("regex pattern does not fold")
    flags = 0
    fl = node.args[1] if len(node.args) > 1 else next((k.value for k in node.keywords if k.arg == "flags"), None)
    if fl is not None:
        for n in ast.walk(fl):
            if isinstance(n, ast.Attribute) and n.attr in FLAG_NAMES:
                flags |= FLAG_NAMES[n.attr]
            elif isinstance(n, ast.Name) and n.id in FLAG_NAMES:
                flags |= FLAG_NAMES[n.id]
    if isinstance(pat, bytes):
        pat = pat.decode("latin-1")
    return pat, flags


def _body(fn):
    return [st for st in fn.body if not (isinstance(st, ast.Expr) and isinstance(st.value, ast.Constant))]


class IdentifyModels:
    def __init__(self, model, table):
        self.model, self.table = model, table
        self.cache = {}
        self.how = {}
        self.catchall = set()   # hashers whose identify() accepts (nearly) every string by design

    def lang(self, name):
        if name in self.cache:
            v = self.cache[name]
            if isinstance(v, Exception):
                raise v
            return v
        h = self.table.get(name)
        if h is None:
            raise Unmodelled(f"unknown handler {name}")
        try:
            d = self._lang(h)
        except (Unmodelled, Unsupported) as e:
            self.cache[name] = Unmodelled(f"{name}: {e}")
            raise self.cache[name]
        self.cache[name] = d
        return d

    # ------------------------------------------------------------------
    def _lang(self, h):
        m = self.model
        if h.kind == "wrapper":
            inner = self.lang(h.wrapped)
            self._check_wrapper_identify()
            d = inner.left_quotient(h.orig_prefix).prepend(h.prefix, f"{h.prefix!r} + [{inner.desc}]")
            self.how[h.name] = f"PrefixWrapper(prefix={h.prefix!r}, orig_prefix={h.orig_prefix!r}) over {h.wrapped}"
            return d
        owner, fn = m.method(h.cref, "identify", required=False)
        if fn is None:
            raise Unmodelled("no identify()")
        unit = m.unit(owner[0])
        body = _body(fn)
        txt = [ast.unparse(s) for s in body]
        if owner == (UH, "GenericHandler"):
            self._check_generic_identify(fn)
            ident = self.table.const(h, "ident")
            if isinstance(ident, str):
                self.how[h.name] = f"ident prefix {ident!r}"
                return DFA.prefixes([ident]).nonempty_only()
            o2, rx = m.lookup(h.cref, "_hash_regex")
            if rx is not None and not (isinstance(rx, ast.Constant) and rx.value is None):
                pat, flags = fold_regex(m, m.unit(o2[0]), rx, cls=h.cref)
                self.how[h.name] = f"_hash_regex /{' '.join(pat.split())[:50]}/ flags={flags}"
                return DFA.from_regex(pat, flags).nonempty_only()
            return self._parse_to_identify(h)
        # startswith(cls.<attr>) idiom (HasManyIdents, sun_md5_crypt, bcrypt_sha256, django_*)
        last = body[-1].value if body and isinstance(body[-1], ast.Return) else None
        if isinstance(last, ast.Call) and ast.unparse(last.func) == "hash.startswith" and len(last.args) == 1 \
                and isinstance(last.args[0], ast.Attribute) and ast.unparse(last.args[0].value) == "cls":
            v = self.table.const(h, last.args[0].attr)
            if isinstance(v, str):
                v = (v,)
            if isinstance(v, tuple) and all(isinstance(x, str) for x in v):
                pre_ok = all(t.startswith(("hash = uh.to_unicode_for_identify(hash)", "hash = to_unicode_for_identify(hash)",
                                           "if not hash:", "return hash.startswith(")) for t in txt)
                if not pre_ok:
                    raise Unmodelled(f"identify body has extra statements: {txt}")
                self.how[h.name] = f"startswith cls.{last.args[0].attr} = {v!r}"
                return DFA.prefixes(list(v))
            raise Unmodelled(f"cls.{last.args[0].attr} does not fold to strings")
        # regex attribute idiom (argon2)
        if isinstance(last, ast.Compare) and ast.unparse(last).startswith("cls.") and ".match(hash) is not None" in ast.unparse(last):
            attr = last.left.func.value.attr
            o2, rx = m.lookup(h.cref, attr)
            pat, flags = fold_regex(m, m.unit(o2[0]), rx, cls=h.cref)
            self.how[h.name] = f"cls.{attr} /{pat[:40]}/"
            return DFA.from_regex(pat, flags)
        # plaintext
        if txt == ["if isinstance(hash, unicode_or_bytes):\n    return True", "raise uh.exc.ExpectedStringError(hash, 'hash')"]:
            self.how[h.name] = "accepts every string (catch-all)"
            self.catchall.add(h.name)
            return DFA.anything("plaintext: any string")
        # ldap_plaintext
        if txt == ["hash = uh.to_unicode_for_identify(hash)", "return bool(hash) and cls._2307_pat.match(hash) is None"]:
            o2, rx = m.lookup(h.cref, "_2307_pat")
            pat, flags = fold_regex(m, m.unit(o2[0]), rx, cls=h.cref)
            self.how[h.name] = f"non-empty and not /{pat}/"
            self.catchall.add(h.name)
            return DFA.from_regex(pat, flags).complement().nonempty_only()
        # unix_disabled
        if len(body) == 2 and isinstance(body[0], ast.If) and txt[1] == "return not hash or hash[0] in start":
            chars = m.fold(unit, ast.Name(id="_MARKER_CHARS", ctx=ast.Load()))
            if isinstance(chars, str):
                self.how[h.name] = f"empty or first char in {chars!r}"
                cls_ = "".join(re.escape(c) for c in chars)
                return DFA.from_regex(f"(?s)(?:[{cls_}].*)?$", re.S).union(DFA.from_regex("$").without_trailing_newline())
        # htdigest
        if len(body) == 2 and isinstance(body[0], ast.Try) and "cls._norm_hash(hash)" in txt[0] and txt[1] == "return True":
            nh = m.func(owner[0], f"{owner[1]}._norm_hash")
            t2 = ast.unparse(nh)
            mlen = re.search(r"len\(hash\) != (\d+)", t2)
            if mlen and "uh.LC_HEX_CHARS" in t2:
                chars = m.fold(m.unit(UH), ast.Name(id="LC_HEX_CHARS", ctx=ast.Load()))
                self.how[h.name] = f"{mlen.group(1)} chars of {chars!r}"
                return DFA.fixed("", chars, int(mlen.group(1)))
        # mssql
        if len(body) == 1 and isinstance(body[0], ast.Return) and isinstance(body[0].value, ast.Call) and ast.unparse(body[0].value.func) == "_ident_mssql":
            size = m.fold(unit, body[0].value.args[1])
            pre = m.fold(unit, ast.Name(id="UIDENT", ctx=ast.Load()))
            helper = ast.unparse(m.func(owner[0], "_ident_mssql"))
            if isinstance(size, int) and isinstance(pre, str) and "len(hash) == csize and hash.startswith(UIDENT)" in helper:
                self.how[h.name] = f"length {size} and startswith {pre!r}"
                return DFA.from_regex(re.escape(pre) + f".{{{size - len(pre)}}}$", re.S).without_trailing_newline()
        raise Unmodelled(f"identify body of {owner[1]} not classified: {txt}")

    def _parse_to_identify(self, h):
        """GenericHandler.identify falling back to from_string(): modelled for StaticHandler descendants"""
        m = self.model
        mro = m.mro(h.cref)
        o, fs = m.method(h.cref, "from_string", required=False)
        if o != (UH, "StaticHandler"):
            raise Unmodelled(f"parse-to-identify with custom from_string in {o}")
        prefix = self.table.const(h, "_hash_prefix")
        size = self.table.const(h, "checksum_size")
        chars = self.table.const(h, "checksum_chars")
        if not isinstance(prefix, str) or not isinstance(size, int) or not isinstance(chars, str):
            raise Unmodelled(f"static handler constants do not fold: prefix={prefix!r} size={size!r}")
        o2, nh = m.method(h.cref, "_norm_hash", required=False)
        icase = False
        if nh is not None and o2 != (UH, "StaticHandler"):
            rets = [ast.unparse(n.value) for n in ast.walk(nh) if isinstance(n, ast.Return)]
            if rets in (["hash.lower()"], ["hash.upper()"]):
                icase = True
            else:
                raise Unmodelled(f"_norm_hash of {o2} not classified: {rets}")
        self.how[h.name] = f"parse-to-identify: {prefix!r} + {size} chars of {len(chars)}-char set" + (" (case-insensitive)" if icase else "")
        return DFA.fixed(prefix, chars, size, icase).nonempty_only()

    def _check_generic_identify(self, fn):
        """the order ident -> regex -> parse is what the models above assume"""
        if getattr(self, "_gen_checked", False):
            return
        txt = ast.unparse(fn)
        i1 = txt.find("if ident is not None:\n        return hash.startswith(ident)")
        i2 = txt.find("if pat is not None:\n        return pat.match(hash) is not None")
        i3 = txt.find("cls.from_string(hash)")
        i0 = txt.find("if not hash:\n        return False")
        if not (0 < i0 < i1 < i2 < i3):
            raise AnalysisError("GenericHandler.identify no longer has the shape empty->ident->regex->parse the identify models assume")
        self._gen_checked = True

    def _check_wrapper_identify(self):
        if getattr(self, "_wrap_checked", False):
            return
        fn = self.model.func(UH, "PrefixWrapper.identify")
        txt = [ast.unparse(s) for s in _body(fn)]
        want = ["hash = to_unicode_for_identify(hash)", "if not hash.startswith(self.prefix):\n    return False",
                "hash = self._unwrap_hash(hash)", "return self.wrapped.identify(hash)"]
        if txt != want:
            raise AnalysisError("PrefixWrapper.identify no longer has the shape the identify models assume")
        self._wrap_checked = True
