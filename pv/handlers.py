"""Handler table: every name in passlib.registry._locations resolved statically to a class,
a PrefixWrapper(...) construction, a class-factory product, or a name injected by the ldap loop."""
from __future__ import annotations

import ast

from .model import AnalysisError, UNKNOWN

DIGEST_SIZES = {"md4": 16, "md5": 16, "sha1": 20, "sha224": 28, "sha256": 32, "sha384": 48, "sha512": 64}


class Handler:
    def __init__(self, name, kind, unit, **kw):
        self.name, self.kind, self.unit = name, kind, unit
        self.cref = kw.get("cref")          # class / factory base
        self.attrs = kw.get("attrs", {})    # factory-supplied class attributes (folded)
        self.wrapped = kw.get("wrapped")    # wrapper: wrapped handler name
        self.prefix = kw.get("prefix", "")
        self.orig_prefix = kw.get("orig_prefix", "")
        self.ident_arg = kw.get("ident")
        self.node = kw.get("node")

    def __repr__(self):
        return f"<Handler {self.name} {self.kind}>"


class HandlerTable:
    def __init__(self, model):
        self.model = model
        reg = model.unit("passlib.registry")
        vals = reg.assigns.get("_locations")
        if not vals:
            raise AnalysisError("passlib.registry._locations vanished")
        loc = model.fold(reg, vals[0])
        if loc is UNKNOWN or not isinstance(loc, dict):
            raise AnalysisError("registry._locations does not fold to a dict")
        self.locations = loc
        self.handlers = {}
        self.missing = {}   # registry names whose module does not bind them (positive defect, reported by C17.a)
        for name, path in sorted(loc.items()):
            modname, _, attr = path.partition(":")
            h = self._resolve(name, modname, attr or name)
            if h is None:
                self.missing[name] = path
            else:
                self.handlers[name] = h

    def __iter__(self):
        return iter(self.handlers.values())

    def get(self, name):
        return self.handlers.get(name)

    def _resolve(self, name, modname, attr):
        m = self.model
        u = m.units.get(modname)
        if u is None:
            if modname.startswith(("passlib.", "libpass.")):
                return None
            raise AnalysisError(f"registry: module {modname} for {name} not in tree")
        if attr in u.classes:
            return Handler(name, "class", modname, cref=(modname, attr), node=u.classes[attr])
        if attr in u.assigns:
            v = u.assigns[attr][-1]
            if isinstance(v, ast.Call):
                fn = ast.unparse(v.func)
                if fn.endswith("PrefixWrapper"):
                    return self._wrapper(name, u, v)
                r = m.resolve(u, v.func)
                if r and r[0] == "func":
                    return self._factory(name, u, v, m.units[r[1]], m.units[r[1]].funcs[r[2]])
            raise AnalysisError(f"registry: {modname}.{attr} has unrecognised construction {ast.unparse(v)[:80]}")
        # injected by a globals() loop (ldap crypt wrappers)
        h = self._ldap_loop(name, u)
        if h is not None:
            return h
        return None

    def _wrapper(self, name, u, call):
        m = self.model
        pnames = ["name", "wrapped", "prefix", "orig_prefix", "lazy", "doc", "ident"]
        got = {}
        for p, a in zip(pnames, call.args):
            got[p] = a
        for k in call.keywords:
            got[k.arg] = k.value
        wname = m.fold(u, got["name"]) if "name" in got else UNKNOWN
        w = got.get("wrapped")
        wrapped = None
        if w is not None:
            v = m.fold(u, w)
            if isinstance(v, str):
                wrapped = v
            elif isinstance(w, ast.Name):
                wrapped = w.id  # module-level handler object, registered under its own name
            elif isinstance(w, ast.Call) and isinstance(w.func, ast.Attribute) and w.func.attr == "using" \
                    and isinstance(w.func.value, ast.Name):
                wrapped = w.func.value.id  # X.using(...) customisation of a registered handler
        prefix = m.fold(u, got["prefix"]) if "prefix" in got else ""
        orig = m.fold(u, got["orig_prefix"]) if "orig_prefix" in got else ""
        ident = m.fold(u, got["ident"]) if "ident" in got else None
        if UNKNOWN in (wname, prefix, orig, ident) or wrapped is None:
            raise AnalysisError(f"PrefixWrapper arguments for {name} do not fold")
        return Handler(name, "wrapper", u.name, wrapped=wrapped, prefix=prefix, orig_prefix=orig, ident=ident, node=call,
                       attrs={"name": wname})

    def _factory(self, name, u, call, fu, fn):
        """class factory whose body builds `type(name, (Base,), dict(...))`"""
        m = self.model
        a = fn.args
        names = [x.arg for x in a.args]
        env = {}
        for i, d in enumerate(a.defaults):
            pn = names[len(names) - len(a.defaults) + i]
            v = m.fold(fu, d)
            env[pn] = None if (isinstance(d, ast.Name) and d.id == "__name__") else v
        for n_, v in zip(names, call.args):
            env[n_] = m.fold(u, v)
        for k in call.keywords:
            env[k.arg] = m.fold(u, k.value)
        tcall = None
        for n in ast.walk(fn):
            if isinstance(n, ast.Call) and isinstance(n.func, ast.Name) and n.func.id == "type" and len(n.args) == 3:
                tcall = n
        if tcall is None:
            raise AnalysisError(f"factory {fn.name} has no type(...) call")
        # straight-line local bindings before the type() call
        for st in fn.body:
            if isinstance(st, ast.Assign) and len(st.targets) == 1 and isinstance(st.targets[0], ast.Name):
                tgt = st.targets[0].id
                if isinstance(st.value, ast.Call) and ast.unparse(st.value.func) == "lookup_hash":
                    dig = env.get(names[0])
                    if dig not in DIGEST_SIZES:
                        raise AnalysisError(f"factory {fn.name}: digest {dig!r} not in the modelled table")
                    env["__info__"] = dig
                    env[tgt] = ("__hashinfo__", dig)
                    continue
                if tgt not in env or env[tgt] is UNKNOWN or tgt in ("name", "ident", "base"):
                    v = self._fold_env(fu, st.value, env)
                    if v is not UNKNOWN:
                        env[tgt] = v
                    elif isinstance(st.value, ast.Name):
                        env[tgt] = ("__ref__", st.value.id)
            elif isinstance(st, ast.If):
                # `if ident is None: ident = f"..."`
                t = self._fold_env(fu, st.test, env)
                if t is not UNKNOWN and t:
                    for s2 in st.body:
                        if isinstance(s2, ast.Assign) and isinstance(s2.targets[0], ast.Name):
                            v = self._fold_env(fu, s2.value, env)
                            if v is not UNKNOWN:
                                env[s2.targets[0].id] = v
        bases = tcall.args[1]
        base = None
        if isinstance(bases, ast.Tuple) and len(bases.elts) == 1:
            b = bases.elts[0]
            if isinstance(b, ast.Name) and isinstance(env.get(b.id), tuple) and env[b.id][0] == "__ref__":
                b = ast.Name(id=env[b.id][1])
            r = m.resolve(fu, b)
            if r and r[0] == "class":
                base = (r[1], r[2])
        if base is None:
            raise AnalysisError(f"factory {fn.name}: base class not resolved")
        attrs = {}
        d = tcall.args[2]
        kws = d.keywords if isinstance(d, ast.Call) else []
        for k in kws:
            if k.arg in ("__doc__", "__module__"):
                continue
            v = self._fold_env(fu, k.value, env)
            if v is UNKNOWN and isinstance(k.value, ast.Call) and ast.unparse(k.value.func) == "staticmethod":
                v = ("__hashfunc__", env.get("__info__"))
            attrs[k.arg] = v
        cname = self._fold_env(fu, tcall.args[0], env)
        attrs.setdefault("name", cname)
        return Handler(name, "factory", u.name, cref=base, attrs=attrs, node=call)

    def _fold_env(self, fu, e, env):
        m = self.model
        # info.name / info.digest_size on the modelled HashInfo
        class T(ast.NodeTransformer):
            def visit_Attribute(self, node):
                if isinstance(node.value, ast.Name) and isinstance(env.get(node.value.id), tuple) \
                        and env[node.value.id][0] == "__hashinfo__":
                    dig = env[node.value.id][1]
                    if node.attr == "name":
                        return ast.Constant(value=dig)
                    if node.attr == "digest_size":
                        return ast.Constant(value=DIGEST_SIZES[dig])
                return self.generic_visit(node)
        import copy
        e2 = T().visit(copy.deepcopy(e))
        ast.fix_missing_locations(e2)
        env2 = {k: v for k, v in env.items() if v is not UNKNOWN and not (isinstance(v, tuple) and v and v[0] in ("__hashinfo__", "__ref__"))}
        return m.fold(fu, e2, env=env2)

    def _ldap_loop(self, name, u):
        m = self.model
        fn = u.funcs.get("_init_ldap_crypt_handlers")
        if fn is None:
            return None
        loop = next((n for n in ast.walk(fn) if isinstance(n, ast.For)), None)
        if loop is None:
            return None
        seq = m.fold(u, loop.iter)
        if seq is UNKNOWN:
            raise AnalysisError("ldap crypt loop: iterable does not fold")
        call = next((n for n in ast.walk(loop) if isinstance(n, ast.Call) and ast.unparse(n.func).endswith("PrefixWrapper")), None)
        if call is None:
            return None
        var = loop.target.id
        for w in seq:
            env = {var: w}
            for st in loop.body:
                if isinstance(st, ast.Assign) and isinstance(st.targets[0], ast.Name):
                    env[st.targets[0].id] = m.fold(u, st.value, env=env)
            wn = m.fold(u, call.args[0], env=env)
            if wn == name:
                kw = {k.arg: m.fold(u, k.value, env=env) for k in call.keywords}
                wrapped = m.fold(u, call.args[1], env=env)
                return Handler(name, "wrapper", u.name, wrapped=wrapped, prefix=kw.get("prefix", ""),
                               orig_prefix=kw.get("orig_prefix", ""), ident=kw.get("ident"), node=call, attrs={"name": wn})
        return None

    # ------------------------------------------------------------------ queries
    def const(self, h, attr):
        """folded class attribute of a class/factory handler"""
        if attr in h.attrs:
            return h.attrs[attr]
        if h.cref is None:
            return UNKNOWN
        return self.model.class_const(h.cref, attr)

    def base_handler(self, h):
        """follow wrappers down to the class/factory handler"""
        seen = 0
        while h is not None and h.kind == "wrapper" and seen < 5:
            h = self.handlers.get(h.wrapped)
            seen += 1
        return h
