"""passlib - suite of password hashing & generation routines"""

__version__ = "1.8.1"
