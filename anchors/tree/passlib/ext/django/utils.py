"""helper functions used by this plugin"""

from __future__ import annotations

import logging
import sys
import weakref
from collections import OrderedDict
from functools import lru_cache, update_wrapper, wraps
from warnings import warn

from passlib import exc, registry
from passlib.context import CryptContext
from passlib.exc import PasslibRuntimeWarning
from passlib.utils.compat import get_method_function
from passlib.utils.decor import memoized_property

DJANGO_VERSION: tuple[int | str, ...]
try:
    from django import VERSION as DJANGO_VERSION

    logging.debug("found django %r installation", DJANGO_VERSION)
except ImportError:
    logging.debug("django installation not found")
    DJANGO_VERSION = ()


# local
__all__ = [
    "DJANGO_VERSION",
    "MIN_DJANGO_VERSION",
    "get_preset_config",
    "quirks",
]

#: minimum version supported by passlib.ext.django
MIN_DJANGO_VERSION = (1, 8)


class quirks:
    #: django check_password() started throwing error on encoded=None
    #: (really identify_hasher did)
    none_causes_check_password_error = DJANGO_VERSION >= (2, 1)

    #: django is_usable_password() started returning True for password = {None, ""} values.
    empty_is_usable_password = DJANGO_VERSION >= (2, 1)

    #: django is_usable_password() started returning True for non-hash strings in 2.1
    invalid_is_usable_password = DJANGO_VERSION >= (2, 1)


# map preset names -> passlib.app attrs
_preset_map = {
    "django-1.0": "django10_context",
    "django-1.4": "django14_context",
    "django-1.6": "django16_context",
    "django-latest": "django_context",
}


def get_preset_config(name):
    """Returns configuration string for one of the preset strings
    supported by the ``PASSLIB_CONFIG`` setting.
    Currently supported presets:

    * ``"passlib-default"`` - default config used by this release of passlib.
    * ``"django-default"`` - config matching currently installed django version.
    * ``"django-latest"`` - config matching newest django version (currently same as ``"django-1.6"``).
    * ``"django-1.0"`` - config used by stock Django 1.0 - 1.3 installs
    * ``"django-1.4"`` - config used by stock Django 1.4 installs
    * ``"django-1.6"`` - config used by stock Django 1.6 installs
    """
    # TODO: add preset which includes HASHERS + PREFERRED_HASHERS,
    #       after having imported any custom hashers. e.g. "django-current"
    if name == "django-default":
        if not DJANGO_VERSION:
            raise ValueError(
                "can't resolve django-default preset, django not installed"
            )
        name = "django-1.6"
    if name == "passlib-default":
        return PASSLIB_DEFAULT
    try:
        attr = _preset_map[name]
    except KeyError:
        raise ValueError(f"unknown preset config name: {name!r}")
    import passlib.apps

    return getattr(passlib.apps, attr).to_string()


# default context used by passlib 1.6
PASSLIB_DEFAULT = """
[passlib]

; list of schemes supported by configuration
; currently all django 1.6, 1.4, and 1.0 hashes,
; and three common modular crypt format hashes.
schemes =
    django_pbkdf2_sha256, django_pbkdf2_sha1, django_bcrypt, django_bcrypt_sha256,
    django_salted_sha1, django_salted_md5, django_des_crypt, hex_md5,
    sha512_crypt, bcrypt, phpass

; default scheme to use for new hashes
default = django_pbkdf2_sha256

; hashes using these schemes will automatically be re-hashed
; when the user logs in (currently all django 1.0 hashes)
deprecated =
    django_pbkdf2_sha1, django_salted_sha1, django_salted_md5,
    django_des_crypt, hex_md5

; sets some common options, including minimum rounds for two primary hashes.
; if a hash has less than this number of rounds, it will be re-hashed.
sha512_crypt__min_rounds = 80000
django_pbkdf2_sha256__min_rounds = 10000

; set somewhat stronger iteration counts for ``User.is_staff``
staff__sha512_crypt__default_rounds = 100000
staff__django_pbkdf2_sha256__default_rounds = 12500

; and even stronger ones for ``User.is_superuser``
superuser__sha512_crypt__default_rounds = 120000
superuser__django_pbkdf2_sha256__default_rounds = 15000
"""


#: prefix used to shoehorn passlib's handler names into django hasher namespace
PASSLIB_WRAPPER_PREFIX = "passlib_"

#: prefix used by all the django-specific hash formats in passlib;
#: all of these hashes should have a ``.django_name`` attribute.
DJANGO_COMPAT_PREFIX = "django_"

#: set of hashes w/o "django_" prefix, but which also expose ``.django_name``.
_other_django_hashes = set(["hex_md5"])


def _wrap_method(method):
    """wrap method object in bare function"""

    @wraps(method)
    def wrapper(*args, **kwds):
        return method(*args, **kwds)

    return wrapper


class DjangoTranslator:
    """
    Object which helps translate passlib hasher objects / names
    to and from django hasher objects / names.

    These methods are wrapped in a class so that results can be cached,
    but with the ability to have independant caches, since django hasher
    names may / may not correspond to the same instance (or even class).
    """

    #: CryptContext instance
    #: (if any -- generally only set by DjangoContextAdapter subclass)
    context = None

    #: internal cache of passlib hasher -> django hasher instance.
    #: key stores weakref to passlib hasher.
    _django_hasher_cache = None

    #: special case -- unsalted_sha1
    _django_unsalted_sha1 = None

    #: internal cache of django name -> passlib hasher
    #: value stores weakrefs to passlib hasher.
    _passlib_hasher_cache = None

    def __init__(self, context=None, **kwds):
        super().__init__(**kwds)
        if context is not None:
            self.context = context

        self._django_hasher_cache = weakref.WeakKeyDictionary()
        self._passlib_hasher_cache = weakref.WeakValueDictionary()

    def reset_hashers(self):
        self._django_hasher_cache.clear()
        self._passlib_hasher_cache.clear()
        self._django_unsalted_sha1 = None

    def _get_passlib_hasher(self, passlib_name):
        """
        resolve passlib hasher by name, using context if available.
        """
        context = self.context
        if context is None:
            return registry.get_crypt_handler(passlib_name)
        return context.handler(passlib_name)

    def passlib_to_django_name(self, passlib_name):
        """
        Convert passlib hasher / name to Django hasher name.
        """
        return self.passlib_to_django(passlib_name).algorithm

    # XXX: add option (in class, or call signature) to always return a wrapper,
    #      rather than native builtin -- would let HashersTest check that
    #      our own wrapper + implementations are matching up with their tests.
    def passlib_to_django(self, passlib_hasher, cached=True):
        """
        Convert passlib hasher / name to Django hasher.

        :param passlib_hasher:
            passlib hasher / name

        :returns:
            django hasher instance
        """
        # resolve names to hasher
        if not hasattr(passlib_hasher, "name"):
            passlib_hasher = self._get_passlib_hasher(passlib_hasher)

        # check cache
        if cached:
            cache = self._django_hasher_cache
            try:
                return cache[passlib_hasher]
            except KeyError:
                pass
            result = cache[passlib_hasher] = self.passlib_to_django(
                passlib_hasher, cached=False
            )
            return result

        # find native equivalent, and return wrapper if there isn't one
        django_name = getattr(passlib_hasher, "django_name", None)
        if django_name:
            return self._create_django_hasher(django_name)
        return _PasslibHasherWrapper(passlib_hasher)

    _builtin_django_hashers = dict(
        md5="MD5PasswordHasher",
    )

    if DJANGO_VERSION > (2, 1):
        # present but disabled by default as of django 2.1; not sure when added,
        # so not listing it by default.
        _builtin_django_hashers.update(
            bcrypt="BCryptPasswordHasher",
        )

    def _create_django_hasher(self, django_name):
        """
        helper to create new django hasher by name.
        wraps underlying django methods.
        """
        # if we haven't patched django, can use it directly
        module = sys.modules.get("passlib.ext.django.models")
        if module is None or not module.adapter.patched:
            from django.contrib.auth.hashers import get_hasher

            try:
                return get_hasher(django_name)
            except ValueError as err:
                if not str(err).startswith("Unknown password hashing algorithm"):
                    raise
        else:
            # We've patched django's get_hashers(), so calling django's get_hasher()
            # or get_hashers_by_algorithm() would only land us back here.
            # As non-ideal workaround, have to use original get_hashers(),
            get_hashers = module.adapter._manager.getorig(
                "django.contrib.auth.hashers:get_hashers"
            ).__wrapped__
            for hasher in get_hashers():
                if hasher.algorithm == django_name:
                    return hasher

        # hardcode a few for cases where get_hashers() lookup won't work
        # (mainly, hashers that are present in django, but disabled by their default config)
        path = self._builtin_django_hashers.get(django_name)
        if path:
            if "." not in path:
                path = "django.contrib.auth.hashers." + path
            from django.utils.module_loading import import_string

            return import_string(path)()

        raise ValueError(f"unknown hasher: {django_name!r}")

    def django_to_passlib_name(self, django_name):
        """
        Convert Django hasher / name to Passlib hasher name.
        """
        return self.django_to_passlib(django_name).name

    def django_to_passlib(self, django_name, cached=True):
        """
        Convert Django hasher / name to Passlib hasher / name.
        If present, CryptContext will be checked instead of main registry.

        :param django_name:
            Django hasher class or algorithm name.
            "default" allowed if context provided.

        :raises ValueError:
            if can't resolve hasher.

        :returns:
            passlib hasher or name
        """
        # check for django hasher
        if hasattr(django_name, "algorithm"):
            # check for passlib adapter
            if isinstance(django_name, _PasslibHasherWrapper):
                return django_name.passlib_handler

            # resolve django hasher -> name
            django_name = django_name.algorithm

        # check cache
        if cached:
            cache = self._passlib_hasher_cache
            try:
                return cache[django_name]
            except KeyError:
                pass
            result = cache[django_name] = self.django_to_passlib(
                django_name, cached=False
            )
            return result

        # check if it's an obviously-wrapped name
        if django_name.startswith(PASSLIB_WRAPPER_PREFIX):
            passlib_name = django_name[len(PASSLIB_WRAPPER_PREFIX) :]
            return self._get_passlib_hasher(passlib_name)

        # resolve default
        if django_name == "default":
            context = self.context
            if context is None:
                raise TypeError("can't determine default scheme w/ context")
            return context.handler()

        # special case: Django uses a separate hasher for "sha1$$digest"
        # hashes (unsalted_sha1) and "sha1$salt$digest" (sha1);
        # but passlib uses "django_salted_sha1" for both of these.
        if django_name == "unsalted_sha1":
            django_name = "sha1"

        # resolve name
        # XXX: bother caching these lists / mapping?
        #      not needed in long-term due to cache above.
        context = self.context
        if context is None:
            # check registry
            # TODO: should make iteration via registry easier
            candidates = (
                registry.get_crypt_handler(passlib_name)
                for passlib_name in registry.list_crypt_handlers()
                if passlib_name.startswith(DJANGO_COMPAT_PREFIX)
                or passlib_name in _other_django_hashes
            )
        else:
            # check context
            candidates = context.schemes(resolve=True)
        for handler in candidates:
            if getattr(handler, "django_name", None) == django_name:
                return handler

        # give up
        # NOTE: this should only happen for custom django hashers that we don't
        #       know the equivalents for. _HasherHandler (below) is work in
        #       progress that would allow us to at least return a wrapper.
        raise ValueError(
            f"can't translate django name to passlib name: {django_name!r}"
        )

    def resolve_django_hasher(self, django_name, cached=True):
        """
        Take in a django algorithm name, return django hasher.
        """
        # check for django hasher
        if hasattr(django_name, "algorithm"):
            return django_name

        # resolve to passlib hasher
        passlib_hasher = self.django_to_passlib(django_name, cached=cached)

        # special case: Django uses a separate hasher for "sha1$$digest"
        # hashes (unsalted_sha1) and "sha1$salt$digest" (sha1);
        # but passlib uses "django_salted_sha1" for both of these.
        # XXX: this isn't ideal way to handle this.  would like to do something
        #      like pass "django_variant=django_name" into passlib_to_django(),
        #      and have it cache separate hasher there.
        #      but that creates a LOT of complication in it's cache structure,
        #      for what is just one special case.
        if (
            django_name == "unsalted_sha1"
            and passlib_hasher.name == "django_salted_sha1"
        ):
            if not cached:
                return self._create_django_hasher(django_name)
            result = self._django_unsalted_sha1
            if result is None:
                result = self._django_unsalted_sha1 = self._create_django_hasher(
                    django_name
                )
            return result

        # lookup corresponding django hasher
        return self.passlib_to_django(passlib_hasher, cached=cached)


class DjangoContextAdapter(DjangoTranslator):
    """
    Object which tries to adapt a Passlib CryptContext object,
    using a Django-hasher compatible API.

    When installed in django, :mod:`!passlib.ext.django` will create
    an instance of this class, and then monkeypatch the appropriate
    methods into :mod:`!django.contrib.auth` and other appropriate places.
    """

    #: CryptContext instance we're wrapping
    context = None

    #: ref to original make_password(),
    #: needed to generate usuable passwords that match django
    _orig_make_password = None

    #: ref to django helper of this name -- not monkeypatched
    is_password_usable = None

    #: PatchManager instance used to track installation
    _manager = None

    #: whether config=disabled flag was set
    enabled = True

    #: patch status
    patched = False

    def __init__(self, context=None, get_user_category=None, **kwds):
        # init log
        self.log = logging.getLogger(__name__ + ".DjangoContextAdapter")

        # init parent, filling in default context object
        if context is None:
            context = CryptContext()
        super().__init__(context=context, **kwds)

        # setup user category
        if get_user_category:
            assert callable(get_user_category)
            self.get_user_category = get_user_category

        self.get_hashers = lru_cache()(self.get_hashers)

        # get copy of original make_password
        from django.contrib.auth.hashers import make_password

        if make_password.__module__.startswith("passlib."):
            make_password = _PatchManager.peek_unpatched_func(make_password)
        self._orig_make_password = make_password

        # get other django helpers
        from django.contrib.auth.hashers import is_password_usable

        self.is_password_usable = is_password_usable

        # init manager
        mlog = logging.getLogger(__name__ + ".DjangoContextAdapter._manager")
        self._manager = _PatchManager(log=mlog)

    def reset_hashers(self):
        """
        Wrapper to manually reset django's hasher lookup cache
        """
        # resets cache for .get_hashers() & .get_hashers_by_algorithm()
        from django.contrib.auth.hashers import reset_hashers

        reset_hashers(setting="PASSWORD_HASHERS")

        # reset internal caches
        super().reset_hashers()

    # lru_cache()'ed by init
    def get_hashers(self):
        """
        Passlib replacement for get_hashers() --
        Return list of available django hasher classes
        """
        passlib_to_django = self.passlib_to_django
        return [
            passlib_to_django(hasher) for hasher in self.context.schemes(resolve=True)
        ]

    def get_hasher(self, algorithm="default"):
        """
        Passlib replacement for get_hasher() --
        Return django hasher by name
        """
        return self.resolve_django_hasher(algorithm)

    def identify_hasher(self, encoded):
        """
        Passlib replacement for identify_hasher() --
        Identify django hasher based on hash.
        """
        handler = self.context.identify(encoded, resolve=True, required=True)
        if handler.name == "django_salted_sha1" and encoded.startswith("sha1$$"):
            # Django uses a separate hasher for "sha1$$digest" hashes, but
            # passlib identifies it as belonging to "sha1$salt$digest" handler.
            # We want to resolve to correct django hasher.
            return self.get_hasher("unsalted_sha1")
        return self.passlib_to_django(handler)

    def make_password(self, password, salt=None, hasher="default"):
        """
        Passlib replacement for make_password()
        """
        if password is None:
            return self._orig_make_password(None)
        # NOTE: relying on hasher coming from context, and thus having
        #       context-specific config baked into it.
        passlib_hasher = self.django_to_passlib(hasher)
        if "salt" not in passlib_hasher.setting_kwds:
            # ignore salt param even if preset
            pass
        elif hasher.startswith("unsalted_"):
            # Django uses a separate 'unsalted_sha1' hasher for "sha1$$digest",
            # but passlib just reuses it's "sha1" handler ("sha1$salt$digest"). To make
            # this work, have to explicitly tell the sha1 handler to use an empty salt.
            passlib_hasher = passlib_hasher.using(salt="")
        elif salt:
            # Django make_password() autogenerates a salt if salt is bool False (None / ''),
            # so we only pass the keyword on if there's actually a fixed salt.
            passlib_hasher = passlib_hasher.using(salt=salt)
        return passlib_hasher.hash(password)

    def check_password(self, password, encoded, setter=None, preferred="default"):
        """
        Passlib replacement for check_password()
        """
        # XXX: this currently ignores "preferred" keyword, since its purpose
        #      was for hash migration, and that's handled by the context.
        # XXX: honor "none_causes_check_password_error" quirk for django 2.2+?
        #      seems safer to return False.
        if password is None or not self.is_password_usable(encoded):
            return False

        # verify password
        context = self.context
        try:
            correct = context.verify(password, encoded)
        except exc.UnknownHashError:
            # As of django 1.5, unidentifiable hashes returns False
            # (side-effect of django issue 18453)
            return False

        if not (correct and setter):
            return correct

        # check if we need to rehash
        if preferred == "default":
            if not context.needs_update(encoded, secret=password):
                return correct
        else:
            # Django's check_password() won't call setter() on a
            # 'preferred' alg, even if it's otherwise deprecated. To try and
            # replicate this behavior if preferred is set, we look up the
            # passlib hasher, and call it's original needs_update() method.
            # TODO: Solve redundancy that verify() call
            #       above is already identifying hash.
            hasher = self.django_to_passlib(preferred)
            if hasher.identify(encoded) and not hasher.needs_update(
                encoded, secret=password
            ):
                # alg is 'preferred' and hash itself doesn't need updating,
                # so nothing to do.
                return correct
            # else: either hash isn't preferred, or it needs updating.

        # call setter to rehash
        setter(password)
        return correct

    def user_check_password(self, user, password):
        """
        Passlib replacement for User.check_password()
        """
        if password is None:
            return False
        hash = user.password
        if not self.is_password_usable(hash):
            return False
        cat = self.get_user_category(user)
        try:
            ok, new_hash = self.context.verify_and_update(password, hash, category=cat)
        except exc.UnknownHashError:
            # As of django 1.5, unidentifiable hashes returns False
            # (side-effect of django issue 18453)
            return False
        if ok and new_hash is not None:
            # migrate to new hash if needed.
            user.password = new_hash
            user.save()
        return ok

    def user_set_password(self, user, password):
        """
        Passlib replacement for User.set_password()
        """
        if password is None:
            user.set_unusable_password()
        else:
            cat = self.get_user_category(user)
            user.password = self.context.hash(password, category=cat)

    def get_user_category(self, user):
        """
        Helper for hashing passwords per-user --
        figure out the CryptContext category for specified Django user object.
        .. note::
            This may be overridden via PASSLIB_GET_CATEGORY django setting
        """
        if user.is_superuser:
            return "superuser"
        if user.is_staff:
            return "staff"
        return None

    HASHERS_PATH = "django.contrib.auth.hashers"
    MODELS_PATH = "django.contrib.auth.models"
    USER_CLASS_PATH = MODELS_PATH + ":User"
    FORMS_PATH = "django.contrib.auth.forms"

    #: list of locations to patch
    patch_locations = [
        #
        # User object
        # NOTE: could leave defaults alone, but want to have user available
        #       so that we can support get_user_category()
        #
        (USER_CLASS_PATH + ".check_password", "user_check_password", dict(method=True)),
        (USER_CLASS_PATH + ".set_password", "user_set_password", dict(method=True)),
        #
        # Hashers module
        #
        (HASHERS_PATH + ":", "check_password"),
        (HASHERS_PATH + ":", "make_password"),
        (HASHERS_PATH + ":", "get_hashers"),
        (HASHERS_PATH + ":", "get_hasher"),
        (HASHERS_PATH + ":", "identify_hasher"),
        #
        # Patch known imports from hashers module
        #
        (MODELS_PATH + ":", "check_password"),
        (MODELS_PATH + ":", "make_password"),
        (FORMS_PATH + ":", "get_hasher"),
        (FORMS_PATH + ":", "identify_hasher"),
    ]

    def install_patch(self):
        """
        Install monkeypatch to replace django hasher framework.
        """
        # don't reapply
        log = self.log
        if self.patched:
            log.warning("monkeypatching already applied, refusing to reapply")
            return False

        # version check
        if DJANGO_VERSION < MIN_DJANGO_VERSION:
            raise RuntimeError(
                f"passlib.ext.django requires django >= {MIN_DJANGO_VERSION}"
            )

        # log start
        log.debug("preparing to monkeypatch django ...")

        # run through patch locations
        manager = self._manager
        for record in self.patch_locations:
            if len(record) == 2:
                record += ({},)
            target, source, opts = record
            if target.endswith((":", ",")):
                target += source
            value = getattr(self, source)
            if opts.get("method"):
                # have to wrap our method in a function,
                # since we're installing it in a class *as* a method
                # XXX: make this a flag for .patch()?
                value = _wrap_method(value)
            manager.patch(target, value)

        # reset django's caches (e.g. get_hash_by_algorithm)
        self.reset_hashers()

        # done!
        self.patched = True
        log.debug("... finished monkeypatching django")
        return True

    def remove_patch(self):
        """
        Remove monkeypatch from django hasher framework.
        As precaution in case there are lingering refs to context,
        context object will be wiped.

        .. warning::
            This may cause problems if any other Django modules have imported
            their own copies of the patched functions, though the patched
            code has been designed to throw an error as soon as possible in
            this case.
        """
        log = self.log
        manager = self._manager

        if self.patched:
            log.debug("removing django monkeypatching...")
            manager.unpatch_all(unpatch_conflicts=True)
            self.context.load({})
            self.patched = False
            self.reset_hashers()
            log.debug("...finished removing django monkeypatching")
            return True

        if manager.isactive():  # pragma: no cover -- sanity check
            log.warning("reverting partial monkeypatching of django...")
            manager.unpatch_all()
            self.context.load({})
            self.reset_hashers()
            log.debug("...finished removing django monkeypatching")
            return True

        log.debug("django not monkeypatched")
        return False

    def load_model(self):
        """
        Load configuration from django, and install patch.
        """
        self._load_settings()
        if self.enabled:
            try:
                self.install_patch()
            except:
                # try to undo what we can
                self.remove_patch()
                raise
        else:
            if self.patched:  # pragma: no cover -- sanity check
                logging.error("didn't expect monkeypatching would be applied!")
            self.remove_patch()
        logging.debug("passlib.ext.django loaded")

    def _load_settings(self):
        """
        Update settings from django
        """
        from django.conf import settings

        # TODO: would like to add support for inheriting config from a preset
        #       (or from existing hasher state) and letting PASSLIB_CONFIG
        #       be an update, not a replacement.

        # TODO: wrap and import any custom hashers as passlib handlers,
        #       so they could be used in the passlib config.

        # load config from settings
        _UNSET = object()
        config = getattr(settings, "PASSLIB_CONFIG", _UNSET)
        if config is _UNSET:
            # XXX: should probably deprecate this alias
            config = getattr(settings, "PASSLIB_CONTEXT", _UNSET)
        if config is _UNSET:
            config = "passlib-default"
        if not isinstance(config, (str, bytes, dict)):
            raise exc.ExpectedTypeError(config, "str or dict", "PASSLIB_CONFIG")

        # load custom category func (if any)
        get_category = getattr(settings, "PASSLIB_GET_CATEGORY", None)
        if get_category and not callable(get_category):
            raise exc.ExpectedTypeError(
                get_category, "callable", "PASSLIB_GET_CATEGORY"
            )

        # check if we've been disabled
        if config == "disabled":
            self.enabled = False
            return
        self.__dict__.pop("enabled", None)

        # resolve any preset aliases
        if isinstance(config, str) and "\n" not in config:
            config = get_preset_config(config)

        # setup category func
        if get_category:
            self.get_user_category = get_category
        else:
            self.__dict__.pop("get_category", None)

        # setup context
        self.context.load(config)
        self.reset_hashers()


_GEN_SALT_SIGNAL = "--!!!generate-new-salt!!!--"


class ProxyProperty:
    """helper that proxies another attribute"""

    def __init__(self, attr):
        self.attr = attr

    def __get__(self, obj, cls):
        return getattr(obj, self.attr)

    def __set__(self, obj, value):
        setattr(obj, self.attr, value)

    def __delete__(self, obj):
        delattr(obj, self.attr)


class _PasslibHasherWrapper:
    """
    adapter which which wraps a :cls:`passlib.ifc.PasswordHash` class,
    and provides an interface compatible with the Django hasher API.

    :param passlib_handler:
        passlib hash handler (e.g. :cls:`passlib.hash.sha256_crypt`.
    """

    #: passlib handler that we're adapting.
    passlib_handler = None

    # NOTE: 'rounds' attr will store variable rounds, IF handler supports it.
    #       'iterations' will act as proxy, for compatibility with django pbkdf2 hashers.
    # rounds = None
    # iterations = None
    def __init__(self, passlib_handler):
        # init handler
        if getattr(passlib_handler, "django_name", None):
            raise ValueError(
                "handlers that reflect an official django "
                f"hasher shouldn't be wrapped: {passlib_handler.name!r}"
            )
        if passlib_handler.is_disabled:
            # XXX: could this be implemented?
            raise ValueError(
                f"can't wrap disabled-hash handlers: {passlib_handler.name!r}"
            )
        self.passlib_handler = passlib_handler

        # init rounds support
        if self._has_rounds:
            self.rounds = passlib_handler.default_rounds
            self.iterations = ProxyProperty("rounds")

    def __repr__(self):
        return f"<PasslibHasherWrapper handler={self.passlib_handler!r}>"

    @memoized_property
    def __name__(self):
        return f"Passlib_{self.passlib_handler.name.title()}_PasswordHasher"

    @memoized_property
    def _has_rounds(self):
        return "rounds" in self.passlib_handler.setting_kwds

    @memoized_property
    def _translate_kwds(self):
        """
        internal helper for safe_summary() --
        used to translate passlib hash options -> django keywords
        """
        out = dict(checksum="hash")
        if self._has_rounds and "pbkdf2" in self.passlib_handler.name:
            out["rounds"] = "iterations"
        return out

    @memoized_property
    def algorithm(self):
        return PASSLIB_WRAPPER_PREFIX + self.passlib_handler.name

    def salt(self):
        # NOTE: passlib's handler.hash() should generate new salt each time,
        #       so this just returns a special constant which tells
        #       encode() (below) not to pass a salt keyword along.
        return _GEN_SALT_SIGNAL

    def verify(self, password, encoded):
        return self.passlib_handler.verify(password, encoded)

    def encode(self, password, salt=None, rounds=None, iterations=None):
        kwds = {}
        if salt is not None and salt != _GEN_SALT_SIGNAL:
            kwds["salt"] = salt
        if self._has_rounds:
            if rounds is not None:
                kwds["rounds"] = rounds
            elif iterations is not None:
                kwds["rounds"] = iterations
            else:
                kwds["rounds"] = self.rounds
        elif rounds is not None or iterations is not None:
            warn(f"{self.__name__}.hash(): 'rounds' and 'iterations' are ignored")
        handler = self.passlib_handler
        if kwds:
            handler = handler.using(**kwds)
        return handler.hash(password)

    def safe_summary(self, encoded):
        from django.contrib.auth.hashers import mask_hash
        from django.utils.translation import gettext_noop as _

        handler = self.passlib_handler
        items = [
            # since this is user-facing, we're reporting passlib's name,
            # without the distracting PASSLIB_HASHER_PREFIX prepended.
            (_("algorithm"), handler.name),
        ]
        if hasattr(handler, "parsehash"):
            kwds = handler.parsehash(encoded, sanitize=mask_hash)
            for key, value in kwds.items():
                key = self._translate_kwds.get(key, key)
                items.append((_(key), value))
        return OrderedDict(items)

    def must_update(self, encoded):
        # TODO: would like access CryptContext, would need caller to pass it to get_passlib_hasher().
        #       for now (as of passlib 1.6.6), replicating django policy that this returns True
        #       if 'encoded' hash has different rounds value from self.rounds
        if self._has_rounds:
            # XXX: could cache this subclass somehow (would have to intercept writes to self.rounds)
            # TODO: always call subcls/handler.needs_update() in case there's other things to check
            subcls = self.passlib_handler.using(
                min_rounds=self.rounds, max_rounds=self.rounds
            )
            if subcls.needs_update(encoded):
                return True
        return False


# TODO: this code probably halfway works, mainly just needs
#       a routine to read HASHERS and PREFERRED_HASHER.

##from passlib.registry import register_crypt_handler
##from passlib.utils import classproperty, to_native_str, to_unicode
##
##
##class _HasherHandler(object):
##    "helper for wrapping Hasher instances as passlib handlers"
##    # FIXME: this generic wrapper doesn't handle custom settings
##    # FIXME: genconfig / genhash not supported.
##
##    def __init__(self, hasher):
##        self.django_hasher = hasher
##        if hasattr(hasher, "iterations"):
##            # assume encode() accepts an "iterations" parameter.
##            # fake min/max rounds
##            self.min_rounds = 1
##            self.max_rounds = 0xFFFFffff
##            self.default_rounds = self.django_hasher.iterations
##            self.setting_kwds += ("rounds",)
##
##    # hasher instance - filled in by constructor
##    django_hasher = None
##
##    setting_kwds = ("salt",)
##    context_kwds = ()
##
##    @property
##    def name(self):
##        # XXX: need to make sure this wont' collide w/ builtin django hashes.
##        #      maybe by renaming this to django compatible aliases?
##        return DJANGO_PASSLIB_PREFIX + self.django_name
##
##    @property
##    def django_name(self):
##        # expose this so hasher_to_passlib_name() extracts original name
##        return self.django_hasher.algorithm
##
##    @property
##    def ident(self):
##        # this should always be correct, as django relies on ident prefix.
##        return self.django_name + "$"
##
##    @property
##    def identify(self, hash):
##        # this should always work, as django relies on ident prefix.
##        return to_unicode(hash, "latin-1", "hash").startswith(self.ident)
##
##    @property
##    def hash(self, secret, salt=None, **kwds):
##        # NOTE: from how make_password() is coded, all hashers
##        #       should have salt param. but only some will have
##        #       'iterations' parameter.
##        opts = {}
##        if 'rounds' in self.setting_kwds and 'rounds' in kwds:
##            opts['iterations'] = kwds.pop("rounds")
##        if kwds:
##            raise TypeError("unexpected keyword arguments: %r" % list(kwds))
##        if isinstance(secret, str):
##            secret = secret.encode("utf-8")
##        if salt is None:
##            salt = self.django_hasher.salt()
##        return to_native_str(self.django_hasher(secret, salt, **opts))
##
##    @property
##    def verify(self, secret, hash):
##        hash = to_native_str(hash, "utf-8", "hash")
##        if isinstance(secret, str):
##            secret = secret.encode("utf-8")
##        return self.django_hasher.verify(secret, hash)
##
##def register_hasher(hasher):
##    handler = _HasherHandler(hasher)
##    register_crypt_handler(handler)
##    return handler

# private singleton indicating lack-of-value
_UNSET = object()


class _PatchManager:
    """helper to manage monkeypatches and run sanity checks"""

    # NOTE: this could easily use a dict interface,
    #       but keeping it distinct to make clear that it's not a dict,
    #       since it has important side-effects.
    def __init__(self, log=None):
        # map of key -> (original value, patched value)
        # original value may be _UNSET
        self.log = log or logging.getLogger(__name__ + "._PatchManager")
        self._state = {}

    def isactive(self):
        return bool(self._state)

    # bool value tests if any patches are currently applied.
    # NOTE: this behavior is deprecated in favor of .isactive
    __bool__ = __nonzero__ = isactive

    def _import_path(self, path):
        """retrieve obj and final attribute name from resource path"""
        name, attr = path.split(":")
        obj = __import__(name, fromlist=[attr], level=0)
        while "." in attr:
            head, attr = attr.split(".", 1)
            obj = getattr(obj, head)
        return obj, attr

    @staticmethod
    def _is_same_value(left, right):
        """check if two values are the same (stripping method wrappers, etc)"""
        return get_method_function(left) == get_method_function(right)

    def _get_path(self, key, default=_UNSET):
        obj, attr = self._import_path(key)
        return getattr(obj, attr, default)

    def get(self, path, default=None):
        """return current value for path"""
        return self._get_path(path, default)

    def getorig(self, path, default=None):
        """return original (unpatched) value for path"""
        try:
            value, _ = self._state[path]
        except KeyError:
            value = self._get_path(path)
        return default if value is _UNSET else value

    def check_all(self, strict=False):
        """run sanity check on all keys, issue warning if out of sync"""
        same = self._is_same_value
        for path, (orig, expected) in self._state.items():
            if same(self._get_path(path), expected):
                continue
            msg = f"another library has patched resource: {path!r}"
            if strict:
                raise RuntimeError(msg)
            warn(msg, PasslibRuntimeWarning)

    def _set_path(self, path, value):
        obj, attr = self._import_path(path)
        if value is _UNSET:
            if hasattr(obj, attr):
                delattr(obj, attr)
        else:
            setattr(obj, attr, value)

    def patch(self, path, value, wrap=False):
        """monkeypatch object+attr at <path> to have <value>, stores original"""
        assert value != _UNSET
        current = self._get_path(path)
        try:
            orig, expected = self._state[path]
        except KeyError:
            self.log.debug("patching resource: %r", path)
            orig = current
        else:
            self.log.debug("modifying resource: %r", path)
            if not self._is_same_value(current, expected):
                warn(
                    f"overridding resource another library has patched: {path!r}",
                    PasslibRuntimeWarning,
                )
        if wrap:
            assert callable(value)
            wrapped = orig
            wrapped_by = value

            def wrapper(*args, **kwds):
                return wrapped_by(wrapped, *args, **kwds)

            update_wrapper(wrapper, value)
            value = wrapper
        if callable(value):
            # needed by DjangoContextAdapter init
            get_method_function(value)._patched_original_value = orig
        self._set_path(path, value)
        self._state[path] = (orig, value)

    @classmethod
    def peek_unpatched_func(cls, value):
        return value._patched_original_value

    ##def patch_many(self, **kwds):
    ##    "override specified resources with new values"
    ##    for path, value in kwds.items():
    ##        self.patch(path, value)

    def monkeypatch(self, parent, name=None, enable=True, wrap=False):
        """function decorator which patches function of same name in <parent>"""

        def builder(func):
            if enable:
                sep = "." if ":" in parent else ":"
                path = parent + sep + (name or func.__name__)
                self.patch(path, func, wrap=wrap)
            return func

        if callable(name):
            # called in non-decorator mode
            func = name
            name = None
            builder(func)
            return None
        return builder

    def unpatch(self, path, unpatch_conflicts=True):
        try:
            orig, expected = self._state[path]
        except KeyError:
            return
        current = self._get_path(path)
        self.log.debug("unpatching resource: %r", path)
        if not self._is_same_value(current, expected):
            if unpatch_conflicts:
                warn(
                    f"reverting resource another library has patched: {path!r}",
                    PasslibRuntimeWarning,
                )
            else:
                warn(
                    f"not reverting resource another library has patched: {path!r}",
                    PasslibRuntimeWarning,
                )
                del self._state[path]
                return
        self._set_path(path, orig)
        del self._state[path]

    def unpatch_all(self, **kwds):
        for key in list(self._state):
            self.unpatch(key, **kwds)
