"""Reference data generated from the published standards (never copied from /repo)."""
from __future__ import annotations

import functools


@functools.lru_cache(None)
def pi_fraction_words(n_words):
    """first n_words 32-bit words of the fractional part of pi (hex digits), via Machin's formula on integers"""
    bits = n_words * 32 + 96
    one = 1 << bits

    def arctan_inv(x):
        # arctan(1/x) * one
        total = term = one // x
        x2 = x * x
        n = 1
        sign = -1
        while term:
            term //= x2
            n += 2
            total += sign * (term // n)
            sign = -sign
        return total
    pi = 16 * arctan_inv(5) - 4 * arctan_inv(239)
    frac = pi - 3 * one
    out = []
    for i in range(n_words):
        shift = bits - 32 * (i + 1)
        out.append((frac >> shift) & 0xFFFFFFFF)
    return out


def blowfish_tables():
    w = pi_fraction_words(18 + 4 * 256)
    P = w[:18]
    S = [w[18 + 256 * i: 18 + 256 * (i + 1)] for i in range(4)]
    return P, S


#: FIPS 46-3 S-boxes, rows 0..3 x columns 0..15
DES_SBOXES = [
    [[14, 4, 13, 1, 2, 15, 11, 8, 3, 10, 6, 12, 5, 9, 0, 7], [0, 15, 7, 4, 14, 2, 13, 1, 10, 6, 12, 11, 9, 5, 3, 8],
     [4, 1, 14, 8, 13, 6, 2, 11, 15, 12, 9, 7, 3, 10, 5, 0], [15, 12, 8, 2, 4, 9, 1, 7, 5, 11, 3, 14, 10, 0, 6, 13]],
    [[15, 1, 8, 14, 6, 11, 3, 4, 9, 7, 2, 13, 12, 0, 5, 10], [3, 13, 4, 7, 15, 2, 8, 14, 12, 0, 1, 10, 6, 9, 11, 5],
     [0, 14, 7, 11, 10, 4, 13, 1, 5, 8, 12, 6, 9, 3, 2, 15], [13, 8, 10, 1, 3, 15, 4, 2, 11, 6, 7, 12, 0, 5, 14, 9]],
    [[10, 0, 9, 14, 6, 3, 15, 5, 1, 13, 12, 7, 11, 4, 2, 8], [13, 7, 0, 9, 3, 4, 6, 10, 2, 8, 5, 14, 12, 11, 15, 1],
     [13, 6, 4, 9, 8, 15, 3, 0, 11, 1, 2, 12, 5, 10, 14, 7], [1, 10, 13, 0, 6, 9, 8, 7, 4, 15, 14, 3, 11, 5, 2, 12]],
    [[7, 13, 14, 3, 0, 6, 9, 10, 1, 2, 8, 5, 11, 12, 4, 15], [13, 8, 11, 5, 6, 15, 0, 3, 4, 7, 2, 12, 1, 10, 14, 9],
     [10, 6, 9, 0, 12, 11, 7, 13, 15, 1, 3, 14, 5, 2, 8, 4], [3, 15, 0, 6, 10, 1, 13, 8, 9, 4, 5, 11, 12, 7, 2, 14]],
    [[2, 12, 4, 1, 7, 10, 11, 6, 8, 5, 3, 15, 13, 0, 14, 9], [14, 11, 2, 12, 4, 7, 13, 1, 5, 0, 15, 10, 3, 9, 8, 6],
     [4, 2, 1, 11, 10, 13, 7, 8, 15, 9, 12, 5, 6, 3, 0, 14], [11, 8, 12, 7, 1, 14, 2, 13, 6, 15, 0, 9, 10, 4, 5, 3]],
    [[12, 1, 10, 15, 9, 2, 6, 8, 0, 13, 3, 4, 14, 7, 5, 11], [10, 15, 4, 2, 7, 12, 9, 5, 6, 1, 13, 14, 0, 11, 3, 8],
     [9, 14, 15, 5, 2, 8, 12, 3, 7, 0, 4, 10, 1, 13, 11, 6], [4, 3, 2, 12, 9, 5, 15, 10, 11, 14, 1, 7, 6, 0, 8, 13]],
    [[4, 11, 2, 14, 15, 0, 8, 13, 3, 12, 9, 7, 5, 10, 6, 1], [13, 0, 11, 7, 4, 9, 1, 10, 14, 3, 5, 12, 2, 15, 8, 6],
     [1, 4, 11, 13, 12, 3, 7, 14, 10, 15, 6, 8, 0, 5, 9, 2], [6, 11, 13, 8, 1, 4, 10, 7, 9, 5, 0, 15, 14, 2, 3, 12]],
    [[13, 2, 8, 4, 6, 15, 11, 1, 10, 9, 3, 14, 5, 0, 12, 7], [1, 15, 13, 8, 10, 3, 7, 4, 12, 5, 6, 11, 0, 14, 9, 2],
     [7, 11, 4, 1, 9, 12, 14, 2, 0, 6, 10, 13, 15, 3, 5, 8], [2, 1, 14, 7, 4, 10, 8, 13, 15, 12, 9, 0, 3, 5, 6, 11]],
]


def des_sbox(i, six):
    """S_i applied to a 6-bit input in FIPS numbering: bits b1..b6 (b1 = MSB); row = b1 b6, column = b2..b5"""
    row = ((six >> 5) & 1) << 1 | (six & 1)
    col = (six >> 1) & 0xF
    return DES_SBOXES[i][row][col]


def md4_rounds():
    regs = [(0, 1, 2, 3), (3, 0, 1, 2), (2, 3, 0, 1), (1, 2, 3, 0)]
    r1 = [[*regs[i % 4], i, [3, 7, 11, 19][i % 4]] for i in range(16)]
    k2 = [0, 4, 8, 12, 1, 5, 9, 13, 2, 6, 10, 14, 3, 7, 11, 15]
    r2 = [[*regs[i % 4], k2[i], [3, 5, 9, 13][i % 4]] for i in range(16)]
    k3 = [0, 8, 4, 12, 2, 10, 6, 14, 1, 9, 5, 13, 3, 11, 7, 15]
    r3 = [[*regs[i % 4], k3[i], [3, 9, 11, 15][i % 4]] for i in range(16)]
    return r1, r2, r3


def salsa_double_round():
    """(target, a, b, rot) for the 32 operations of one double round (column round, then row round)"""
    def qr(a, b, c, d):
        return [(b, a, d, 7), (c, b, a, 9), (d, c, b, 13), (a, d, c, 18)]
    ops = []
    for q in ((0, 4, 8, 12), (5, 9, 13, 1), (10, 14, 2, 6), (15, 3, 7, 11)):
        ops += qr(*q)
    for q in ((0, 1, 2, 3), (5, 6, 7, 4), (10, 11, 8, 9), (15, 12, 13, 14)):
        ops += qr(*q)
    return ops


def sha_crypt_digest_offsets():
    perms_order = "p,pp,ps,psp,sp,spp".split(",")

    def offset(i):
        key = ("p" if i % 2 else "") + ("s" if i % 3 else "") + ("p" if i % 7 else "") + ("" if i % 2 else "p")
        return perms_order.index(key)
    return tuple((offset(i), offset(i + 1)) for i in range(0, 42, 2))


def sha256_transpose():
    # Drepper's listing: b64_from_24bit(alt[0], alt[10], alt[20]), (21,1,11), (12,22,2), ... then (31, 30) tail
    trip = [(0, 10, 20), (21, 1, 11), (12, 22, 2), (3, 13, 23), (24, 4, 14), (15, 25, 5), (6, 16, 26), (27, 7, 17), (18, 28, 8), (9, 19, 29)]
    out = []
    for a, b, c in trip:
        out += [c, b, a]
    out += [30, 31]  # b64_from_24bit(0, alt[31], alt[30]): low byte first
    return tuple(out)


def sha512_transpose():
    trip = [(0, 21, 42), (22, 43, 1), (44, 2, 23), (3, 24, 45), (25, 46, 4), (47, 5, 26), (6, 27, 48), (28, 49, 7), (50, 8, 29), (9, 30, 51),
            (31, 52, 10), (53, 11, 32), (12, 33, 54), (34, 55, 13), (56, 14, 35), (15, 36, 57), (37, 58, 16), (59, 17, 38), (18, 39, 60),
            (40, 61, 19), (62, 20, 41)]
    out = []
    for a, b, c in trip:
        out += [c, b, a]
    out += [63]
    return tuple(out)


def md5_crypt_transpose():
    trip = [(0, 6, 12), (1, 7, 13), (2, 8, 14), (3, 9, 15), (4, 10, 5)]
    out = []
    for a, b, c in trip:
        out += [c, b, a]
    out += [11]
    return tuple(out)


def sha1_crypt_offsets():
    out = []
    for i in range(0, 18, 3):
        out += [i + 2, i + 1, i]
    out += [0, 19, 18]
    return out


CISCO_TYPE7_KEY = "dsfd;kfoA,.iyewrkldJKDHSUBsgvca69834ncxv9873254k;fg87"
