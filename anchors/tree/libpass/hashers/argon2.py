from __future__ import annotations

import contextlib
from typing import Literal

import argon2
from argon2.exceptions import InvalidHashError, VerifyMismatchError

from libpass._utils.bytes import StrOrBytes, as_bytes, as_str
from libpass.hashers.abc import PasswordHasher
from libpass.inspect.phc import inspect_phc
from libpass.inspect.phc.defs import Argon2PHC


class Argon2Hasher(PasswordHasher):
    def __init__(
        self,
        time_cost: int = argon2.DEFAULT_TIME_COST,
        memory_cost: int = argon2.DEFAULT_MEMORY_COST,
        parallelism: int = argon2.DEFAULT_PARALLELISM,
        hash_len: int = argon2.DEFAULT_HASH_LENGTH,
        salt_len: int = argon2.DEFAULT_RANDOM_SALT_LENGTH,
        type: Literal["d", "i", "id"] = "id",
    ):
        self._hasher = argon2.PasswordHasher(
            time_cost=time_cost,
            memory_cost=memory_cost,
            parallelism=parallelism,
            hash_len=hash_len,
            salt_len=salt_len,
            type=argon2.Type[type.upper()],
        )

    def hash(self, secret: StrOrBytes, salt: str | None = None) -> str:
        return self._hasher.hash(
            password=secret, salt=as_bytes(salt) if salt is not None else None
        )

    def verify(self, hash: StrOrBytes, secret: StrOrBytes) -> bool:
        with contextlib.suppress(InvalidHashError, VerifyMismatchError):
            return self._hasher.verify(hash=hash, password=secret)
        return False

    def identify(self, hash: StrOrBytes) -> bool:
        return inspect_phc(hash=as_str(hash), definition=Argon2PHC) is not None

    def needs_update(self, hash: StrOrBytes) -> bool:
        return self._hasher.check_needs_rehash(hash=as_str(hash))
