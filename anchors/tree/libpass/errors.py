class Panic(Exception):
    pass
