"""passlib.ext.django.models -- monkeypatch django hashing framework

this plugin monkeypatches django's hashing framework
so that it uses a passlib context object, allowing handling of arbitrary
hashes in Django databases.
"""
