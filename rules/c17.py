"""C17 -- every shipped context recognises the hashes of each of its own schemes.

Decided, exhaustively over host capabilities: (a) every registry name resolves to a hasher object
whose `name` attribute is that name, and passlib/hash.py lists the same set; (b) for every exported
preset (passlib.apps, passlib.hosts incl. host_context over all 2^7 crypt() capability subsets,
htpasswd_context over the same subsets, the Django-extension default), no scheme's identify()
language intersects the language of a scheme listed after it (languages extracted from source as
DFAs; emptiness of the product is decided), so a hash is never attributed to an earlier scheme;
(c) preset defaults / deprecated lists name schemes of the preset.
Not decided: that a scheme's own hashes lie inside its identify language (C07 covers templates)."""
from __future__ import annotations

import ast
import itertools
import re

from pv.q import text as qtext
from pv.model import AnalysisError, UNKNOWN, walk_no_nested
from pv.handlers import HandlerTable
from pv.identify import IdentifyModels, Unmodelled
from pv.minterp import Interp, module_env

REG = "passlib.registry"


def site(u, f):
    return f"{u}:{f}"


# ----------------------------------------------------------------------------- C17.a
def rule_a(model, rep, table):
    R = "C17.a-registry-names"
    for h in table:
        if h.kind == "wrapper":
            nm = h.attrs.get("name")
        else:
            nm = table.const(h, "name")
        rep.check(nm == h.name, R, site(h.unit, h.name), f"registry name {h.name!r} -> object with name={nm!r}",
                  "the object a registry name loads carries that name",
                  witness=f"passlib.hash.{h.name} raises ValueError('handlers must be stored only under their own name') on first use")
    for name, path in sorted(table.missing.items()):
        rep.violation(R, site(REG, f"_locations[{name}]"), f"{name} -> {path}", f"registry points `{name}` at {path}, which does not define it",
                      witness=f"passlib.hash.{name} / get_crypt_handler({name!r}) raises AttributeError or ImportError")
    # hash.py import list
    hu = model.unit("passlib.hash")
    listed = set()
    for n in ast.walk(hu.tree):
        if isinstance(n, ast.ImportFrom) and n.module and n.module.startswith("passlib.handlers"):
            for a in n.names:
                listed.add((a.name, n.module))
    names = {a for a, _ in listed}
    rep.check(names == set(table.locations), R, site("passlib.hash", "<static import list>"),
              f"missing={sorted(set(table.locations) - names)} extra={sorted(names - set(table.locations))}",
              "passlib/hash.py's static import list names exactly the registry's handlers")
    for a, mod in sorted(listed):
        loc = table.locations.get(a, "").partition(":")[0]
        if loc:
            rep.check(loc == mod, R, site("passlib.hash", a), f"hash.py imports {a} from {mod}; registry says {loc}", "both tables name the same module")
    # registry consistency check itself
    fn = model.func(REG, "register_crypt_handler")
    rep.check("if _attr and _attr != name:" in qtext(fn), R, site(REG, "register_crypt_handler"), "if _attr and _attr != name: raise",
              "lazy loading verifies handler.name against the requested name")
    fn = model.func(REG, "get_crypt_handler")
    rep.check("register_crypt_handler(handler, _attr=name)" in qtext(fn), R, site(REG, "get_crypt_handler"), "register_crypt_handler(handler, _attr=name)",
              "lazy loader passes the requested name for that check")
    # proxy: passlib.hash.<name> is served from the registry
    fn = model.func(REG, "_PasslibRegistryProxy.__getattr__")
    rep.check("get_crypt_handler(attr" in qtext(fn), R, site(REG, "_PasslibRegistryProxy.__getattr__"), "get_crypt_handler(attr, ...)",
              "passlib.hash.<name> resolves through get_crypt_handler")
    rep.minimum(R, 76)


# ----------------------------------------------------------------------------- presets
def _call_schemes(it, call):
    """scheme list argument of a (Lazy)CryptContext(...) call, folded in interpreter `it`"""
    arg = None
    if call.args:
        arg = call.args[0]
    for k in call.keywords:
        if k.arg == "schemes":
            arg = k.value
    if arg is None:
        return None, {}
    v = it.fold(arg)
    kw = {}
    for k in call.keywords:
        if k.arg in ("default", "deprecated"):
            kw[k.arg] = it.fold(k.value)
    return (list(v) if v is not UNKNOWN and v is not None else UNKNOWN), kw


def _module_presets(model, unitname, oracle=None):
    """walk module body in order, constant-propagating; yield (name, schemes, kw) at each context construction"""
    unit = model.unit(unitname)
    it = Interp(model, unit, oracle)
    out = []

    def visit(stmts):
        for st in stmts:
            if isinstance(st, ast.Assign) and isinstance(st.value, ast.Call) and ast.unparse(st.value.func) in ("LazyCryptContext", "CryptContext"):
                names = [ast.unparse(t) for t in st.targets]
                call = st.value
                if any(k.arg == "onload" for k in call.keywords) and not any(k.arg == "schemes" for k in call.keywords) and not call.args:
                    out.append((names, None, {"onload": True}))
                else:
                    out.append((names,) + _call_schemes(it, call))
                continue
            if isinstance(st, ast.If):
                t = it.fold(st.test)
                # `if registry.os_crypt_present:` -- host dependent: analyse the body (crypt present is the interesting case)
                visit(st.body)
                continue
            if isinstance(st, (ast.FunctionDef, ast.ClassDef)):
                continue
            it.stmt(st)
    visit(unit.tree.body)
    return out, it


def _all_subsets(seq):
    for r in range(len(seq) + 1):
        for sub in itertools.combinations(seq, r):
            yield list(sub)


def _shadow_pairs(im, schemes):
    """-> list of (earlier, later, witness)"""
    out = []
    langs = []
    for s in schemes:
        langs.append(im.lang(s))
    for i in range(len(schemes)):
        for j in range(i + 1, len(schemes)):
            w = langs[i].witness(langs[j])
            if w is not None:
                out.append((schemes[i], schemes[j], w))
    return out


def rule_bc(model, rep, table):
    R = "C17.b-no-shadowing"
    RC = "C17.c-preset-consistency"
    im = IdentifyModels(model, table)
    pair_cache = {}

    from pv.lang import DFA
    universe = DFA.from_regex(r"[!-~]*$", 0, "printable non-space ASCII").without_trailing_newline()
    restricted = {}

    def gen_lang(name):
        # strings a real (non catch-all) hasher can produce are printable, non-space ASCII: restrict the later scheme's
        # identify language to that universe so that regex artefacts (e.g. `.` not matching a newline) do not count
        if name not in restricted:
            restricted[name] = im.lang(name).intersect(universe, im.lang(name).desc)
        return restricted[name]

    def shadows(schemes):
        res = []
        for i in range(len(schemes)):
            for j in range(i + 1, len(schemes)):
                key = (schemes[i], schemes[j])
                if key not in pair_cache:
                    im.lang(schemes[j])
                    if schemes[j] in im.catchall:
                        pair_cache[key] = None   # a catch-all listed later only receives what nobody else claimed
                    else:
                        pair_cache[key] = im.lang(schemes[i]).witness(gen_lang(schemes[j]))
                if pair_cache[key] is not None:
                    res.append((schemes[i], schemes[j], pair_cache[key]))
        return res

    n_cfg = 0
    presets = []
    for un in ("passlib.apps", "passlib.hosts"):
        ps, it = _module_presets(model, un)
        for names, schemes, kw in ps:
            presets.append((un, names, schemes, kw))
    os_schemes = model.fold(model.unit("passlib.utils"), ast.Name(id="unix_crypt_schemes", ctx=ast.Load()))
    if os_schemes is UNKNOWN:
        raise AnalysisError("passlib.utils.unix_crypt_schemes does not fold")
    for un, names, schemes, kw in presets:
        label = "/".join(names)
        s = site(un, label)
        if kw.get("onload") and schemes is None:
            rep.hold(R, s, "built by an onload callback from the whole registry (not exported in __all__): information only")
            continue
        if schemes is UNKNOWN:
            # host_context: _iter_os_crypt_schemes()
            if "host_context" in names:
                fn = model.func(un, "_iter_os_crypt_schemes")
                bad = {}
                cnt = 0
                for sub in _all_subsets(os_schemes):
                    it2 = Interp(model, model.unit(un), {"registry.get_supported_os_crypt_schemes()": tuple(sub)})
                    v = it2.run_function(fn)
                    if v is UNKNOWN or v is None:
                        raise AnalysisError("_iter_os_crypt_schemes not foldable")
                    cnt += 1
                    for a, b, w in shadows(list(v)):
                        bad.setdefault((a, b), (w, sub))
                n_cfg += cnt
                rep.extra["host_context_configs"] = cnt
                if bad:
                    for (a, b), (w, sub) in sorted(bad.items()):
                        rep.violation(R, s, f"{a} listed before {b}", f"identify() of `{a}` also claims strings of `{b}` (e.g. {w!r}) when crypt() supports {sub}",
                                      witness=f"a {b} hash is attributed to {a}: the right password fails to verify through the context")
                else:
                    rep.hold(R, s, f"no earlier scheme claims a later scheme's strings in any of {cnt} host capability subsets")
                continue
            rep.undecided(R, s, "scheme list does not fold")
            continue
        n_cfg += 1
        try:
            sh = shadows(schemes)
        except Unmodelled as e:
            rep.undecided(R, s, str(e))
            continue
        if sh:
            for a, b, w in sh:
                rep.violation(R, s, f"{a} listed before {b}", f"identify() of `{a}` also claims strings of `{b}` (e.g. {w!r})",
                              witness=f"a {b} hash is attributed to {a}: the right password fails to verify through the context")
        else:
            rep.hold(R, s, f"{len(schemes)} schemes, {len(schemes) * (len(schemes) - 1) // 2} ordered pairs disjoint")
        # C: default / deprecated inside the list, every scheme registered
        for sc in schemes:
            rep.check(sc in table.locations, RC, s, sc, "every scheme of the preset is a registered hasher",
                      witness=f"using the preset raises KeyError: no crypt handler found for {sc!r}")
        d = kw.get("default")
        if isinstance(d, str):
            rep.check(d in schemes, RC, s, f"default={d!r}", "the preset's default scheme is one of its schemes")
        dep = kw.get("deprecated")
        if isinstance(dep, (list, tuple)):
            rep.check(set(dep) <= set(schemes), RC, s, f"deprecated={dep!r}", "deprecated schemes belong to the preset")
            if not isinstance(d, str):
                rep.check(schemes[0] not in dep, RC, s, f"first scheme {schemes[0]!r}", "the implicit default (first scheme) is not deprecated")
    # htpasswd context over every host subset
    AP = "passlib.apache"
    fn = model.func(AP, "_init_htpasswd_context")
    bad = {}
    cnt = 0
    s = site(AP, "htpasswd_context")
    for sub in _all_subsets(os_schemes):
        it2 = Interp(model, model.unit(AP), {"registry.get_supported_os_crypt_schemes()": tuple(sub)})
        try:
            it2.block([st for st in fn.body if not isinstance(st, ast.Return)])
        except Exception as e:
            raise AnalysisError(f"_init_htpasswd_context not foldable: {e}")
        schemes = it2.env.get("schemes", UNKNOWN)
        if schemes is UNKNOWN:
            raise AnalysisError("_init_htpasswd_context: `schemes` does not fold")
        cnt += 1
        for a, b, w in shadows(list(schemes)):
            bad.setdefault((a, b), (w, sub))
    n_cfg += cnt
    rep.extra["htpasswd_context_configs"] = cnt
    if bad:
        for (a, b), (w, sub) in sorted(bad.items()):
            rep.violation(R, s, f"{a} listed before {b}", f"identify() of `{a}` also claims strings of `{b}` (e.g. {w!r}) when crypt() supports {sub}",
                          witness=f"an htpasswd entry hashed with {b} is treated as {a}: the correct password fails, the hash text itself is accepted")
    else:
        rep.hold(R, s, f"no shadowing in any of {cnt} host capability subsets")
    # the context returned uses the computed list and a default inside it
    ret = [n for n in ast.walk(fn) if isinstance(n, ast.Return)]
    ok = len(ret) == 1 and isinstance(ret[0].value, ast.Call) and any(k.arg == "schemes" and ast.unparse(k.value) == "schemes" for k in ret[0].value.keywords)
    rep.check(ok, RC, s, ast.unparse(ret[0])[:100] if ret else "<none>", "htpasswd_context is built from the computed list")
    # htpasswd defaults are members of the scheme list (for every bcrypt / host_best combination the builder can produce)
    dfn = model.func(AP, "_init_default_schemes")
    dvals = set()
    for n in ast.walk(dfn):
        if isinstance(n, ast.Constant) and isinstance(n.value, str) and n.value in table.locations:
            dvals.add(n.value)
    it3 = Interp(model, model.unit(AP), {"registry.get_supported_os_crypt_schemes()": tuple(os_schemes)})
    it3.block([st for st in fn.body if not isinstance(st, ast.Return)])
    full = it3.env.get("schemes")
    rep.check(dvals <= set(full), RC, site(AP, "_init_default_schemes"), f"default candidates {sorted(dvals)}", "every default scheme htpasswd may choose is in htpasswd_context",
              witness="HtpasswdFile(default_scheme=...) raises KeyError")
    # django extension default config
    DJ = "passlib.ext.django.utils"
    txt = model.fold(model.unit(DJ), ast.Name(id="PASSLIB_DEFAULT", ctx=ast.Load()))
    if txt is UNKNOWN:
        rep.undecided(R, site(DJ, "PASSLIB_DEFAULT"), "config text does not fold")
    else:
        from configparser import ConfigParser
        cp = ConfigParser(interpolation=None)
        cp.read_string(txt)
        schemes = [x.strip() for x in cp.get("passlib", "schemes").replace("\n", ",").split(",") if x.strip()]
        n_cfg += 1
        sh = shadows(schemes)
        s = site(DJ, "PASSLIB_DEFAULT")
        if sh:
            for a, b, w in sh:
                rep.violation(R, s, f"{a} listed before {b}", f"identify() of `{a}` also claims strings of `{b}` (e.g. {w!r})", witness=f"{b} hashes attributed to {a}")
        else:
            rep.hold(R, s, f"{len(schemes)} schemes pairwise disjoint in order")
        d = cp.get("passlib", "default").strip()
        rep.check(d in schemes, RC, s, f"default={d}", "default scheme is listed")
        dep = [x.strip() for x in cp.get("passlib", "deprecated").replace("\n", ",").split(",") if x.strip()]
        rep.check(set(dep) <= set(schemes) and d not in dep, RC, s, f"deprecated={dep}", "deprecated schemes are listed and exclude the default")
        for key in cp.options("passlib"):
            if "__" in key:
                parts = key.split("__")
                sc = parts[-2]
                rep.check(sc in schemes, RC, s, key, "per-scheme options refer to schemes of the config")
    # preset map of the django extension names existing contexts
    pm = model.fold(model.unit(DJ), ast.Name(id="_preset_map", ctx=ast.Load()))
    apps_names = set()
    for un, names, schemes, kw in presets:
        if un == "passlib.apps":
            apps_names |= set(names)
    apps_unit = model.unit("passlib.apps")
    if isinstance(pm, dict):
        for k, v in pm.items():
            rep.check(v in apps_names or v in apps_unit.assigns, RC, site(DJ, "_preset_map"), f"{k} -> {v}", "django preset names an existing passlib.apps context")
    rep.extra["configurations"] = n_cfg
    rep.extra["identify_models"] = {k: v for k, v in sorted(im.how.items())}
    rep.extra["pairs_decided"] = len(pair_cache)
    rep.exhaustive = True
    rep.minimum(R, 20)


MUTATING = {"append", "extend", "insert", "remove", "pop", "sort", "reverse", "clear", "add", "update", "discard", "setdefault", "popitem"}


def rule_d(model, rep):
    """a process-wide memoized value that presets are built from is never edited in place by a consumer"""
    R = "C17.d-memoized-capabilities-immutable"
    memo = []
    for un, unit in model.units.items():
        if not un.startswith("passlib."):
            continue
        for name, fn in unit.funcs.items():
            if any(ast.unparse(d).split("(")[0].split(".")[-1] in ("memoize_single_value", "lru_cache", "cache") for d in fn.decorator_list):
                memo.append((un, name, fn))
    for un, name, fn in memo:
        from pv.norm import single_defs
        sd = single_defs(fn)
        kinds = []
        for n in walk_no_nested(fn):
            if isinstance(n, ast.Return) and n.value is not None:
                v = n.value
                if isinstance(v, ast.Name) and v.id in sd:
                    v = sd[v.id]
                if isinstance(v, (ast.List, ast.ListComp, ast.Dict, ast.DictComp, ast.Set, ast.SetComp)) or \
                        (isinstance(v, ast.Call) and ast.unparse(v.func) in ("list", "dict", "set", "sorted", "bytearray")):
                    kinds.append(("mutable", ast.unparse(n.value)[:40]))
                elif isinstance(v, (ast.Tuple, ast.Constant)) or (isinstance(v, ast.Call) and ast.unparse(v.func) in ("tuple", "frozenset", "str", "bytes", "int")):
                    kinds.append(("immutable", ast.unparse(n.value)[:40]))
                else:
                    kinds.append(("unknown", ast.unparse(n.value)[:40]))
        mutable = [k for k in kinds if k[0] != "immutable"]
        # consumers that edit the value they were handed
        inplace = []
        for cun, cunit in model.units.items():
            if not cun.startswith("passlib."):
                continue
            for q, cfn in cunit.functions():
                bound = set()
                for n in walk_no_nested(cfn):
                    if isinstance(n, ast.Assign) and isinstance(n.value, ast.Call) and ast.unparse(n.value.func).split(".")[-1] == name and isinstance(n.targets[0], ast.Name):
                        bound.add(n.targets[0].id)
                for n in walk_no_nested(cfn):
                    if isinstance(n, ast.AugAssign) and isinstance(n.target, ast.Name) and n.target.id in bound:
                        inplace.append((cun, q, ast.unparse(n)))
                    if isinstance(n, ast.Call) and isinstance(n.func, ast.Attribute) and n.func.attr in MUTATING and isinstance(n.func.value, ast.Name) and n.func.value.id in bound:
                        inplace.append((cun, q, ast.unparse(n)[:60]))
        s = site(un, name)
        if mutable and inplace:
            for cun, q, txt in inplace:
                rep.violation(R, s, f"returns {mutable[0][1]} (mutable, cached for the process); `{txt}` in {cun}:{q} edits it in place",
                              "the memoized capability list is shared by every caller; an in-place edit by one consumer changes what all later consumers see",
                              witness=f"import order decides the presets: after {cun} ran `{txt}`, every later caller of {name}() gets the edited list (e.g. htpasswd_context gains a scheme)")
        else:
            rep.hold(R, s, f"returns {[k[1] for k in kinds]}; in-place consumers: {len(inplace)} (harmless on an immutable value)")
    rep.minimum(R, 1)


from . import c01 as _c01, c08 as _c08, c19 as _c19  # noqa: E402
from .shared import Renamed as _Renamed  # noqa: E402


def rule_wrapper_identify(model, rep):
    """the schemes of the ldap / roundup / django presets are PrefixWrapper objects and `ldap_plaintext`: what they claim is
       prefix + (what the wrapped scheme claims)   and   every non-empty string that does not start with an RFC 2307 `{SCHEME}` tag"""
    R = "C17.h-wrapper-identify"
    UHm = "passlib.utils.handlers"
    fn = model.func(UHm, "PrefixWrapper.identify")
    # the only way to answer False without asking the wrapped scheme is a prefix mismatch
    falses = []
    for n in walk_no_nested(fn):
        if isinstance(n, ast.If):
            for b in n.body:
                if isinstance(b, ast.Return) and isinstance(b.value, ast.Constant) and b.value.value is False:
                    falses.append(ast.unparse(n.test))
    for st in fn.body:
        if isinstance(st, ast.Return) and isinstance(st.value, ast.Constant) and st.value.value is False:
            falses.append("<unconditional>")
    ok = bool(falses) and all("startswith(self.prefix)" in t for t in falses)
    rep.check(ok, R, site(UHm, "PrefixWrapper.identify"), f"`return False` under: {falses}", "a wrapper refuses a string only for lacking its prefix; everything else is the wrapped scheme's decision",
              witness="roundup_plaintext.identify('{plaintext}') (the hash of the empty password) is False: roundup_context cannot verify an account with an empty password")
    rets = [ast.unparse(r.value) for r in walk_no_nested(fn) if isinstance(r, ast.Return) and not (isinstance(r.value, ast.Constant) and r.value.value is False)]
    rep.check(rets == ["self.wrapped.identify(hash)"] or rets == ["self.wrapped.identify(self._unwrap_hash(hash))"], R, site(UHm, "PrefixWrapper.identify") + " delegate", "; ".join(rets),
              "after unwrapping, the wrapped scheme's identify() decides")
    LD = "passlib.handlers.ldap_digests"
    fn = model.func(LD, "ldap_plaintext.identify")
    pat = model.class_const((LD, "ldap_plaintext"), "_2307_pat")
    node = model.lookup((LD, "ldap_plaintext"), "_2307_pat")[1]
    src = model.fold(model.unit(LD), node.args[0]) if isinstance(node, ast.Call) and node.args else UNKNOWN
    rep.check(src == "^\\{\\w+\\}.*$", R, site(LD, "ldap_plaintext._2307_pat"), repr(src), "the excluded strings are exactly those starting with an RFC 2307 scheme tag `{word-characters}`",
              witness="ldap_plaintext.identify('{p@ss}w0rd') is False: ldap_context attributes the plaintext entry to no scheme and verify() raises")
    rets = [ast.unparse(r.value) for r in walk_no_nested(fn) if isinstance(r, ast.Return)]
    rep.check(rets == ["bool(hash) and cls._2307_pat.match(hash) is None"], R, site(LD, "ldap_plaintext.identify"), "; ".join(rets),
              "ldap_plaintext claims every non-empty string the tag pattern does not match")


def run(model, rep):
    rep.explanation = __doc__
    rep.assumptions = ["identify languages are modelled over a representative alphabet (printable ASCII, NL, TAB, NUL, one non-ASCII stand-in)",
                       "lookup_hash(x).name == x and digest sizes of md4/md5/sha1/sha256/sha512 are the standard ones (class factories)"]
    rule_wrapper_identify(model, rep)      # first: the identify models below assume these shapes and stop the run when they are gone
    table = HandlerTable(model)
    rule_a(model, rep, table)
    rule_bc(model, rep, table)
    rule_d(model, rep)
    # a preset recognises (and verifies) its own schemes only if each scheme's verify() recomputes what hash() made, identify() answers
    # for every str/bytes input, and the lazily built presets (LazyCryptContext) finish their one-time construction correctly
    from .shared import handler_site_filter
    only, used = handler_site_filter(model, table, ("passlib.apps", "passlib.hosts", "passlib.apache"))
    rep.extra["preset_handlers"] = used
    _c01.rule_d(model, _Renamed(rep, {"C01.d": "C17.e-hash-verify-wiring"}, "C17.x-", only=only))
    rep.minimum("C17.e-hash-verify-wiring", 40)
    _c08.rule_c(model, _Renamed(rep, {"C08.c": "C17.f-decoder-errors"}, "C17.x-"))
    _c19.rule_a(model, _Renamed(rep, {"C19.a": "C17.g-lazy-preset-init"}, "C17.x-", only=lambda s: "LazyCryptContext" in s))
    rep.minimum("C17.g-lazy-preset-init", 3)
    # the host presets attribute locked entries to unix_disabled for text and bytes alike: its two marker sets agree (rule shared with C18.c)
    from . import c18 as _c18
    _c18.rule_c(model, _Renamed(rep, {"C18.c": "C17.i-disabled-markers"}, "C17.x-", only=lambda s: "_MARKER" in s or "unix_disabled.identify" in s))
