from itertools import chain

from passlib import hash
from passlib.context import LazyCryptContext
from passlib.utils import sys_bits

__all__ = [
    "custom_app_context",
    "django_context",
    "ldap_context",
    "ldap_nocrypt_context",
    "mysql_context",
    "mysql4_context",
    "mysql3_context",
    "phpass_context",
    "phpbb3_context",
    "postgres_context",
]


def _load_master_config():
    from passlib.registry import list_crypt_handlers

    # get master list
    schemes = list_crypt_handlers()

    # exclude the ones we know have ambiguous or greedy identify() methods.
    excluded = [
        # frequently confused for eachother
        "bigcrypt",
        "crypt16",
        # no good identifiers
        "cisco_pix",
        "cisco_type7",
        "htdigest",
        "mysql323",
        "oracle10",
        # all have same size
        "lmhash",
        "msdcc",
        "msdcc2",
        "nthash",
        # plaintext handlers
        "plaintext",
        "ldap_plaintext",
        # disabled handlers
        "django_disabled",
        "unix_disabled",
    ]
    for name in excluded:
        schemes.remove(name)

    # return config
    return dict(schemes=schemes, default="sha256_crypt")


master_context = LazyCryptContext(onload=_load_master_config)

custom_app_context = LazyCryptContext(
    # choose some reasonbly strong schemes
    schemes=["sha512_crypt", "sha256_crypt"],
    # set some useful global options
    default="sha256_crypt" if sys_bits < 64 else "sha512_crypt",
    # set a good starting point for rounds selection
    sha512_crypt__min_rounds=535000,
    sha256_crypt__min_rounds=535000,
    # if the admin user category is selected, make a much stronger hash,
    admin__sha512_crypt__min_rounds=1024000,
    admin__sha256_crypt__min_rounds=1024000,
)


# Django >= 1.0
_django10_schemes = [
    "django_salted_sha1",
    "django_salted_md5",
    "django_des_crypt",
    "hex_md5",
    "django_disabled",
]

django10_context = LazyCryptContext(
    schemes=_django10_schemes,
    default="django_salted_sha1",
    deprecated=["hex_md5"],
)

# Django >= 1.4
_django14_schemes = [
    "django_pbkdf2_sha256",
    "django_pbkdf2_sha1",
    "django_bcrypt",
] + _django10_schemes

django14_context = LazyCryptContext(
    schemes=_django14_schemes,
    deprecated=_django10_schemes,
)

# Django >= 1.6
_django16_schemes = list(_django14_schemes)
_django16_schemes.insert(1, "django_bcrypt_sha256")
django16_context = LazyCryptContext(
    schemes=_django16_schemes,
    deprecated=_django10_schemes,
)

# Django >=1.10
_django_110_schemes = [
    "django_pbkdf2_sha256",
    "django_pbkdf2_sha1",
    "django_argon2",
    "django_bcrypt",
    "django_bcrypt_sha256",
    "django_disabled",
]
django110_context = LazyCryptContext(
    schemes=_django_110_schemes,
    deprecated="auto",
)

# Django >=2.1
_django21_schemes = list(_django_110_schemes)
_django21_schemes.remove("django_bcrypt")
django21_context = LazyCryptContext(
    schemes=_django21_schemes,
    deprecated="auto",
)

# Django >=3.1
_django31_schemes = list(_django21_schemes)
django31_context = LazyCryptContext(
    schemes=_django31_schemes,
    deprecated="auto",
)

# Django latest
# this will always point to latest version in passlib
django_context = django31_context


#: standard ldap schemes
std_ldap_schemes = [
    "ldap_salted_sha512",
    "ldap_salted_sha256",
    "ldap_salted_sha1",
    "ldap_salted_md5",
    "ldap_sha1",
    "ldap_md5",
    "ldap_plaintext",
]

# create context with all std ldap schemes EXCEPT crypt
ldap_nocrypt_context = LazyCryptContext(std_ldap_schemes)


# create context with all possible std ldap + ldap crypt schemes
def _iter_ldap_crypt_schemes():
    from passlib.utils import unix_crypt_schemes

    return ("ldap_" + name for name in unix_crypt_schemes)


def _iter_ldap_schemes():
    """helper which iterates over supported std ldap schemes"""
    return chain(std_ldap_schemes, _iter_ldap_crypt_schemes())


ldap_context = LazyCryptContext(_iter_ldap_schemes())

### create context with all std ldap schemes + crypt schemes for localhost
##def _iter_host_ldap_schemes():
##    "helper which iterates over supported std ldap schemes"
##    from passlib.handlers.ldap_digests import get_host_ldap_crypt_schemes
##    return chain(std_ldap_schemes, get_host_ldap_crypt_schemes())
##ldap_host_context = LazyCryptContext(_iter_host_ldap_schemes())

mysql3_context = LazyCryptContext(["mysql323"])
mysql4_context = LazyCryptContext(["mysql41", "mysql323"], deprecated="mysql323")
mysql_context = mysql4_context  # tracks latest mysql version supported

postgres_context = LazyCryptContext(["postgres_md5"])


def _create_phpass_policy(**kwds):
    """helper to choose default alg based on bcrypt availability"""
    kwds["default"] = "bcrypt" if hash.bcrypt.has_backend() else "phpass"
    return kwds


phpass_context = LazyCryptContext(
    schemes=["bcrypt", "phpass", "bsdi_crypt"],
    onload=_create_phpass_policy,
)

phpbb3_context = LazyCryptContext(["phpass"], phpass__ident="H")

# TODO: support the drupal phpass variants (see phpass homepage)


_std_roundup_schemes = [
    "ldap_hex_sha1",
    "ldap_hex_md5",
    "ldap_des_crypt",
    "roundup_plaintext",
]
roundup10_context = LazyCryptContext(_std_roundup_schemes)

# NOTE: 'roundup15' really applies to roundup 1.4.17+
roundup_context = roundup15_context = LazyCryptContext(
    schemes=_std_roundup_schemes + ["ldap_pbkdf2_sha1"],
    deprecated=_std_roundup_schemes,
    default="ldap_pbkdf2_sha1",
    ldap_pbkdf2_sha1__default_rounds=10000,
)
