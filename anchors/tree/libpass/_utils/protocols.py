from __future__ import annotations

from typing import Callable, Protocol

from typing_extensions import Buffer, Self


class HashLike(Protocol):
    """Lifted from hashlib.pyi"""

    @property
    def digest_size(self) -> int: ...

    @property
    def block_size(self) -> int: ...

    @property
    def name(self) -> str: ...

    def __init__(self, data: Buffer = ...) -> None: ...

    def copy(self) -> Self: ...

    def digest(self) -> bytes: ...

    def hexdigest(self) -> str: ...

    def update(self, __data: Buffer) -> None: ...


SHAFunc = Callable[[bytes], HashLike]
