"""C06 -- generated salts, keys and passwords are uniform over their declared space.

Decided (structural necessary conditions): (a) every random draw originates from the process-wide
SystemRandom / secrets / os.urandom / bcrypt.gensalt; (b) the two digit-extraction loops split the
random integer into non-overlapping digits of the declared radix and run `count` times;
(c) salt generators use the class's declared size/alphabet; (d) entropy->length formulas are
ceil(E/log2 N); (e) a context cannot pin a salt.  Not decided: quality of the OS source, statistics."""
from __future__ import annotations

import ast

from pv.q import text as qtext
from pv.model import AnalysisError, walk_no_nested, params, UNKNOWN
from pv.norm import Normalizer, Poly, single_defs

UT = "passlib.utils"


def site(u, f):
    return f"{u}:{f}"


# ----------------------------------------------------------------------------- C06.a
RANDOM_DRAW_METHODS = {"getrandbits", "randint", "randrange", "choice", "sample", "shuffle", "random",
                       "randbytes", "choices", "uniform", "gauss"}
SAFE_EXT = {"secrets.choice", "secrets.token_bytes", "secrets.token_hex", "secrets.token_urlsafe",
            "secrets.randbelow", "secrets.randbits", "os.urandom", "bcrypt.gensalt"}


def rule_a(model, rep):
    """who-may-draw: every call of a random-draw method has a receiver that resolves to
    passlib.utils.rng, a parameter/attribute named rng (whose default is that object), or secrets."""
    R = "C06.a-random-source"
    # 1. the rng global itself
    u = model.unit(UT)
    vals = u.assigns.get("rng")
    if not vals:
        raise AnalysisError("passlib.utils.rng binding vanished")
    # find the `if has_urandom:` statement binding rng
    ok_primary = False
    for st in u.tree.body:
        if isinstance(st, ast.If) and isinstance(st.test, ast.Name) and st.test.id == "has_urandom":
            for s in st.body:
                v = s.value if isinstance(s, (ast.Assign, ast.AnnAssign)) else None
                tgt = (s.targets[0] if isinstance(s, ast.Assign) else getattr(s, "target", None))
                if v is not None and isinstance(tgt, ast.Name) and tgt.id == "rng":
                    d = model.dotted(u, v.func) if isinstance(v, ast.Call) else None
                    ok_primary = d == "random.SystemRandom" and not v.args and not v.keywords
                    rep.check(ok_primary, R, site(UT, "<module>.rng"), ast.unparse(v),
                              "process-wide rng must be random.SystemRandom() when os.urandom works",
                              witness="passlib.utils.rng is no longer a SystemRandom: salts/keys become predictable")
    if not any(o["site"] == site(UT, "<module>.rng") for o in rep.obl):
        # other accepted shape: rng = random.SystemRandom() unconditionally / conditional expression
        for v in vals:
            if isinstance(v, ast.IfExp):
                v = v.body
            d = model.dotted(u, v.func) if isinstance(v, ast.Call) else None
            if d == "random.SystemRandom":
                rep.hold(R, site(UT, "<module>.rng"), "rng = SystemRandom()")
                break
        else:
            rep.undecided(R, site(UT, "<module>.rng"), "binding shape of passlib.utils.rng not recognised")
    # 2. every draw in the tree
    for un, unit in model.units.items():
        for q, fn in list(unit.functions()) + [("<module>", unit.tree)]:
            body_iter = walk_no_nested(fn) if q != "<module>" else _module_level(unit.tree)
            pnames = set(params(fn)) if q != "<module>" else set()
            for n in body_iter:
                if not isinstance(n, ast.Call):
                    continue
                f = n.func
                d = model.dotted(unit, f) if isinstance(f, (ast.Name, ast.Attribute)) else None
                if d and (d.startswith("random.") or d.startswith("secrets.") or d in ("os.urandom", "bcrypt.gensalt")):
                    if d in SAFE_EXT or d == "random.SystemRandom":
                        rep.hold(R, site(un, q), d)
                    elif d == "random.Random":
                        # allowed only as the documented no-urandom fallback, seeded from genseed()
                        arg = ast.unparse(n.args[0]) if n.args else ""
                        rep.check(un == UT and arg.startswith("genseed("), R, site(un, q), ast.unparse(n),
                                  "random.Random only as the seeded fallback in passlib.utils",
                                  witness="a Mersenne-Twister instance with constant/implicit seed feeds salt or key generation")
                    else:
                        rep.violation(R, site(un, q), ast.unparse(n),
                                      f"module-level {d}() draws from the shared Mersenne Twister, not the OS source",
                                      witness="generated salts/keys/passwords come from a predictable PRNG")
                    continue
                if isinstance(f, ast.Attribute) and f.attr in RANDOM_DRAW_METHODS:
                    recv = f.value
                    rd = model.dotted(unit, recv) if isinstance(recv, (ast.Name, ast.Attribute)) else None
                    txt = qtext(recv)
                    if rd in ("passlib.utils.rng",) or (isinstance(recv, ast.Name) and recv.id == "rng" and
                                                         (recv.id in pnames or _enclosing_has_param(unit, n, "rng"))):
                        rep.hold(R, site(un, q), f"{txt}.{f.attr}")
                    elif txt in ("self.rng", "cls.rng"):
                        rep.hold(R, site(un, q), f"{txt}.{f.attr} (class default checked in C06.a-classrng)")
                    elif rd is not None and rd.startswith("passlib.utils.handlers.rng"):
                        rep.hold(R, site(un, q), f"{txt}.{f.attr}")
                    elif rd is not None and (rd == "random" or rd.startswith("random.")):
                        rep.violation(R, site(un, q), ast.unparse(n), "draw from the random module's shared instance",
                                      witness="predictable PRNG used for generated material")
                    elif f.attr in ("choice", "sample", "shuffle", "random", "uniform", "gauss", "choices") and rd is None \
                            and not _looks_like_rng(txt):
                        # e.g. some_list.choice -- not a random draw
                        continue
                    elif _looks_like_rng(txt) or f.attr in ("getrandbits", "randint", "randrange", "randbytes"):
                        src_ok = _receiver_is_param_rng(unit, n, recv)
                        if src_ok:
                            rep.hold(R, site(un, q), f"{txt}.{f.attr} (rng parameter)")
                        else:
                            rep.violation(R, site(un, q), ast.unparse(n),
                                          f"random draw from '{txt}', which does not resolve to passlib.utils.rng / secrets",
                                          witness="generated material does not come from the process-wide SystemRandom")
    rep.minimum(R, 12)
    # 3. class-level rng default of SequenceGenerator
    owner, node = model.lookup(("passlib.pwd", "SequenceGenerator"), "rng")
    if node is None:
        raise AnalysisError("SequenceGenerator.rng vanished")
    d = model.dotted(model.unit("passlib.pwd"), node) if isinstance(node, (ast.Name, ast.Attribute)) else None
    rep.check(d == "passlib.utils.rng", "C06.a-classrng", site("passlib.pwd", "SequenceGenerator.rng"), ast.unparse(node),
              "generator default rng must be passlib.utils.rng",
              witness="genword()/genphrase() draw from a different source than the process-wide SystemRandom")
    # uh.rng re-export
    uh = model.unit("passlib.utils.handlers")
    r = model.resolve(uh, ast.Name(id="rng"))
    rep.check(r == ("value", UT, "rng"), "C06.a-classrng", site("passlib.utils.handlers", "rng"), str(r),
              "passlib.utils.handlers.rng is the passlib.utils object")


def _module_level(tree):
    stack = list(tree.body)
    while stack:
        n = stack.pop()
        if isinstance(n, (ast.FunctionDef, ast.AsyncFunctionDef, ast.ClassDef)):
            if isinstance(n, ast.ClassDef):
                # class bodies execute at import: include their direct statements, not methods
                stack.extend(n.body)
            continue
        yield n
        stack.extend(ast.iter_child_nodes(n))


def _looks_like_rng(txt):
    t = txt.split(".")[-1].lower()
    return "rng" in t or "random" in t or t in ("rand", "prng")


def _enclosing_has_param(unit, node, name):
    fn = unit.enclosing_func(node)
    while fn is not None:
        if not isinstance(fn, ast.Lambda) and name in params(fn):
            return True
        fn = unit.enclosing_func(fn)
    return False


def _receiver_is_param_rng(unit, node, recv):
    return isinstance(recv, ast.Name) and _enclosing_has_param(unit, node, recv.id)


# ----------------------------------------------------------------------------- C06.b
def _find_loop(fn):
    """first while/for loop in fn (descending into the nested generator helper)"""
    for n in ast.walk(fn):
        if isinstance(n, (ast.While, ast.For)):
            return n
    return None


def _trip_count(fn, loop, norm):
    """-> Poly trip count or None"""
    if isinstance(loop, ast.For):
        it = loop.iter
        if isinstance(it, ast.Call) and isinstance(it.func, ast.Name) and it.func.id == "range":
            if len(it.args) == 1:
                return norm.poly(it.args[0])
            if len(it.args) == 2:
                return norm.poly(it.args[1]) - norm.poly(it.args[0])
        return None
    # while <i> <op> <bound>, i initialised to const before, stepped by const inside
    t = loop.test
    if not (isinstance(t, ast.Compare) and len(t.ops) == 1 and isinstance(t.left, ast.Name)):
        return None
    i = t.left.id
    bound = norm.poly(t.comparators[0])
    init = None
    for n in ast.walk(fn):
        if isinstance(n, ast.Assign) and len(n.targets) == 1 and isinstance(n.targets[0], ast.Name) \
                and n.targets[0].id == i and n not in list(ast.walk(loop)):
            init = norm.poly(n.value)
    step = None
    for n in ast.walk(loop):
        if isinstance(n, ast.AugAssign) and isinstance(n.target, ast.Name) and n.target.id == i and isinstance(n.op, ast.Add):
            step = norm.poly(n.value)
        elif isinstance(n, ast.Assign) and len(n.targets) == 1 and isinstance(n.targets[0], ast.Name) and n.targets[0].id == i:
            p = norm.poly(n.value) - Poly.atom(i)
            step = p
    if init is None or step is None or step.value() != 1:
        return None
    if isinstance(t.ops[0], ast.Lt):
        return bound - init
    if isinstance(t.ops[0], ast.LtE):
        return bound - init + Poly.const(1)
    if isinstance(t.ops[0], ast.NotEq):
        return bound - init
    return None


def _updates(loop, var):
    """normalised updates `var = var <op> k` inside loop -> list of (opname, operand expr)"""
    out = []
    for n in ast.walk(loop):
        if isinstance(n, ast.AugAssign) and isinstance(n.target, ast.Name) and n.target.id == var:
            out.append((type(n.op).__name__, n.value))
        elif isinstance(n, ast.Assign) and len(n.targets) == 1 and isinstance(n.targets[0], ast.Name) \
                and n.targets[0].id == var and isinstance(n.value, ast.BinOp) \
                and isinstance(n.value.left, ast.Name) and n.value.left.id == var:
            out.append((type(n.value.op).__name__, n.value.right))
    return out


def _emitted(loop):
    """expressions yielded / appended per iteration"""
    out = []
    for n in ast.walk(loop):
        if isinstance(n, ast.Yield) and n.value is not None:
            out.append(n.value)
        elif isinstance(n, ast.Call) and isinstance(n.func, ast.Attribute) and n.func.attr == "append" and n.args:
            out.append(n.args[0])
    return out


def rule_b_bytes(model, rep):
    R = "C06.b-byte-extraction"
    fn = model.func(UT, "getrandbytes")
    s = site(UT, "getrandbytes")
    ps = params(fn)
    if len(ps) < 2:
        raise AnalysisError("getrandbytes signature changed")
    rngp, countp = ps[0], ps[1]
    norm = Normalizer(env=single_defs(fn))
    count = Poly.atom(countp)
    draws = [n for n in ast.walk(fn) if isinstance(n, ast.Call) and isinstance(n.func, ast.Attribute)
             and n.func.attr in ("getrandbits", "randbytes", "urandom", "token_bytes")]
    if len(draws) != 1:
        rep.undecided(R, s, f"expected exactly one random draw, found {len(draws)}")
        return
    d = draws[0]
    if d.func.attr in ("randbytes", "urandom", "token_bytes"):
        ok = len(d.args) == 1 and norm.poly(d.args[0]) == count
        rep.check(ok, R, s, ast.unparse(d), f"direct byte draw must request exactly `{countp}` bytes",
                  witness="generated salt/key has the wrong size")
        return
    bits = norm.poly(d.args[0]) if d.args else None
    # idiom: getrandbits(8*count).to_bytes(count, ...)
    par = None
    for n in ast.walk(fn):
        if isinstance(n, ast.Call) and isinstance(n.func, ast.Attribute) and n.func.attr == "to_bytes" and n.func.value is d:
            par = n
    if par is not None:
        ok = bits == count * Poly.const(8) and par.args and norm.poly(par.args[0]) == count
        rep.check(ok, R, s, ast.unparse(par), "getrandbits(8*count).to_bytes(count) idiom",
                  witness="bytes are not an exact split of the drawn integer")
        return
    loop = _find_loop(fn)
    if loop is None:
        rep.undecided(R, s, "no extraction loop and no recognised direct idiom")
        return
    # variable holding the drawn integer
    var = None
    for n in ast.walk(fn):
        if isinstance(n, ast.Assign) and n.value is d and isinstance(n.targets[0], ast.Name):
            var = n.targets[0].id
    if var is None:
        rep.undecided(R, s, "drawn integer is not bound to a simple name")
        return
    em = _emitted(loop)
    ups = _updates(loop, var)
    if len(em) != 1 or len(ups) != 1:
        rep.undecided(R, s, f"loop shape not recognised (emits={len(em)} updates={len(ups)})")
        return
    e = em[0]
    mask = None
    if isinstance(e, ast.BinOp) and isinstance(e.op, ast.BitAnd):
        for a, b in ((e.left, e.right), (e.right, e.left)):
            if isinstance(a, ast.Name) and a.id == var:
                mask = norm.poly(b).value()
    elif isinstance(e, ast.BinOp) and isinstance(e.op, ast.Mod) and isinstance(e.left, ast.Name) and e.left.id == var:
        m = norm.poly(e.right).value()
        mask = m - 1 if isinstance(m, int) else None
    if not isinstance(mask, int):
        rep.undecided(R, s, f"emitted digit `{ast.unparse(e)}` is not `{var} & <const>`")
        return
    op, operand = ups[0]
    k = norm.poly(operand).value()
    if op == "RShift" and isinstance(k, int):
        radix = 1 << k
    elif op == "FloorDiv" and isinstance(k, int):
        radix = k
    else:
        rep.undecided(R, s, f"update `{var} {op}= {ast.unparse(operand)}` not recognised")
        return
    wit = ("consecutive generated bytes share bits / do not cover 0..255 uniformly: "
           "e.g. a 16-byte salt or 20-byte TOTP key carries far fewer than 8 bits per byte")
    rep.check(mask + 1 == radix, R, s, f"emit {ast.unparse(e)}; {var} {op}= {ast.unparse(operand)}",
              f"digit mask ({mask:#x}) and per-iteration reduction (radix {radix}) must describe the same digit: "
              f"mask+1 == radix", witness=wit)
    rep.check(radix == 256, R, s, f"{var} {op}= {ast.unparse(operand)}",
              f"each extracted digit must be one byte (radix 256), found radix {radix}", witness=wit)
    rep.check(bits == count * Poly.const(8), R, s, ast.unparse(d),
              f"bits drawn must be 8*{countp} (found {bits})", witness=wit)
    tc = _trip_count(fn, loop, norm)
    if tc is None:
        rep.undecided(R, s, "trip count of extraction loop not recognised")
    else:
        rep.check(tc == count, R, s, f"loop trip count = {tc}", f"loop must run exactly `{countp}` times",
                  witness="generated byte string has the wrong length")


def rule_b_str(model, rep):
    R = "C06.b-digit-extraction"
    fn = model.func(UT, "getrandstr")
    s = site(UT, "getrandstr")
    ps = params(fn)
    if len(ps) < 3:
        raise AnalysisError("getrandstr signature changed")
    rngp, charsetp, countp = ps[:3]
    norm = Normalizer(env=single_defs(fn))
    letters = Poly.atom(f"len({charsetp})")
    count = Poly.atom(countp)
    draws = [n for n in ast.walk(fn) if isinstance(n, ast.Call) and isinstance(n.func, ast.Attribute)
             and n.func.attr in ("randrange", "randint", "getrandbits", "choice", "choices", "randbelow")]
    if len(draws) != 1:
        rep.undecided(R, s, f"expected exactly one random draw, found {len(draws)}")
        return
    d = draws[0]
    wit = "some strings of the declared space are unreachable or over-represented (salt / password bias)"
    if d.func.attr == "choice":
        # "".join(rng.choice(charset) for _ in range(count))
        gen = None
        for n in ast.walk(fn):
            if isinstance(n, (ast.GeneratorExp, ast.ListComp)) and d in list(ast.walk(n)):
                gen = n
        ok = gen is not None and len(gen.generators) == 1 and d.args and norm.canon(d.args[0]) == charsetp
        if ok:
            it = gen.generators[0].iter
            ok = isinstance(it, ast.Call) and ast.unparse(it.func) == "range" and len(it.args) == 1 and norm.poly(it.args[0]) == count
        rep.check(ok, R, s, ast.unparse(gen or d), "choice-per-position idiom over the charset, `count` positions", witness=wit)
        return
    if d.func.attr == "getrandbits":
        uses_mod = any(isinstance(n, ast.BinOp) and isinstance(n.op, ast.Mod) for n in ast.walk(fn))
        rep.check(not uses_mod, R, s, ast.unparse(d),
                  "a getrandbits() draw is uniform on [0, 2**k); reducing it modulo len(charset) is biased unless the alphabet size is a power of two",
                  witness="getrandstr(rng, 'abc', 1): P('a') = 1/2 instead of 1/3 -- generated passwords and 62-character salts are not uniform")
        if uses_mod:
            return
        rep.undecided(R, s, "getrandbits draw without modulo reduction: idiom not recognised")
        return
    if d.func.attr not in ("randrange", "randint"):
        rep.undecided(R, s, f"draw idiom {d.func.attr} not recognised")
        return
    # upper bound (exclusive) of the drawn value
    if d.func.attr == "randrange":
        lo = norm.poly(d.args[0]) if len(d.args) == 2 else Poly.const(0)
        hi = norm.poly(d.args[-1])
    else:
        lo = norm.poly(d.args[0])
        hi = norm.poly(d.args[1]) + Poly.const(1)
    space = Poly.atom(f"pow({letters.key()},{count.key()})")
    rep.check(lo == Poly.const(0) and hi == space, R, s, ast.unparse(d),
              f"random value must be uniform on [0, letters**count): found [{lo}, {hi})", witness=wit)
    loop = _find_loop(fn)
    var = None
    for n in ast.walk(fn):
        if isinstance(n, ast.Assign) and n.value is d and isinstance(n.targets[0], ast.Name):
            var = n.targets[0].id
    if loop is None or var is None:
        rep.undecided(R, s, "extraction loop / value variable not found")
        return
    em = _emitted(loop)
    ups = _updates(loop, var)
    if len(em) != 1 or len(ups) != 1:
        rep.undecided(R, s, f"loop shape not recognised (emits={len(em)} updates={len(ups)})")
        return
    e = em[0]
    ok_emit = (isinstance(e, ast.Subscript) and norm.canon(e.value) == charsetp and isinstance(e.slice, ast.BinOp)
               and isinstance(e.slice.op, ast.Mod) and isinstance(e.slice.left, ast.Name) and e.slice.left.id == var)
    if not ok_emit:
        rep.undecided(R, s, f"emitted symbol `{ast.unparse(e)}` is not `{charsetp}[{var} % <radix>]`")
        return
    rep.check(norm.poly(e.slice.right) == letters, R, s, ast.unparse(e),
              "digit = value % len(charset)", witness=wit)
    op, operand = ups[0]
    rep.check(op == "FloorDiv" and norm.poly(operand) == letters, R, s, f"{var} {op}= {ast.unparse(operand)}",
              "value //= len(charset) (same radix as the digit)", witness=wit)
    tc = _trip_count(fn, loop, norm)
    if tc is None:
        rep.undecided(R, s, "trip count of extraction loop not recognised")
    else:
        rep.check(tc == count, R, s, f"loop trip count = {tc}", f"loop must run exactly `{countp}` times",
                  witness="generated string has the wrong length")
    # degenerate-alphabet guards
    guards = [n for n in ast.walk(fn) if isinstance(n, ast.If)]
    has_neg = any("count < 0" in qtext(g.test).replace(countp, "count") for g in guards)
    rep.check(has_neg, R, s, "if count < 0: raise", "negative count refused")


# ----------------------------------------------------------------------------- C06.c
def rule_c(model, rep):
    R = "C06.c-declared-size"
    UH = "passlib.utils.handlers"
    # integer salts: the generator covers the documented 4-bit range 0..15, every value included
    CI = "passlib.handlers.cisco"
    fn = model.func(CI, "cisco_type7._generate_salt")
    rets = [n.value for n in walk_no_nested(fn) if isinstance(n, ast.Return) and isinstance(n.value, ast.Call)]
    span = None
    if len(rets) == 1 and isinstance(rets[0].func, ast.Attribute) and len(rets[0].args) == 2:
        a, b = (model.fold(model.unit(CI), x) for x in rets[0].args)
        if isinstance(a, int) and isinstance(b, int):
            span = (a, b) if rets[0].func.attr == "randint" else ((a, b - 1) if rets[0].func.attr == "randrange" else None)
    lo, hi = model.class_const((CI, "cisco_type7"), "min_salt_value"), model.class_const((CI, "cisco_type7"), "max_salt_value")
    rep.check(span == (0, 15) and lo == 0 and isinstance(hi, int) and hi >= 15, R, site(CI, "cisco_type7._generate_salt"), f"{ast.unparse(rets[0]) if rets else '<none>'} draws {span}; accepted range {lo}..{hi}",
              "cisco type 7 salts are generated over the whole documented range(0, 16) (inclusive bounds counted for randint, exclusive for randrange)",
              witness="one of the 16 salt values is never generated (e.g. randrange(0, 15) never yields 15): the salt distribution is not the declared one")
    # base generators
    for clsname, helper, nargs in (("HasSalt", "getrandstr", 3), ("HasRawSalt", "getrandbytes", 2)):
        owner, fn = model.method((UH, clsname), "_generate_salt")
        s = site(UH, f"{clsname}._generate_salt")
        rets = [n for n in ast.walk(fn) if isinstance(n, ast.Return) and n.value is not None]
        if len(rets) != 1 or not isinstance(rets[0].value, ast.Call):
            rep.undecided(R, s, "return shape not recognised")
            continue
        c = rets[0].value
        d = model.dotted(model.unit(UH), c.func)
        args = [ast.unparse(a) for a in c.args]
        want = (["rng", "cls.default_salt_chars", "cls.default_salt_size"] if helper == "getrandstr"
                else ["rng", "cls.default_salt_size"])
        rep.check(d == f"passlib.utils.{helper}" and args == want, R, s, ast.unparse(c),
                  f"salt = {helper}({', '.join(want)})",
                  witness="generated salts ignore the configured salt size / alphabet")
    # overrides of _generate_salt anywhere: must return super()._generate_salt() / base helper with own attrs
    n_over = 0
    for un, unit in model.units.items():
        for cn, c in unit.classes.items():
            for st in c.body:
                if isinstance(st, ast.FunctionDef) and st.name == "_generate_salt" and (un, cn) not in (
                        (UH, "HasSalt"), (UH, "HasRawSalt")):
                    n_over += 1
                    s = site(un, f"{cn}._generate_salt")
                    calls = [ast.unparse(x.func) for x in ast.walk(st) if isinstance(x, ast.Call)]
                    ok = any(x in ("super()._generate_salt", "getrandstr", "getrandbytes", "uh.getrandstr",
                                   "uh.getrandbytes") for x in calls)
                    for x in ast.walk(st):
                        if isinstance(x, ast.Call) and isinstance(x.func, ast.Attribute) and \
                                x.func.attr in RANDOM_DRAW_METHODS:
                            r = model.resolve(unit, x.func.value)
                            if r == ("value", UT, "rng"):
                                ok = True
                    rep.check(ok, R, s, "; ".join(calls) or "<no call>",
                              "salt override must derive its value from the base generator / rng helper",
                              witness="salt no longer random")
    # django_disabled suffix, TOTP.new key, wallet salt, generate_secret
    tot = model.unit("passlib.totp")
    fn = model.func("passlib.totp", "AppWallet.encrypt_key")
    found = [n for n in ast.walk(fn) if isinstance(n, ast.Call) and ast.unparse(n.func) == "getrandbytes"]
    rep.check(len(found) == 1 and [ast.unparse(a) for a in found[0].args] == ["rng", "self.salt_size"], R,
              site("passlib.totp", "AppWallet.encrypt_key"), ast.unparse(found[0]) if found else "<none>",
              "wallet salt = getrandbytes(rng, self.salt_size)", witness="encrypted TOTP keys share a salt / wrong salt size")
    fn = model.func("passlib.totp", "TOTP.__init__")
    found = [n for n in ast.walk(fn) if isinstance(n, ast.Call) and ast.unparse(n.func) == "getrandbytes"]
    ok = len(found) == 1 and [ast.unparse(a) for a in found[0].args] == ["rng", "size"]
    rep.check(ok, R, site("passlib.totp", "TOTP.__init__"), ast.unparse(found[0]) if found else "<none>",
              "new key = getrandbytes(rng, size)", witness="new TOTP keys have the wrong size")
    if ok:
        # size defaults to digest_size:  `if size is None: size = digest_size`
        good = False
        for n in ast.walk(fn):
            if isinstance(n, ast.If) and ast.unparse(n.test) == "size is None":
                for s_ in n.body:
                    if isinstance(s_, ast.Assign) and ast.unparse(s_.targets[0]) == "size":
                        good = ast.unparse(s_.value) == "digest_size"
                        rep.check(good, R, site("passlib.totp", "TOTP.__init__"), ast.unparse(s_),
                                  "default key size = digest size (RFC 6238 section 5.1)",
                                  witness="TOTP.new() keys shorter than the digest")
        if not good and not any(o["verdict"] == "VIOLATION" and o["site"].endswith("TOTP.__init__") for o in rep.obl):
            rep.undecided(R, site("passlib.totp", "TOTP.__init__"), "default-size assignment not found")
    # bcrypt: final salt char alphabet = characters with the 4 padding bits clear
    bc = ("passlib.handlers.bcrypt", "_BcryptCommon")
    fsc = model.class_const(bc, "final_salt_chars")
    chars = model.fold(model.unit("passlib.utils.binary"), ast.Name(id="BCRYPT_CHARS"))
    if fsc is UNKNOWN or chars is UNKNOWN:
        rep.undecided(R, site(*bc) + ".final_salt_chars", "cannot fold final_salt_chars / BCRYPT_CHARS")
    else:
        want = "".join(chars[i] for i in range(0, 64, 16))
        rep.check(sorted(fsc) == sorted(want), R, site(*bc) + ".final_salt_chars", repr(fsc),
                  f"final bcrypt salt char must encode 2 data bits + 4 zero padding bits: {want!r}",
                  witness="generated bcrypt salts carry non-zero padding bits / fewer than 128 bits")


# ----------------------------------------------------------------------------- C06.d
def rule_d(model, rep):
    R = "C06.d-entropy-length"
    wit = "generated secret/password carries less entropy than requested"
    # SequenceGenerator.__init__: min_length = int(ceil(entropy / self.entropy_per_symbol))
    fn = model.func("passlib.pwd", "SequenceGenerator.__init__")
    s = site("passlib.pwd", "SequenceGenerator.__init__")
    ml = [n for n in ast.walk(fn) if isinstance(n, ast.Assign) and ast.unparse(n.targets[0]) == "min_length"]
    if len(ml) != 1:
        rep.undecided(R, s, "min_length assignment not found")
    else:
        txt = qtext(ml[0].value).replace("math.", "")
        rep.check(txt in ("int(ceil(entropy / self.entropy_per_symbol))", "ceil(entropy / self.entropy_per_symbol)"),
                  R, s, ast.unparse(ml[0]), "min_length = ceil(entropy / entropy_per_symbol)", witness=wit)
        # raised when shorter
        g = [n for n in ast.walk(fn) if isinstance(n, ast.If) and "length < min_length" in qtext(n.test)]
        ok = bool(g) and any(isinstance(x, ast.Assign) and ast.unparse(x) == "length = min_length" for x in g[0].body)
        rep.check(ok, R, s, ast.unparse(g[0].test) if g else "<missing>",
                  "a requested length below the entropy minimum is raised to it", witness=wit)
    eps = model.func("passlib.pwd", "SequenceGenerator.entropy_per_symbol")
    rets = [ast.unparse(n.value).replace("math.", "") for n in ast.walk(eps) if isinstance(n, ast.Return)]
    rep.check(rets in (["log2(self.symbol_count)"], ["log(self.symbol_count, 2)"]), R,
              site("passlib.pwd", "SequenceGenerator.entropy_per_symbol"), "; ".join(rets),
              "entropy per symbol = log2(symbol_count)", witness=wit)
    for cls_, attr in (("WordGenerator", "self.chars"), ("PhraseGenerator", "self.words")):
        f2 = model.func("passlib.pwd", f"{cls_}.symbol_count")
        rets = [ast.unparse(n.value) for n in ast.walk(f2) if isinstance(n, ast.Return)]
        rep.check(rets == [f"len({attr})"], R, site("passlib.pwd", f"{cls_}.symbol_count"), "; ".join(rets),
                  f"symbol_count = len({attr})", witness=wit)
    # generators draw `length` symbols from the declared set
    f3 = model.func("passlib.pwd", "WordGenerator.__next__")
    rets = [ast.unparse(n.value) for n in ast.walk(f3) if isinstance(n, ast.Return)]
    rep.check(rets == ["getrandstr(self.rng, self.chars, self.length)"], R, site("passlib.pwd", "WordGenerator.__next__"),
              "; ".join(rets), "word = getrandstr(self.rng, self.chars, self.length)", witness=wit)
    f4 = model.func("passlib.pwd", "PhraseGenerator.__next__")
    txt = qtext(f4)
    ok = "self.rng.choice(self.words) for _ in range(self.length)" in txt
    rep.check(ok, R, site("passlib.pwd", "PhraseGenerator.__next__"), txt.split("\n", 1)[-1].strip()[:200],
              "phrase = `length` independent choices from self.words", witness=wit)
    # validated-cache discipline of _ensure_unique: a source is remembered as valid only after the uniqueness test passed
    eu = model.func("passlib.pwd", "_ensure_unique")
    unit_pwd = model.unit("passlib.pwd")
    adds = [n for n in ast.walk(eu) if isinstance(n, ast.Call) and ast.unparse(n.func) == "cache.add"]
    if not adds:
        rep.hold(R, site("passlib.pwd", "_ensure_unique"), "no validation cache")
    for a in adds:
        ok = False
        node = a
        while node is not eu and node is not None:
            par = unit_pwd.parent(node)
            if isinstance(par, ast.If) and node in par.body and "len(set(source)) == len(source)" in qtext(par.test):
                ok = True
            node = par
        rep.check(ok, R, site("passlib.pwd", "_ensure_unique"), ast.unparse(a), "a charset/wordset enters the 'already validated' cache only inside the branch where it was found duplicate-free",
                  witness="genword(chars='aaaaaaab', entropy=32): refused on the first call, accepted on the retry -- passwords with ~6 bits instead of 32")
    rep.check(any(isinstance(n, ast.Raise) and qtext(n).loose("ValueError") for n in ast.walk(eu)), R, site("passlib.pwd", "_ensure_unique"), "raise ValueError",
              "duplicates are refused with ValueError")
    for cls_, attr in (("WordGenerator", "chars"), ("PhraseGenerator", "words")):
        init = model.func("passlib.pwd", cls_ + ".__init__")
        rep.check(f"_ensure_unique({attr}, param='{attr}')" in qtext(init), R, site("passlib.pwd", cls_ + ".__init__"), f"_ensure_unique({attr})",
                  f"{cls_} validates its symbol set for duplicates (entropy per symbol assumes distinct symbols)", witness=wit)
    # totp.generate_secret: count = ceil(entropy * log(2, len(charset)))
    fn = model.func("passlib.totp", "generate_secret")
    s = site("passlib.totp", "generate_secret")
    cnt = [n for n in ast.walk(fn) if isinstance(n, ast.Assign) and ast.unparse(n.targets[0]) == "count"]
    if len(cnt) != 1:
        rep.undecided(R, s, "count assignment not found")
    else:
        txt = qtext(cnt[0].value).replace("math.", "")
        okset = {"int(ceil(entropy * log(2, len(charset))))", "ceil(entropy * log(2, len(charset)))",
                 "int(ceil(entropy / log2(len(charset))))", "ceil(entropy / log2(len(charset)))",
                 "int(ceil(entropy / log(len(charset), 2)))"}
        rep.check(txt in okset, R, s, ast.unparse(cnt[0]), "count = ceil(entropy / log2(len(charset)))", witness=wit)
        rets = [ast.unparse(n.value) for n in ast.walk(fn) if isinstance(n, ast.Return)]
        rep.check(rets == ["getrandstr(rng, charset, count)"], R, s, "; ".join(rets), "secret = getrandstr(rng, charset, count)", witness=wit)
    # libpass
    fn = model.func("libpass._salt", "generate_salt_by_entropy")
    s = site("libpass._salt", "generate_salt_by_entropy")
    ln = [n for n in ast.walk(fn) if isinstance(n, ast.Assign) and ast.unparse(n.targets[0]) == "length"]
    if len(ln) != 1:
        rep.undecided(R, s, "length assignment not found")
    else:
        txt = qtext(ln[0].value)
        rep.check(txt in ("math.ceil(entropy_bits / math.log2(len(chars)))", "ceil(entropy_bits / log2(len(chars)))"),
                  R, s, ast.unparse(ln[0]), "length = ceil(entropy_bits / log2(len(chars)))", witness=wit)
    fn = model.func("libpass._salt", "generate_salt")
    txt = [ast.unparse(n.value) for n in ast.walk(fn) if isinstance(n, ast.Return)]
    rep.check(txt == ["''.join((secrets.choice(chars) for _ in range(length)))"], R, site("libpass._salt", "generate_salt"),
              "; ".join(txt), "salt = `length` independent secrets.choice(chars)", witness="libpass salts biased / wrong length")
    fn = model.func("libpass.hashers.sha_crypt", "_gen_salt")
    txt = [ast.unparse(n.value) for n in ast.walk(fn) if isinstance(n, ast.Return)]
    rep.check(txt == ["''.join((secrets.choice(B64_CHARS) for _ in range(size)))"], R,
              site("libpass.hashers.sha_crypt", "_gen_salt"), "; ".join(txt),
              "salt = `size` independent secrets.choice(B64_CHARS)", witness="libpass sha-crypt salts biased / wrong length")


# ----------------------------------------------------------------------------- C06.e
def rule_e(model, rep):
    R = "C06.e-salt-not-pinnable"
    CTX = "passlib.context"
    u = model.unit(CTX)
    v = model.fold(u, ast.Name(id="_forbidden_scheme_options"))
    rep.check(v is not UNKNOWN and "salt" in v, R, site(CTX, "_forbidden_scheme_options"), repr(v),
              "'salt' is a forbidden scheme option", witness="CryptContext(schemes=[..], all__salt='x') pins every salt")
    fn = model.func(CTX, "_CryptConfig._norm_scheme_option")
    s = site(CTX, "_CryptConfig._norm_scheme_option")
    # first statement(s): if key in _forbidden_scheme_options: raise KeyError
    ok = False
    for st in fn.body:
        if isinstance(st, ast.Expr) and isinstance(st.value, ast.Constant):
            continue
        if isinstance(st, ast.If) and "in _forbidden_scheme_options" in qtext(st.test) and \
                any(isinstance(x, ast.Raise) for x in st.body) and not qtext(st.test).loose("not in"):
            ok = True
        break
    rep.check(ok, R, s, ast.unparse(fn.body[0] if not isinstance(fn.body[0], ast.Expr) else fn.body[1])[:160],
              "first action of _norm_scheme_option: raise on forbidden key", witness="forbidden 'salt' option accepted")
    # every store into scheme option maps in _CryptConfig.__init__/_init_options passes through _norm_scheme_option
    init = model.func(CTX, "_CryptConfig._init_options")
    calls = [n for n in ast.walk(init) if isinstance(n, ast.Call) and ast.unparse(n.func) == "norm_scheme_option"
             or isinstance(n, ast.Call) and ast.unparse(n.func) == "self._norm_scheme_option"]
    rep.check(len(calls) >= 1, R, site(CTX, "_CryptConfig._init_options"), f"{len(calls)} calls",
              "scheme options are normalised through _norm_scheme_option before being stored",
              witness="forbidden option reaches the handler")
    # the branch for scheme options: find the `else:` part where scheme options get stored; check call dominates store
    stores = []
    for n in ast.walk(init):
        if isinstance(n, ast.Assign) and isinstance(n.targets[0], ast.Subscript):
            stores.append(n)
    for st in stores:
        txt = qtext(st)
        # stores into scheme_options[...] maps must be preceded (same block or enclosing) by the norm call
        if txt.loose("scheme_options") or txt.loose("scheme_opts"):
            blk = u.parent(st)
            pre_ok = _preceded_by_call(u, init, st, ("norm_scheme_option", "self._norm_scheme_option"))
            rep.check(pre_ok, R, site(CTX, "_CryptConfig._init_options"), txt,
                      "store of a scheme option is preceded by _norm_scheme_option on the path",
                      witness="all__salt / <scheme>__salt accepted for some category")


def _preceded_by_call(unit, func, stmt, names):
    """walk up enclosing blocks; in each, look at earlier sibling statements for the call"""
    node = stmt
    while node is not func and node is not None:
        par = unit.parent(node)
        for fld in ("body", "orelse", "finalbody"):
            blk = getattr(par, fld, None)
            if isinstance(blk, list) and node in blk:
                for prev in blk[: blk.index(node)]:
                    for n in ast.walk(prev):
                        if isinstance(n, ast.Call) and ast.unparse(n.func) in names:
                            return True
        node = par
    return False


def run(model, rep):
    rep.explanation = __doc__
    rep.assumptions = ["random.SystemRandom / secrets / os.urandom are uniform (OS source not analysed)",
                       "a `rng` parameter receives passlib.utils.rng (all call sites in the tree pass it; checked by C06.a)"]
    rule_a(model, rep)
    rule_b_bytes(model, rep)
    rule_b_str(model, rep)
    rule_c(model, rep)
    rule_d(model, rep)
    rule_e(model, rep)
    rule_unique_symbols(model, rep)
    rep.minimum("C06.b-byte-extraction", 3)
    rep.minimum("C06.b-digit-extraction", 4)


def rule_unique_symbols(model, rep):
    """the entropy a generator claims is length * log2(number of symbols): that only holds if the symbols are distinct, so both generators
    check the sequence they are going to draw from -- whatever its origin -- before storing it"""
    R = "C06.d-entropy-length"
    P = "passlib.pwd"
    for q, attr, var in (("WordGenerator.__init__", "self.chars", "chars"), ("PhraseGenerator.__init__", "self.words", "words")):
        fn = model.func(P, q)
        s = site(P, q) + " unique symbols"
        top = [st for st in fn.body]
        calls = [i for i, st in enumerate(top) if isinstance(st, ast.Expr) and isinstance(st.value, ast.Call) and ast.unparse(st.value.func) == "_ensure_unique"
                 and st.value.args and ast.unparse(st.value.args[0]) == var]
        stores = [i for i, st in enumerate(top) if isinstance(st, ast.Assign) and ast.unparse(st.targets[0]) == attr and ast.unparse(st.value) == var]
        rebinds = [i for i, st in enumerate(top) for n in ast.walk(st) if isinstance(n, ast.Name) and n.id == var and isinstance(n.ctx, ast.Store)]
        ok = len(calls) == 1 and len(stores) == 1 and calls[0] < stores[0] and not [i for i in rebinds if calls[0] < i <= stores[0]]
        rep.check(ok, R, s, f"_ensure_unique({var}) at top-level statement {calls}, `{attr} = {var}` at {stores}",
                  f"`_ensure_unique({var})` runs unconditionally on the sequence that is stored as {attr}",
                  witness="genphrase(entropy=24, words=['a', 'a', 'b', ...]) is accepted: the phrase is sized from log2(len(words)) although repeated words carry less")
