import dataclasses
from typing import Annotated, Literal

from libpass.inspect.phc import PHC, Param

__all__ = [
    "BcryptSHA256PHCV2",
    "Argon2PHC",
]


@dataclasses.dataclass
class Argon2PHC(PHC):
    id: Literal["argon2id", "argon2i", "argon2d"]
    version = 19

    memory_cost: Annotated[int, Param("m")]
    time_cost: Annotated[int, Param("t")]
    parallelism_cost: Annotated[int, Param("p")]

    @property
    def type(self) -> Literal["i", "d", "id"]:
        return self.id.split("argon2")[1]  # type: ignore[return-value]


@dataclasses.dataclass
class BcryptSHA256PHCV2(PHC):
    id: Literal["bcrypt-sha256"]
    version = None

    version_: Annotated[int, Param("v")]
    type: Annotated[str, Param("t")]
    rounds: Annotated[int, Param("r")]
