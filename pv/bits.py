"""Bit-provenance abstract domain (KnownBits / demanded-bits style).

An abstract integer is a list of bits, LSB first; each bit is 0, 1, a source bit `(sym, k)` or TOP.
Transfer functions for & | ^ with anything, << >> by constants, + when the operands' possibly-non-zero
positions are disjoint (then + is |).  Inputs stay symbolic: nothing is executed, no solver is used.
Used for straight-line integer kernels (base64 group coders, int codecs, DES key routing)."""
from __future__ import annotations

import ast

TOP = "T"


class Unsupported(Exception):
    pass


def const_bits(n):
    if n < 0:
        raise Unsupported("negative constant")
    out = []
    while n:
        out.append(n & 1)
        n >>= 1
    return out


def trim(b):
    b = list(b)
    while b and b[-1] == 0:
        b.pop()
    return b


def sym(name, width):
    return [(name, k) for k in range(width)]


def _and(a, b):
    if a == 0 or b == 0:
        return 0
    if a == 1:
        return b
    if b == 1:
        return a
    if a == b:
        return a
    return TOP


def _or(a, b):
    if a == 0:
        return b
    if b == 0:
        return a
    if a == 1 or b == 1:
        return 1
    if a == b:
        return a
    return TOP


def _xor(a, b):
    if a == 0:
        return b
    if b == 0:
        return a
    if a == b and a not in (TOP,):
        return 0 if a != 1 else 0
    return TOP


def binop(op, l, r):
    n = max(len(l), len(r))
    l = l + [0] * (n - len(l))
    r = r + [0] * (n - len(r))
    if isinstance(op, ast.BitAnd):
        return trim([_and(a, b) for a, b in zip(l, r)])
    if isinstance(op, ast.BitOr):
        return trim([_or(a, b) for a, b in zip(l, r)])
    if isinstance(op, ast.BitXor):
        return trim([_xor(a, b) for a, b in zip(l, r)])
    if isinstance(op, ast.Add):
        if all(a == 0 or b == 0 for a, b in zip(l, r)):
            return trim([_or(a, b) for a, b in zip(l, r)])
        raise Unsupported("addition with overlapping operands")
    raise Unsupported(type(op).__name__)


class Evaluator:
    def __init__(self, env=None, const=None, call=None):
        self.env = dict(env or {})
        self.const = const   # callback(expr) -> int | None
        self.call = call     # callback(Call node, evaluator) -> bits | None

    def ev(self, e):
        if isinstance(e, ast.Constant) and isinstance(e.value, int) and not isinstance(e.value, bool):
            return const_bits(e.value)
        if isinstance(e, ast.Name):
            if e.id in self.env:
                return list(self.env[e.id])
            if self.const:
                v = self.const(e)
                if isinstance(v, int):
                    return const_bits(v)
            raise Unsupported(f"unbound name {e.id}")
        if isinstance(e, ast.BinOp):
            if isinstance(e.op, (ast.LShift, ast.RShift)):
                l = self.ev(e.left)
                k = self._const(e.right)
                if k is None:
                    raise Unsupported("shift by non-constant")
                return trim([0] * k + l) if isinstance(e.op, ast.LShift) else trim(l[k:])
            if isinstance(e.op, ast.Mult):
                k = self._const(e.right)
                if k is not None and k > 0 and (k & (k - 1)) == 0:
                    return trim([0] * (k.bit_length() - 1) + self.ev(e.left))
                raise Unsupported("multiplication")
            return binop(e.op, self.ev(e.left), self.ev(e.right))
        if isinstance(e, ast.UnaryOp) and isinstance(e.op, ast.Invert):
            raise Unsupported("~ (unbounded width)")
        if isinstance(e, ast.Call) and self.call:
            r = self.call(e, self)
            if r is not None:
                return r
        if isinstance(e, ast.Subscript) and self.const:
            v = self.const(e)
            if isinstance(v, int):
                return const_bits(v)
        raise Unsupported(ast.unparse(e)[:60])

    def _const(self, e):
        if isinstance(e, ast.Constant) and isinstance(e.value, int):
            return e.value
        if self.const:
            v = self.const(e)
            if isinstance(v, int):
                return v
        try:
            b = self.ev(e)
            if all(x in (0, 1) for x in b):
                return sum(x << i for i, x in enumerate(b))
        except Unsupported:
            pass
        return None


def pad(bits, width):
    if len(bits) > width:
        raise Unsupported(f"value wider than {width} bits: {bits}")
    return list(bits) + [0] * (width - len(bits))
